(* EngineEvents.v — what an engine call logs (C01 clause 5, C05 length clause).

   [ext a x x']: the sprint of x' is the sprint of x followed by new events; every new event is owned by
   a run, and every run's event list grew by exactly the new events it owns, in the same order; the
   texts of msg_created events and the values of run_result_changed events respect the configured limits. *)

From Coq Require Import List NArith ZArith Bool Lia.
From Verif Require Import model.Lang model.Engine proofs.EngineProofs proofs.EngineInv.
Import ListNotations.
Open Scope N_scope.

Definition events_of (s : session) (ri : nat) : list event :=
  match nth_error (s_runs s) ri with Some r => r_events r | None => [] end.

Definition owned_by (ri : nat) (oe : option nat * event) : bool :=
  match fst oe with Some j => Nat.eqb j ri | None => false end.

(* the events of a sprint that run ri logged, in sprint order *)
Definition logged (evs : list (option nat * event)) (ri : nat) : list event := map snd (filter (owned_by ri) evs).

(* the length limits of C05 on what an event carries *)
Definition kind_ok (a : assets) (k : ekind) : Prop :=
  match k with
  | EMsgCreated t => (Z.of_nat (length t) <= Z.max (max_template_chars (a_opts a)) 0)%Z
  | EResultChanged _ v _ => (Z.of_nat (length v) <= Z.max (max_result_chars (a_opts a)) 0)%Z
  | _ => True
  end.

Definition ev_ok (a : assets) (n : nat) (oe : option nat * event) : Prop :=
  (exists ri, fst oe = Some ri /\ (ri < n)%nat) /\ kind_ok a (ev_kind (snd oe)).

Definition nruns (x : st) : nat := length (s_runs (session_ x)).

Definition ext (a : assets) (x x' : st) : Prop :=
  (nruns x <= nruns x')%nat /\
  exists new, sp_events (sprint_ x') = sp_events (sprint_ x) ++ new /\
              Forall (ev_ok a (nruns x')) new /\
              forall ri, events_of (session_ x') ri = events_of (session_ x) ri ++ logged new ri.

Lemma logged_app : forall e1 e2 ri, logged (e1 ++ e2) ri = logged e1 ri ++ logged e2 ri.
Proof. intros. unfold logged. rewrite filter_app, map_app. reflexivity. Qed.

Lemma ev_ok_mono : forall a n m oe, (n <= m)%nat -> ev_ok a n oe -> ev_ok a m oe.
Proof. intros a n m oe H [(ri & E & L) K]. split; auto. exists ri. split; auto. lia. Qed.

Lemma ext_refl : forall a x, ext a x x.
Proof.
  intros. split; [lia|]. exists []. rewrite app_nil_r. split; auto. split; auto.
  intros. unfold logged; simpl. rewrite app_nil_r. reflexivity.
Qed.

Lemma ext_trans : forall a x y z, ext a x y -> ext a y z -> ext a x z.
Proof.
  intros a x y z [L1 (n1 & S1 & F1 & E1)] [L2 (n2 & S2 & F2 & E2)]. split; [lia|].
  exists (n1 ++ n2). split; [rewrite S2, S1, app_assoc; reflexivity|]. split.
  - apply Forall_app. split; auto. eapply Forall_impl; [|exact F1]. intros oe. apply ev_ok_mono. exact L2.
  - intros ri. rewrite E2, E1, logged_app, app_assoc. reflexivity.
Qed.

Lemma events_of_upd_run_same : forall s k g ri, (forall r, r_events (g r) = r_events r) ->
  events_of (upd_run s k g) ri = events_of s ri.
Proof.
  intros s k g ri Hg. unfold events_of, upd_run; simpl.
  destruct (Nat.eq_dec k ri) as [->|Hne].
  - rewrite nth_error_update_nth_eq. destruct (nth_error (s_runs s) ri); simpl; auto.
  - rewrite nth_error_update_nth_neq by auto. reflexivity.
Qed.

(* a change of the session that leaves every run's events alone *)
Lemma ext_with_session : forall a x f,
  (forall ri, events_of (f (session_ x)) ri = events_of (session_ x) ri) ->
  (length (s_runs (session_ x)) <= length (s_runs (f (session_ x))))%nat ->
  ext a x (with_session x f).
Proof.
  intros a x f H L. split; [exact L|]. exists []. simpl. rewrite app_nil_r. split; auto. split; auto.
  intros ri. rewrite H. unfold logged; simpl. rewrite app_nil_r. reflexivity.
Qed.

Lemma ext_upd_run : forall a x k g, (forall r, r_events (g r) = r_events r) ->
  ext a x (with_session x (fun s => upd_run s k g)).
Proof.
  intros. apply ext_with_session.
  - intros ri. apply events_of_upd_run_same; auto.
  - unfold upd_run; simpl. rewrite update_nth_length. lia.
Qed.

Lemma ext_log_segment : forall a x g, ext a x (log_segment x g).
Proof.
  intros. split; [unfold nruns; simpl; lia|]. exists []. simpl. rewrite app_nil_r. split; auto. split; auto.
  intros. unfold logged; simpl. rewrite app_nil_r. reflexivity.
Qed.

Lemma ext_log_event : forall a x ri sr k, (ri < nruns x)%nat -> kind_ok a k -> ext a x (log_event x ri sr k).
Proof.
  intros a x ri sr k Hlt Hk.
  assert (Hn : nruns (log_event x ri sr k) = nruns x) by (unfold nruns, log_event, upd_run; simpl; apply update_nth_length).
  split; [lia|]. exists [(Some ri, {| ev_step := sr; ev_kind := k |})]. split; [reflexivity|]. split.
  - constructor; auto. split; [exists ri; split; [reflexivity|lia]|exact Hk].
  - intros j. unfold events_of, log_event, upd_run, logged, owned_by; simpl.
    destruct (Nat.eq_dec ri j) as [->|Hne].
    + rewrite Nat.eqb_refl, nth_error_update_nth_eq. simpl.
      unfold nruns in Hlt. destruct (nth_error (s_runs (session_ x)) j) eqn:E; simpl; auto.
      apply nth_error_None in E. lia.
    + rewrite nth_error_update_nth_neq by auto. destruct (Nat.eqb_spec ri j); [contradiction|]. simpl.
      rewrite app_nil_r. reflexivity.
Qed.

Lemma nruns_upd : forall x k g, nruns (with_session x (fun s => upd_run s k g)) = nruns x.
Proof. intros. unfold nruns, upd_run; simpl. apply update_nth_length. Qed.

Lemma ext_fail_run : forall a x ri sr c, (ri < nruns x)%nat -> ext a x (fail_run x ri sr c).
Proof.
  intros. unfold fail_run. eapply ext_trans; [|apply ext_log_event; [rewrite nruns_upd; auto|exact I]].
  apply ext_upd_run; reflexivity.
Qed.

Lemma same_shape_nruns : forall x x', same_shape x x' -> nruns x' = nruns x.
Proof. intros x x' []. unfold nruns. rewrite <- !shape_length. congruence. Qed.

Lemma failed_shape_nruns : forall ri x x', failed_shape ri x x' -> nruns x' = nruns x.
Proof. intros ri x x' []. unfold nruns. rewrite <- !shape_length. rewrite fs_shape. unfold fail_at. apply update_nth_length. Qed.

(* ---- the helpers ------------------------------------------------------------------------------------------ *)

Lemma save_and_log_ext : forall a x ri sr name value cat nid input x' v,
  (ri < nruns x)%nat -> save_and_log a x ri sr name value cat nid input = Done x' v -> ext a x x'.
Proof.
  intros a x ri sr name value cat nid input x' v Hlt. unfold save_and_log.
  destruct (trunc_spec value (max_result_chars (a_opts a))) as (t & -> & Hl & _).
  destruct (trunc_ellipsis_spec input (max_template_chars (a_opts a))) as (kept & -> & Hkept & _).
  destruct (get_run (session_ x) ri).
  - destruct (save_result _ _) as [rs ch]. intros H; inversion H; subst. destruct ch.
    + eapply ext_trans; [|apply ext_log_event; [rewrite nruns_upd; auto|exact Hl]]. apply ext_upd_run; reflexivity.
    + apply ext_upd_run; reflexivity.
  - intros H; inversion H; subst. apply ext_refl.
Qed.

Lemma route_to_category_ext : forall a x ri sr n rt cat m op x' v,
  (ri < nruns x)%nat -> route_to_category a x ri sr n rt cat m op = Done x' v -> ext a x x'.
Proof.
  intros a x ri sr n rt cat m op x' v Hlt. unfold route_to_category.
  destruct cat; [|intros H; inversion H; apply ext_refl].
  destruct (nth_error _ _); [|discriminate].
  destruct (rt_result rt); [|intros H; inversion H; apply ext_refl].
  destruct (save_and_log _ _ _ _ _ _ _ _ _) eqn:E; try discriminate.
  intros H; inversion H; subst. eapply save_and_log_ext; eauto.
Qed.

Lemma route_ext : forall a x ri sr n rt x' v, (ri < nruns x)%nat -> route a x ri sr n rt = Done x' v -> ext a x x'.
Proof.
  intros a x ri sr n rt x' v Hlt. unfold route.
  destruct (route_to_category _ _ _ _ _ _ _ _ _) eqn:E; try discriminate.
  intros H; inversion H; subst. eapply route_to_category_ext; eauto.
Qed.

Lemma route_timeout_ext : forall a x ri sr n rt t x' v,
  (ri < nruns x)%nat -> route_timeout a x ri sr n rt t = Done x' v -> ext a x x'.
Proof.
  intros a x ri sr n rt t x' v Hlt. unfold route_timeout.
  destruct (rt_wait rt) as [[wt [[? ?]|]]|]; try discriminate. apply route_to_category_ext; auto.
Qed.

Lemma pick_node_exit_ext : forall a x ri n pos it tmo x' v,
  (ri < nruns x)%nat -> pick_node_exit a x ri n pos it tmo = Done x' v -> ext a x x'.
Proof.
  intros a x ri n pos it tmo x' v Hlt. unfold pick_node_exit.
  destruct (n_router n) as [rt|] eqn:Ert.
  - destruct it.
    + destruct (route_timeout a x ri (Some (ri, pos)) n rt tmo) as [y w| |] eqn:E; try discriminate.
      pose proof (route_timeout_ext _ _ _ _ _ _ _ _ _ Hlt E) as Hr.
      pose proof (same_shape_nruns _ _ (route_timeout_shape _ _ _ _ _ _ _ _ _ E)) as Hn.
      destruct w as [i|]; intros H; inversion H; subst; (eapply ext_trans; [exact Hr|]).
      * apply ext_upd_run; reflexivity.
      * apply ext_fail_run. lia.
    + destruct (route a x ri (Some (ri, pos)) n rt) as [y [w operand]| |] eqn:E; try discriminate.
      pose proof (route_ext _ _ _ _ _ _ _ _ Hlt E) as Hr.
      pose proof (same_shape_nruns _ _ (route_shape _ _ _ _ _ _ _ _ E)) as Hn.
      destruct w as [i|]; intros H; inversion H; subst; (eapply ext_trans; [exact Hr|]).
      * apply ext_upd_run; reflexivity.
      * apply ext_fail_run. lia.
  - destruct (n_exits n) as [|e0 es]; intros H; inversion H; subst; apply ext_upd_run; reflexivity.
Qed.

Lemma find_resume_exit_ext : forall a x ri it tmo,
  (ri < nruns x)%nat ->
  match find_resume_exit a x ri it tmo with
  | FreOk x' _ _ => ext a x x'
  | FreErr x' => x' = x
  | _ => True
  end.
Proof.
  intros a x ri it tmo Hlt. unfold find_resume_exit.
  destruct (run_status (session_ x) ri) as [[]|]; try apply ext_refl.
  destruct (path_location a (session_ x) ri) as [[pos n]|]; [|reflexivity].
  destruct (pick_node_exit a x ri n pos it tmo) as [x' [e op]|x'|] eqn:E; auto.
  - eapply pick_node_exit_ext; eauto.
  - eapply pick_node_exit_goerr; eauto.
Qed.

Lemma exec_action_ext : forall a x ri pos n act x' v,
  (ri < nruns x)%nat -> exec_action a x ri pos n act = Done x' v -> ext a x x' /\ nruns x' = nruns x.
Proof.
  intros a x ri pos n act x' v Hlt E.
  assert (Hn : nruns x' = nruns x).
  { destruct (exec_action_shape _ _ _ _ _ _ _ _ E) as [[Hs _ _ _ _]|Hf]; [|eapply failed_shape_nruns; eauto].
    unfold nruns. rewrite <- !shape_length. congruence. }
  split; [|exact Hn]. revert E. unfold exec_action. destruct act.
  - destruct (trunc_ellipsis_spec t (max_template_chars (a_opts a))) as (t' & -> & Hl & _).
    intros H; inversion H; subst. apply ext_log_event; auto.
  - destruct (trunc_ellipsis_spec value (max_template_chars (a_opts a))) as (t' & -> & Hl & _).
    intros H. eapply save_and_log_ext; eauto.
  - destruct (get_flow a flow).
    + destruct (negb _); intros H; inversion H; subst.
      * change (ext a x (fail_run x ri (Some (ri, pos)) FEnterFlowType)). apply ext_fail_run; auto.
      * eapply ext_trans; [|apply ext_log_event; [exact Hlt|exact I]]. apply ext_with_session; [reflexivity|simpl; lia].
    + intros H; inversion H; subst.
      change (ext a x (fail_run x ri (Some (ri, pos)) FEnterMissingFlow)). apply ext_fail_run; auto.
Qed.

Lemma exec_actions_ext : forall a acts x ri pos n x' b,
  (ri < nruns x)%nat -> exec_actions a x ri pos n acts = Done x' b -> ext a x x' /\ nruns x' = nruns x.
Proof.
  induction acts as [|act acts IH]; intros x ri pos n x' b Hlt; simpl.
  - intros H; inversion H; subst. split; [apply ext_refl|reflexivity].
  - destruct (exec_action a x ri pos n act) as [y v| |] eqn:E; try discriminate.
    destruct (exec_action_ext _ _ _ _ _ _ _ _ Hlt E) as [He Hn].
    destruct (run_status (session_ y) ri) as [[]|];
      try (intros H; destruct (IH _ _ _ _ _ _ ltac:(rewrite Hn; exact Hlt) H) as [He2 Hn2];
           split; [eapply ext_trans; eauto|congruence]).
    intros H; inversion H; subst. split; [|exact Hn].
    eapply ext_trans; [exact He|]. apply ext_with_session; [reflexivity|simpl; lia].
Qed.

Lemma visit_node_ext : forall a x ri n wt x' v,
  visit_node a x ri n wt = Done x' v -> ext a x x'.
Proof.
  intros a x ri n wt x' v. unfold visit_node.
  destruct (get_run (session_ x) ri) as [r0|] eqn:Er; [|discriminate].
  assert (Hlt : (ri < nruns x)%nat) by (unfold nruns; apply nth_error_Some; unfold get_run in Er; congruence).
  set (x1 := with_session x (fun s => upd_run s ri (run_add_step {| st_node := n_id n; st_exit := None |}))).
  assert (H1 : ext a x x1 /\ nruns x1 = nruns x) by (split; [apply ext_upd_run; reflexivity|apply nruns_upd]).
  match goal with |- context [exec_actions a ?X ri ?P n ?A] => set (x2 := X) end.
  assert (H2 : ext a x x2 /\ nruns x2 = nruns x).
  { unfold x2. destruct wt; [destruct (s_trigger (session_ x1))|]; auto.
    destruct H1 as [H1 Hn1]. split.
    - eapply ext_trans; [exact H1|]. eapply ext_trans; [|apply ext_log_event; [unfold nruns in *; simpl in *; lia|exact I]].
      apply ext_with_session; [reflexivity|simpl; lia].
    - unfold nruns, log_event, upd_run in *; simpl in *. rewrite update_nth_length. exact Hn1. }
  destruct H2 as [H2 Hn2].
  destruct (exec_actions a x2 ri (length (r_path r0)) n (n_actions n)) as [x3 b| |] eqn:Ea; try discriminate.
  destruct (exec_actions_ext _ _ _ _ _ _ _ _ ltac:(rewrite Hn2; exact Hlt) Ea) as [H3 Hn3].
  assert (H3' : ext a x x3) by (eapply ext_trans; eauto).
  destruct b; [intros H; inversion H; subst; exact H3'|].
  destruct (s_pushed (session_ x3)); [intros H; inversion H; subst; exact H3'|].
  match goal with |- context [match ?bw with Some _ => _ | None => match pick_node_exit ?A ?X ?R ?N ?P ?I ?T with _ => _ end end] =>
    destruct bw as [x4|] eqn:Ebw end.
  - intros H; inversion H; subst. eapply ext_trans; [exact H3'|].
    assert (H4 : ext a x3 x4).
    { destruct (n_router n) as [rt|]; [|discriminate]. destruct (rt_wait rt) as [[[] tmo]|]; try discriminate; try (dmatch_hyp Ebw; [discriminate|]); inversion Ebw; subst.
      all: (apply ext_log_event; [lia|exact I]). }
    eapply ext_trans; [exact H4|]. apply ext_with_session.
    + intros j. simpl. apply events_of_upd_run_same. reflexivity.
    + simpl. rewrite update_nth_length. lia.
  - destruct (pick_node_exit a x3 ri n (length (r_path r0)) false []) as [x5 [e5 op5]| |] eqn:Epk; try discriminate.
    intros H; inversion H; subst. eapply ext_trans; [exact H3'|].
    eapply pick_node_exit_ext; [|exact Epk]. lia.
Qed.

(* ---- the loop ---------------------------------------------------------------------------------------------- *)

Definition iter_ext (a : assets) (x : st) (r : iter) : Prop :=
  match r with
  | ICont x' _ => ext a x x'
  | IStop (ROk x') => ext a x x'
  | IStop _ => True
  end.

Lemma events_of_map_exit : forall s st ri,
  events_of (set_runs s (map (run_exit st) (s_runs s))) ri = events_of s ri.
Proof.
  intros. unfold events_of; simpl. rewrite nth_error_map. destruct (nth_error (s_runs s) ri); reflexivity.
Qed.

Lemma events_of_push : forall s fl par p ri,
  events_of (set_pushed (set_runs s (s_runs s ++ [new_run fl par])) p) ri = events_of s ri.
Proof.
  intros. unfold events_of; simpl. destruct (Nat.lt_ge_cases ri (length (s_runs s))).
  - rewrite nth_error_app1 by auto. reflexivity.
  - rewrite nth_error_app2 by auto. destruct (nth_error (s_runs s) ri) eqn:E.
    + assert (ri < length (s_runs s))%nat by (apply nth_error_Some; congruence). lia.
    + destruct (ri - length (s_runs s))%nat as [|k]; simpl; [reflexivity|destruct k; reflexivity].
Qed.

Lemma pick_dest_ext : forall a x l x1 l1 dest, pick_dest a x l = (x1, l1, dest) -> ext a x x1.
Proof.
  intros a x l x1 l1 dest. unfold pick_dest.
  destruct (s_pushed (session_ x)) as [p|].
  - intros H; inversion H; subst; clear H.
    eapply ext_trans; [|apply ext_with_session; [intros ri; apply events_of_push|simpl; rewrite app_length; lia]].
    destruct (p_terminal p); [|apply ext_refl].
    apply ext_with_session; [intros ri; apply events_of_map_exit|unfold exit_all_completed; simpl; rewrite map_length; lia].
  - destruct (l_exit l) as [e|]; [|intros H; inversion H; apply ext_refl].
    repeat dmatch; intros H; inversion H; subst; try apply ext_refl; apply ext_log_segment.
Qed.

Lemma mid_inv_nruns : forall x l c dest, mid_inv x l c dest -> (c < nruns x)%nat.
Proof. intros x l c dest M. unfold nruns. rewrite <- shape_length. apply (mi_lt _ _ _ _ M). Qed.

Lemma goto_node_ext : forall a x l c d, mid_inv x l c (Some d) -> iter_ext a x (goto_node a x l c d).
Proof.
  intros a x l c d M. pose proof (mid_inv_nruns _ _ _ _ M) as Hlt. unfold goto_node. cbv zeta.
  cbn [l_trigger l_steps l_cur l_exit l_step l_node l_operand].
  destruct (l_steps l + 1 >? max_steps (a_opts a))%Z; [apply ext_fail_run; exact Hlt|].
  destruct (get_run (session_ x) c) as [r|]; [|exact I].
  destruct (get_flow a (r_flow r)) as [f|]; [|exact I].
  destruct (get_node f d) as [n|]; [|exact I].
  destruct (visit_node a x c n (l_trigger l)) as [y [[pos e] op]|y|] eqn:Ev; try exact I.
  pose proof (visit_node_ext _ _ _ _ _ _ _ Ev) as He.
  destruct (sstatus_eqb (s_status (session_ y)) SWaiting); exact He.
Qed.

Lemma st_at_some_lt : forall x i st, run_status (session_ x) i = Some st -> (i < nruns x)%nat.
Proof.
  intros x i st H. unfold run_status, get_run in H. unfold nruns. apply nth_error_Some.
  destruct (nth_error (s_runs (session_ x)) i); [discriminate|discriminate].
Qed.

Lemma finish_run_ext : forall a x l c, iter_ext a x (finish_run a x l c).
Proof.
  intros a x l c. unfold finish_run.
  set (x1 := match get_run (session_ x) c with
             | Some r => if r_exited r then x else with_session x (fun s => upd_run s c (run_exit RCompleted))
             | None => x end).
  assert (H1 : ext a x x1).
  { unfold x1. destruct (get_run (session_ x) c) as [r|]; [destruct (r_exited r)|]; try apply ext_refl.
    apply ext_upd_run; reflexivity. }
  cbv zeta.
  destruct (match get_run (session_ x1) c with Some r => r_parent r | None => None end) as [pi|].
  2:{ simpl. eapply ext_trans; [exact H1|]. apply ext_with_session; [reflexivity|simpl; lia]. }
  destruct (run_status (session_ x1) pi) as [[]|] eqn:Epi;
    try (simpl; eapply ext_trans; [exact H1|]; apply ext_with_session; [reflexivity|simpl; lia]).
  pose proof (st_at_some_lt _ _ _ Epi) as Hlt.
  destruct (negb match run_status (session_ x1) c with Some RFailed => true | _ => false end).
  - destruct (run_flow_unusable a (session_ x1) pi).
    + simpl. eapply ext_trans; [exact H1|]. apply ext_fail_run; exact Hlt.
    + pose proof (find_resume_exit_ext a x1 pi false [] Hlt) as Hf.
      pose proof (find_resume_exit_shape a x1 pi false []) as Hs.
      destruct (find_resume_exit a x1 pi false []) as [y e op|y|y|]; simpl; auto.
      * eapply ext_trans; eauto.
      * subst y. eapply ext_trans; [exact H1|]. apply ext_fail_run; exact Hlt.
  - simpl. eapply ext_trans; [exact H1|]. apply ext_fail_run; exact Hlt.
Qed.

Lemma cuw_iter_ext : forall a x l, loop_inv x l -> iter_ext a x (cuw_iter a x l).
Proof.
  intros a x l HL. rewrite cuw_iter_phases.
  destruct (pick_dest a x l) as [[x1 l1] dest] eqn:Epd.
  pose proof (pick_dest_ext _ _ _ _ _ _ Epd) as E1.
  destruct (pick_dest_inv _ _ _ _ _ _ HL Epd) as (c & M & _).
  rewrite (mi_cur _ _ _ _ M).
  assert (K : forall r, iter_ext a x1 r -> iter_ext a x r).
  { intros [[]|] Hr; simpl in *; auto; eapply ext_trans; eauto. }
  apply K. destruct dest as [d|].
  - apply goto_node_ext; exact M.
  - apply finish_run_ext.
Qed.

Lemma cuw_ext : forall a fuel x l x',
  loop_inv x l -> continue_until_wait fuel a x l = ROk x' -> ext a x x'.
Proof.
  intros a fuel x l x' HL Hr.
  pose proof (cuw_induct a (fun x1 l1 => loop_inv x1 l1 /\ ext a x x1)
                (fun r => match r with ROk x2 => ext a x x2 | _ => True end)) as P.
  specialize (P ltac:(intros x1 l1 x2 l2 [H1 F1] E; pose proof (cuw_iter_inv a x1 l1 H1) as K;
                      pose proof (cuw_iter_ext a x1 l1 H1) as F; rewrite E in K, F; split; [exact K|eapply ext_trans; eauto])).
  specialize (P ltac:(intros x1 l1 r [H1 F1] E; pose proof (cuw_iter_ext a x1 l1 H1) as F; rewrite E in F;
                      destruct r; auto; eapply ext_trans; eauto)).
  specialize (P I fuel x l (conj HL (ext_refl a x))). rewrite Hr in P. exact P.
Qed.

(* ---- engine calls --------------------------------------------------------------------------------------- *)

(* what C01 (clause 5, second half) and C05 (length clause) say about the sprint of a call that
   returned without error, relative to the session [s0] before the call:
   - every event of the sprint was logged by a run of the session (an index below the number of runs);
   - each run's event list is its list before the call followed by exactly the sprint's events that
     it logged, in the sprint's order;
   - msg_created texts and run_result_changed values are within the configured limits *)
Definition sprint_accounts (a : assets) (s0 : session) (x' : st) : Prop :=
  Forall (ev_ok a (nruns x')) (sp_events (sprint_ x')) /\
  forall ri, events_of (session_ x') ri = events_of s0 ri ++ logged (sp_events (sprint_ x')) ri.

Lemma ext_accounts : forall a s x', ext a {| session_ := s; sprint_ := empty_sprint |} x' -> sprint_accounts a s x'.
Proof.
  intros a s x' [_ (new & S & F & E)]. simpl in S. unfold sprint_accounts. rewrite S. split; auto.
Qed.

Theorem start_accounts : forall a t f x', start a t f = ROk x' -> sprint_accounts a (new_session t f) x'.
Proof.
  intros a t f x'. unfold start. destruct (get_flow a f) as [fl|]; [|discriminate].
  intros H. pose proof (cuw_ext _ _ _ _ _ (loop_inv_start t f (f_type fl)) H) as [_ (new & S & F & E)].
  simpl in S. unfold sprint_accounts. rewrite S. split; [exact F|]. intros ri. rewrite E. reflexivity.
Qed.

Lemma apply_resume_ext : forall a x wi sr r, (wi < nruns x)%nat -> ext a x (apply_resume x wi sr r).
Proof.
  intros a x wi sr r Hlt.
  assert (Hbase : forall y, ext a y (with_session (with_session y (fun s => match run_status s wi with
                                                                   | Some RWaiting => upd_run s wi (run_set_status RActive)
                                                                   | _ => s end)) (fun s => set_input s None))).
  { intros y. eapply ext_trans; [|apply ext_with_session; [reflexivity|simpl; lia]].
    apply ext_with_session.
    - intros ri. destruct (run_status (session_ y) wi) as [[]|]; try reflexivity. apply events_of_upd_run_same. reflexivity.
    - destruct (run_status (session_ y) wi) as [[]|]; try lia. unfold upd_run; simpl. rewrite update_nth_length. lia. }
  assert (Hn : forall y, nruns (with_session (with_session y (fun s => match run_status s wi with
                                                                   | Some RWaiting => upd_run s wi (run_set_status RActive)
                                                                   | _ => s end)) (fun s => set_input s None)) = nruns y).
  { intros y. unfold nruns; simpl. destruct (run_status (session_ y) wi) as [[]|]; try reflexivity.
    unfold upd_run; simpl. apply update_nth_length. }
  destruct r; unfold apply_resume; cbv zeta.
  - eapply ext_trans; [|apply ext_log_event; [|exact I]].
    + eapply ext_trans; [apply Hbase|]. apply ext_with_session; [reflexivity|simpl; lia].
    + unfold nruns in *. simpl. specialize (Hn x). simpl in Hn. rewrite Hn. exact Hlt.
  - eapply ext_trans; [|apply Hbase]. apply ext_log_event; [exact Hlt|exact I].
  - eapply ext_trans; [|apply Hbase].
    eapply ext_trans; [|apply ext_log_event; [rewrite nruns_upd; exact Hlt|exact I]]. apply ext_upd_run; reflexivity.
  - eapply ext_trans; [|apply Hbase]. apply ext_log_event; [exact Hlt|exact I].
Qed.

Lemma fail_session_ext : forall a x wi c, (wi < nruns x)%nat -> ext a x (fail_session x wi c).
Proof.
  intros a x wi c Hlt. unfold fail_session. eapply ext_trans; [apply ext_fail_run; exact Hlt|].
  apply ext_with_session.
  - intros ri. unfold events_of. cbn [session_ with_session s_runs set_status set_runs]. rewrite nth_error_map.
    destruct (nth_error (s_runs (session_ (fail_run x wi None c))) ri) as [r|]; cbn [option_map]; auto. destruct (r_status r); reflexivity.
  - simpl. rewrite map_length. lia.
Qed.

Lemma waiting_run_lt : forall s wi, waiting_run s = Some wi -> (wi < length (s_runs s))%nat.
Proof.
  intros s wi H. destruct (waiting_run_from_some _ _ _ H) as (r & Hr & _). rewrite Nat.sub_0_r in Hr.
  apply nth_error_Some. congruence.
Qed.

Theorem resume_accounts : forall a s r tmo x',
  post_inv s -> resume_session a s r tmo = Resumed (ROk x') -> sprint_accounts a s x'.
Proof.
  intros a s r tmo x' Hpost H. apply ext_accounts. revert H. unfold resume_session.
  destruct (sstatus_eqb (s_status s) SWaiting) eqn:Est; simpl; [|discriminate].
  apply sstatus_eqb_true in Est.
  destruct (waiting_run s) as [wi|] eqn:Ewr; [|discriminate].
  pose proof (waiting_run_lt _ _ Ewr) as Hlt.
  assert (Hfs : forall c, Resumed (ROk (fail_session {| session_ := s; sprint_ := empty_sprint |} wi c)) = Resumed (ROk x') ->
                          ext a {| session_ := s; sprint_ := empty_sprint |} x').
  { intros c H; inversion H; subst. apply fail_session_ext. exact Hlt. }
  destruct (run_flow_unusable a s wi); [apply Hfs|].
  destruct (Z.of_nat (count_waits s) >=? max_resumes (a_opts a))%Z; [apply Hfs|].
  destruct (path_location a s wi) as [[pos n]|]; [|apply Hfs].
  destruct (n_router n) as [[[w|] rres rcats rcases rdef]|]; try apply Hfs.
  destruct (negb (accepts w r)); [discriminate|].
  cbv zeta.
  set (x0 := with_session {| session_ := s; sprint_ := empty_sprint |} (fun s => set_status s SActive)).
  set (x1 := apply_resume x0 wi (Some (wi, pos)) r).
  assert (E1 : ext a {| session_ := s; sprint_ := empty_sprint |} x1).
  { eapply ext_trans; [apply (ext_with_session a _ (fun s => set_status s SActive)); [reflexivity|simpl; lia]|].
    apply apply_resume_ext. exact Hlt. }
  assert (M : forall l, l_cur l = Some wi -> l_exit l = None -> mid_inv x1 l wi None).
  { intros l Hc He. apply resume_mid_inv; auto. }
  set (l0 := {| l_cur := Some wi; l_node := None; l_exit := None; l_operand := []; l_step := None; l_steps := 0%Z; l_trigger := false |}).
  pose proof (mid_inv_nruns _ _ _ _ (M l0 eq_refl eq_refl)) as Hlt1.
  pose proof (find_resume_exit_shape a x1 wi (is_timeout r) tmo) as Hfre.
  pose proof (find_resume_exit_ext a x1 wi (is_timeout r) tmo Hlt1) as Hfe.
  destruct (find_resume_exit a x1 wi (is_timeout r) tmo) as [x2 e op|x2|x2|]; try contradiction.
  - intros H. inversion H as [Hc]. clear H.
    assert (HL : loop_inv x2 {| l_cur := Some wi; l_node := Some (match get_run s wi with Some rn => r_flow rn | None => 0 end, n_id n);
                                l_exit := e; l_operand := op; l_step := Some (wi, pos); l_steps := 0%Z; l_trigger := false |}).
    { destruct Hfre as [[Hss Hact]|[-> Hfsh]].
      - eapply mid_same; [apply (M l0); reflexivity|exact Hss|reflexivity|].
        simpl. intros He. rewrite <- status_at_st_at. apply Hact. exact He.
      - eapply mid_fail_cur; [apply (M l0); reflexivity|exact Hfsh|reflexivity|reflexivity]. }
    eapply ext_trans; [exact E1|]. eapply ext_trans; [exact Hfe|]. eapply cuw_ext; eauto.
  - subst x2. intros H; inversion H; subst. eapply ext_trans; [exact E1|]. apply fail_session_ext. exact Hlt1.
Qed.

Theorem reachable_resume_accounts : forall a s r tmo x',
  reachable s -> resume_session a s r tmo = Resumed (ROk x') -> sprint_accounts a s x'.
Proof. intros. eapply resume_accounts; eauto. apply reachable_post; assumption. Qed.

(* ================================================================================================== *)
(* Trichotomy of a resume (C10)                                                                          *)
(* ================================================================================================== *)

(* C10: what a resume of a waiting session does is decided by three situations that are written
   from the property sentence over the session and the asset store alone (no reference to the engine function):

     rejected_by_statement  - the session is not waiting / has no waiting run / the wait at the waiting run's location
                              does not accept that type of resume (and resumption is not impossible);
     impossible             - missing or unusable flow, resume limit reached, vanished node, node without wait
                              (EngineProofs.impossible);
     otherwise              - the resume is applied: the sprint begins with the resume's own event.

   Proved: the engine rejects a resume (in all three forms of the model: resume_session, resume_m, resume_mp) EXACTLY in
   the first situation; and a resume that is not rejected ends as "failed without having run anything" (its sprint is
   exactly one failure event of the waiting run) EXACTLY in the second - the converse of impossible_fails. *)


(* the three kinds of rejection of the property sentence *)
Definition rejected_by_statement (a : assets) (s : session) (r : resume) : Prop :=
  s_status s <> SWaiting \/
  (s_status s = SWaiting /\ no_waiting_run s) \/
  (s_status s = SWaiting /\
   exists wi pos n w, waiting_run s = Some wi /\ ~ impossible a s wi /\
                      resume_site a s wi (Some (pos, n, w)) /\ accepts w r = false).

Lemma not_impossible_iff : forall a s wi pos n w,
  resume_site a s wi (Some (pos, n, w)) ->
  (~ impossible a s wi <-> ~ flow_unusable a s wi /\ ~ resume_limit_reached a s).
Proof.
  intros a s wi pos n w Hs. unfold impossible. split.
  - intros H. split; intros C; apply H; auto.
  - intros [H1 H2] [C|[C|C]]; auto.
    pose proof (resume_site_fun _ _ _ _ _ Hs C). discriminate.
Qed.

Theorem rejected_iff_statement : forall a s r tmo,
  (exists code, resume_session a s r tmo = Rejected code) <-> rejected_by_statement a s r.
Proof.
  intros a s r tmo. unfold rejected_by_statement. split.
  - intros [code H]. apply reject_iff in H.
    destruct H as [[_ H]|[(_ & H1 & H2)|(_ & H1 & wi & pos & n & w & Hw & Hf & Hl & Hs & Ha)]].
    + left; exact H.
    + right; left; auto.
    + right; right. split; [exact H1|]. exists wi, pos, n, w. split; [exact Hw|]. split; [|split; assumption].
      apply (not_impossible_iff _ _ _ _ _ _ Hs). split; assumption.
  - intros [H|[(H1 & H2)|(H1 & wi & pos & n & w & Hw & Hi & Hs & Ha)]].
    + exists 101. apply reject_iff. left; auto.
    + exists 102. apply reject_iff. right; left; auto.
    + exists 103. apply reject_iff. right; right. split; [reflexivity|]. split; [exact H1|].
      exists wi, pos, n, w. apply (not_impossible_iff _ _ _ _ _ _ Hs) in Hi. destruct Hi. repeat split; assumption.
Qed.

(* the state-passing forms: an engine error is returned exactly in the same situation *)
Theorem resume_m_error_iff_statement : forall a s r tmo,
  (exists x' code, resume_m a s r tmo = (x', OErr code)) <-> rejected_by_statement a s r.
Proof.
  intros a s r tmo. rewrite <- (rejected_iff_statement a s r tmo). rewrite (resume_m_agrees a s r tmo).
  destruct (resume_m a s r tmo) as [x o]. simpl. split.
  - intros (x' & code & H). inversion H; subst. exists code. reflexivity.
  - intros [code H]. destruct o; simpl in H; [|discriminate]. exists x, code0. reflexivity.
Qed.

Theorem resume_mp_error_iff_statement : forall a s loaded r tmo,
  (exists x' loaded' code, resume_mp a s loaded r tmo = (x', loaded', OErr code)) <-> rejected_by_statement a s r.
Proof.
  intros a s loaded r tmo. rewrite <- (resume_m_error_iff_statement a s r tmo). unfold resume_mp.
  destruct (resume_m a s r tmo) as [x o]. split.
  - intros (x' & l' & code & H). inversion H; subst. exists x', code. reflexivity.
  - intros (x' & code & H). inversion H; subst. eexists; eexists; eexists; reflexivity.
Qed.

(* ---- a resume that is applied begins its sprint with the resume's own event ------------------------------------- *)

Definition resume_kind (r : resume) : ekind :=
  match r with RMsg t => EMsgReceived t | RTimeout => EWaitTimedOut | RExpiration => ERunExpired | RDial => EDialEnded end.

Lemma resume_kind_not_failure : forall r c, resume_kind r <> EFailure c.
Proof. intros [] c; discriminate. Qed.

Lemma apply_resume_events : forall x wi sr r,
  sp_events (sprint_ (apply_resume x wi sr r)) = sp_events (sprint_ x) ++ [(Some wi, {| ev_step := sr; ev_kind := resume_kind r |})].
Proof. intros x wi sr r. destruct r; reflexivity. Qed.

(* the applied resume: everything the call produces comes after the state in which the resume has been applied *)
Lemma resume_applied_ext : forall a s r tmo x' wi pos n w,
  post_inv s -> s_status s = SWaiting -> waiting_run s = Some wi ->
  ~ flow_unusable a s wi -> ~ resume_limit_reached a s -> resume_site a s wi (Some (pos, n, w)) -> accepts w r = true ->
  resume_session a s r tmo = Resumed (ROk x') ->
  ext a (apply_resume (resume_x0 s) wi (Some (wi, pos)) r) x'.
Proof.
  intros a s r tmo x' wi pos n w Hpost Hst Ewr Hfu Hlim Hsite Hacc H.
  pose proof (waiting_run_lt _ _ Ewr) as Hlt.
  rewrite (resume_proceeds a s r tmo wi pos n w Hst Ewr Hfu Hlim Hsite Hacc) in H. cbv zeta in H.
  change (with_session {| session_ := s; sprint_ := empty_sprint |} (fun s0 => set_status s0 SActive)) with (resume_x0 s) in H.
  set (x1 := apply_resume (resume_x0 s) wi (Some (wi, pos)) r) in *.
  assert (M : forall l, l_cur l = Some wi -> l_exit l = None -> mid_inv x1 l wi None).
  { intros l Hc He. apply resume_mid_inv; auto. }
  set (l0 := {| l_cur := Some wi; l_node := None; l_exit := None; l_operand := []; l_step := None; l_steps := 0%Z; l_trigger := false |}).
  pose proof (mid_inv_nruns _ _ _ _ (M l0 eq_refl eq_refl)) as Hlt1.
  pose proof (find_resume_exit_shape a x1 wi (is_timeout r) tmo) as Hfre.
  pose proof (find_resume_exit_ext a x1 wi (is_timeout r) tmo Hlt1) as Hfe.
  destruct (find_resume_exit a x1 wi (is_timeout r) tmo) as [x2 e op|x2|x2|]; try contradiction; try discriminate.
  - inversion H as [Hc]. clear H.
    assert (HL : loop_inv x2 {| l_cur := Some wi; l_node := Some (match get_run s wi with Some rn => r_flow rn | None => 0 end, n_id n);
                                l_exit := e; l_operand := op; l_step := Some (wi, pos); l_steps := 0%Z; l_trigger := false |}).
    { destruct Hfre as [[Hss Hact]|[-> Hfsh]].
      - eapply mid_same; [apply (M l0); reflexivity|exact Hss|reflexivity|].
        simpl. intros He. rewrite <- status_at_st_at. apply Hact. exact He.
      - eapply mid_fail_cur; [apply (M l0); reflexivity|exact Hfsh|reflexivity|reflexivity]. }
    eapply ext_trans; [exact Hfe|]. eapply cuw_ext; eauto.
  - subst x2. inversion H; subst. apply fail_session_ext. exact Hlt1.
Qed.

(* ---- the trichotomy -------------------------------------------------------------------------------------------- *)

(* the sprint of a call that failed the session without running anything *)
Definition only_a_failure (wi : nat) (x' : st) : Prop :=
  exists c, sp_events (sprint_ x') = [(Some wi, failure_event c)].

Theorem failed_without_running_iff_impossible : forall a s r tmo wi x',
  post_inv s -> s_status s = SWaiting -> waiting_run s = Some wi ->
  resume_session a s r tmo = Resumed (ROk x') ->
  (impossible a s wi <-> only_a_failure wi x').
Proof.
  intros a s r tmo wi x' Hpost Hst Ewr H. split.
  - intros Himp. destruct (impossible_fails a s r tmo wi Hst Ewr Himp) as (y & Hy & He).
    rewrite H in Hy. inversion Hy; subst y. destruct He as (_ & (c & Hc & _) & _). exists c. exact Hc.
  - intros [c Hc].
    destruct (run_flow_unusable a s wi) eqn:Efu; [left; exact Efu|].
    destruct (Z.of_nat (count_waits s) >=? max_resumes (a_opts a))%Z eqn:Ecw.
    { right; left. unfold resume_limit_reached. lia. }
    destruct (resume_site_total a s wi) as [[[[pos n] w]|] Hsite]; [|right; right; exact Hsite].
    exfalso.
    assert (Hfu : ~ flow_unusable a s wi) by (unfold flow_unusable; congruence).
    assert (Hlim : ~ resume_limit_reached a s) by (unfold resume_limit_reached; lia).
    destruct (accepts w r) eqn:Hacc.
    + pose proof (resume_applied_ext a s r tmo x' wi pos n w Hpost Hst Ewr Hfu Hlim Hsite Hacc H) as (_ & new & Hev & _).
      rewrite apply_resume_events in Hev. simpl in Hev. rewrite Hc in Hev.
      unfold failure_event in Hev. inversion Hev.   (* the first event names a step; a failSession failure names none *)
    + assert (R : resume_session a s r tmo = Rejected 103).
      { apply reject_iff. right; right. split; [reflexivity|]. split; [exact Hst|]. exists wi, pos, n, w. repeat split; assumption. }
      rewrite H in R. discriminate.
Qed.

(* every resume of a waiting session with a waiting run falls into exactly one of the three situations, and the engine
   answers each with its own outcome *)
Theorem resume_trichotomy : forall a s r tmo wi,
  post_inv s -> s_status s = SWaiting -> waiting_run s = Some wi ->
  (rejected_by_statement a s r /\ ~ impossible a s wi /\ exists code, resume_session a s r tmo = Rejected code) \/
  (impossible a s wi /\ ~ rejected_by_statement a s r /\
     exists x', resume_session a s r tmo = Resumed (ROk x') /\ ended_as_failed s wi x') \/
  (~ rejected_by_statement a s r /\ ~ impossible a s wi /\
     exists pos n w, resume_site a s wi (Some (pos, n, w)) /\ accepts w r = true /\
       forall x', resume_session a s r tmo = Resumed (ROk x') ->
         exists new, sp_events (sprint_ x') = (Some wi, {| ev_step := Some (wi, pos); ev_kind := resume_kind r |}) :: new).
Proof.
  intros a s r tmo wi Hpost Hst Ewr.
  assert (Dimp : impossible a s wi \/ ~ impossible a s wi).
  { destruct (run_flow_unusable a s wi) eqn:Efu; [left; left; exact Efu|].
    destruct (Z.of_nat (count_waits s) >=? max_resumes (a_opts a))%Z eqn:Ecw.
    { left; right; left. unfold resume_limit_reached. lia. }
    destruct (resume_site_total a s wi) as [[[[pos n] w]|] Hsite]; [|left; right; right; exact Hsite].
    right. apply (not_impossible_iff _ _ _ _ _ _ Hsite). split; [unfold flow_unusable; congruence|unfold resume_limit_reached; lia]. }
  destruct Dimp as [Himp|Hni].
  - right; left. split; [exact Himp|]. split.
    + intros Hrej. apply (rejected_iff_statement a s r tmo) in Hrej. destruct Hrej as [code Hc].
      destruct (impossible_fails a s r tmo wi Hst Ewr Himp) as (y & Hy & _). congruence.
    + apply impossible_fails; assumption.
  - destruct (resume_site_total a s wi) as [[[[pos n] w]|] Hsite]; [|exfalso; apply Hni; right; right; exact Hsite].
    pose proof (proj1 (not_impossible_iff _ _ _ _ _ _ Hsite) Hni) as [Hfu Hlim].
    destruct (accepts w r) eqn:Hacc.
    + right; right. split.
      * intros Hrej. apply (rejected_iff_statement a s r tmo) in Hrej. destruct Hrej as [code Hc].
        apply reject_iff in Hc. destruct Hc as [[_ C]|[(_ & _ & C)|(_ & _ & wi' & pos' & n' & w' & E1 & _ & _ & Hs' & Ha')]].
        -- contradiction.
        -- apply (waiting_run_from_none (s_runs s) 0) in C. unfold waiting_run in Ewr. congruence.
        -- rewrite Ewr in E1; inversion E1; subst wi'. pose proof (resume_site_fun _ _ _ _ _ Hsite Hs') as K. inversion K; subst. congruence.
      * split; [exact Hni|]. exists pos, n, w. split; [exact Hsite|]. split; [exact Hacc|].
        intros x' H. pose proof (resume_applied_ext a s r tmo x' wi pos n w Hpost Hst Ewr Hfu Hlim Hsite Hacc H) as (_ & new & Hev & _).
        rewrite apply_resume_events in Hev. simpl in Hev. exists new. exact Hev.
    + left. assert (Hrej : rejected_by_statement a s r).
      { right; right. split; [exact Hst|]. exists wi, pos, n, w. repeat split; assumption. }
      split; [exact Hrej|]. split; [exact Hni|]. apply (rejected_iff_statement a s r tmo). exact Hrej.
Qed.
