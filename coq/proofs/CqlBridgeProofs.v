(* proofs/CqlBridgeProofs.v — the trees of the parser model (model/CqlParser.v, node type of model/CqlSyntax.v) seen as
   trees of the evaluation model (model/CqlEval.v): what ParseQuery's lexer, parser and visitor build has no empty
   combination, so the hypothesis [wf] of the C15 theorems holds of every parsed query. *)
From Coq Require Import List NArith Bool.
From Verif Require model.CqlEval model.CqlSyntax model.CqlPrinter model.CqlParser proofs.CqlEvalProofs
  proofs.CqlSimplifyProofs proofs.CqlParseProofs proofs.CqlLexPrintProofs proofs.CqlAcceptedProofs lib.Quote.
Import ListNotations.

Module E := Verif.model.CqlEval.
Module S := Verif.model.CqlSyntax.
Module P := Verif.model.CqlParser.

Definition conv_pt (p : S.ptype) : option E.ptype :=
  match p with S.PAttr => Some E.PAttr | S.PURN => Some E.PUrn | S.PField => Some E.PField | S.PNone => None end.

Definition conv_op (o : S.oper) : option E.cop :=
  match o with
  | S.OpEqual => Some E.OpEq | S.OpNotEqual => Some E.OpNe | S.OpContains => Some E.OpContains
  | S.OpGreaterThan => Some E.OpGt | S.OpLessThan => Some E.OpLt
  | S.OpGreaterThanOrEqual => Some E.OpGe | S.OpLessThanOrEqual => Some E.OpLe
  | S.OpOther _ => None
  end.

Definition conv_b (b : S.boolop) : E.bop := match b with S.BAnd => E.BAnd | S.BOr => E.BOr end.

Fixpoint all_some {A} (l : list (option A)) : option (list A) :=
  match l with
  | [] => Some []
  | Some x :: r => match all_some r with Some r' => Some (x :: r') | None => None end
  | None :: _ => None
  end.

(* the same tree in the other model's types; None for the two constructors that exist only on the parser side
   (the zero property type left behind by a visitor error, an operator text outside the constants) *)
Fixpoint conv (n : S.node) : option E.node :=
  match n with
  | S.Cond pt k o v =>
      match conv_pt pt, conv_op o with
      | Some p, Some c => Some (E.Cond p k c v)
      | _, _ => None
      end
  | S.Comb b ch =>
      match all_some (map conv ch) with
      | Some l => Some (E.Comb (conv_b b) l)
      | None => None
      end
  end.

Lemma conv_wf : forall n, CqlSimplifyProofs.nonempty_combs n -> forall m, conv n = Some m -> CqlEvalProofs.wf m.
Proof.
  induction n as [pt k o v|b ch IH] using CqlSimplifyProofs.node_ind'; intros Hn m H.
  - cbn [conv] in H. destruct (conv_pt pt), (conv_op o); inversion H. constructor.
  - inversion Hn as [|? ? Hne Hch]; subst. cbn [conv] in H.
    destruct (all_some (map conv ch)) as [l|] eqn:E; inversion H; subst. constructor.
    + destruct ch as [|c ch]; [congruence|]. cbn [map all_some] in E.
      destruct (conv c); [|discriminate]. destruct (all_some (map conv ch)); inversion E. discriminate.
    + clear H Hne Hn. revert l E. induction ch as [|c ch IHch]; intros l E.
      * inversion E. constructor.
      * inversion IH; subst. inversion Hch; subst. cbn [map all_some] in E.
        destruct (conv c) as [c'|] eqn:Ec; [|discriminate].
        destruct (all_some (map conv ch)) as [l'|] eqn:El; inversion E; subst.
        constructor; [eapply H1; eauto|eapply IHch; eauto].
Qed.

(* every tree the lexer + parser + visitor of the ParseQuery model produce is well-formed in the sense of C15 *)
Theorem parsed_tree_wf : forall e s n m, P.parse_front e s = P.FTree n -> conv n = Some m -> CqlEvalProofs.wf m.
Proof.
  intros e s n m F H. apply (conv_wf n); [|exact H].
  unfold P.parse_front in F.
  destruct (P.cql_lex (P.preprocess e s)); try discriminate.
  destruct (P.parse_tokens ts) as [| |a rest]; try discriminate.
  destruct (P.visit e a) as [|n' errs] eqn:V; [discriminate|].
  destruct errs; [|discriminate]. inversion F; subst. eapply CqlParseProofs.visit_nonempty. exact V.
Qed.

(* [conv] is total on what the parser hands over: the zero property type only comes with a visitor error and the
   operator of a COMPARATOR token is always one of the constants (needs the environment's lower-casing to be the ASCII
   map on ASCII and to respect the grammar's classes on the characters of the text — CqlAcceptedProofs.env_ok, lowok) *)
Lemma conv_total_pre : forall e n, CqlAcceptedProofs.pre_tree e n -> exists m, conv n = Some m.
Proof.
  intros e. induction n as [pt k o v|b ch IH] using CqlSimplifyProofs.node_ind'; intros Hp.
  - inversion Hp as [? ? ? ? (Hk & Ho & _)|]; subst. cbn [conv].
    destruct pt; cbn [CqlLexPrintProofs.key_ok] in Hk; try contradiction;
      destruct o; try (exfalso; exact (Ho _ eq_refl)); eexists; reflexivity.
  - inversion Hp as [|? ? Hch]; subst. cbn [conv].
    assert (HA : exists l, all_some (map conv ch) = Some l).
    { clear Hp. induction ch as [|c ch IHch]; [exists []; reflexivity|].
      inversion IH; subst. inversion Hch; subst. destruct (H1 H3) as [c' Ec]. destruct (IHch H2 H4) as [l El].
      exists (c' :: l). cbn [map all_some]. rewrite Ec, El. reflexivity. }
    destruct HA as [l ->]. eexists. reflexivity.
Qed.

Theorem parsed_tree_converts : forall e s n, CqlAcceptedProofs.env_ok e -> Quote.valid_codepoints s ->
  Forall (CqlAcceptedProofs.lowok e) s -> P.parse_front e s = P.FTree n ->
  exists m, conv n = Some m /\ CqlEvalProofs.wf m.
Proof.
  intros e s n He Hs Hl F.
  destruct (conv_total_pre e n (CqlAcceptedProofs.front_pre_tree e He s n Hs Hl F)) as [m Em].
  exists m. split; [exact Em|]. eapply parsed_tree_wf; eauto.
Qed.

(* ---- the two transcriptions of Simplify agree ------------------------------------------------------------------- *)

Definition R (x : S.node) (y : E.node) : Prop := conv x = Some y.

Lemma all_some_F2 : forall l l', all_some (map conv l) = Some l' <-> Forall2 R l l'.
Proof.
  induction l as [|x l IH]; intros l'; cbn [map all_some].
  - split; [intros H; inversion H; constructor|intros H; inversion H; reflexivity].
  - split.
    + destruct (conv x) as [y|] eqn:E; [|discriminate]. destruct (all_some (map conv l)) as [r|] eqn:A; [|discriminate].
      intros H. inversion H; subst. constructor; [exact E|]. apply IH. reflexivity.
    + intros H. inversion H as [|? y ? r Hx Hr]; subst. unfold R in Hx. rewrite Hx.
      apply IH in Hr. rewrite Hr. reflexivity.
Qed.

Lemma conv_comb b l l' : Forall2 R l l' -> conv (S.Comb b l) = Some (E.Comb (conv_b b) l').
Proof. intros H. cbn [conv]. apply all_some_F2 in H. rewrite H. reflexivity. Qed.

Lemma bop_eqb_conv b1 b2 : E.bop_eqb (conv_b b1) (conv_b b2) = S.boolop_eqb b1 b2.
Proof. destruct b1, b2; reflexivity. Qed.

Lemma promote_F2 b x y : R x y -> Forall2 R (CqlPrinter.promote b x) (E.promote (conv_b b) y).
Proof.
  intros H. unfold R in H. destruct x as [pt k o v|b' gc].
  - assert (Hc := H). cbn [conv] in H. destruct (conv_pt pt), (conv_op o); inversion H; subst.
    cbn [CqlPrinter.promote E.promote]. constructor; [exact Hc|constructor].
  - cbn [conv] in H. destruct (all_some (map conv gc)) as [l|] eqn:A; inversion H; subst.
    cbn [CqlPrinter.promote E.promote]. rewrite bop_eqb_conv. destruct (S.boolop_eqb b' b).
    + apply all_some_F2. exact A.
    + constructor; [|constructor]. unfold R. cbn [conv]. rewrite A. reflexivity.
Qed.

Lemma flat_promote_F2 b : forall xs ys, Forall2 R xs ys ->
  Forall2 R (flat_map (CqlPrinter.promote b) xs) (flat_map (E.promote (conv_b b)) ys).
Proof.
  induction 1 as [|x y xs ys Hxy _ IH]; [constructor|]. cbn [flat_map]. apply Forall2_app; [apply promote_F2; exact Hxy|exact IH].
Qed.

Definition Ro (x : option S.node) (y : option E.node) : Prop :=
  match x, y with None, None => True | Some a, Some b => R a b | _, _ => False end.

Lemma finish_F2 b xs ys : Forall2 R xs ys -> Ro (CqlPrinter.finish b xs) (E.finish (conv_b b) ys).
Proof.
  intros H. destruct H as [|x y xs ys Hxy H]; [exact I|].
  destruct H as [|x2 y2 xs ys Hxy2 H]; [exact Hxy|].
  cbn [CqlPrinter.finish E.finish Ro]. apply conv_comb. constructor; [exact Hxy|]. constructor; assumption.
Qed.

(* Simplify of the parser model and Simplify of the evaluation model are the same function under [conv] *)
Theorem simplify_agrees : forall n m, conv n = Some m -> Ro (CqlPrinter.simplify n) (E.simplify m).
Proof.
  induction n as [pt k o v|b ch IH] using CqlSimplifyProofs.node_ind'; intros m H.
  - cbn [conv] in H. destruct (conv_pt pt) eqn:Ep, (conv_op o) eqn:Eo; inversion H; subst.
    cbn [CqlPrinter.simplify E.simplify Ro]. unfold R. cbn [conv]. rewrite Ep, Eo. reflexivity.
  - cbn [conv] in H. destruct (all_some (map conv ch)) as [l|] eqn:A; inversion H; subst.
    apply all_some_F2 in A. cbn [CqlPrinter.simplify E.simplify].
    apply finish_F2. apply flat_promote_F2.
    clear H. induction A as [|x y xs ys Hxy A IHA]; [constructor|].
    inversion IH as [|? ? Hx Hxs]; subst. cbn [map CqlPrinter.keep_some E.keep_some].
    pose proof (Hx y Hxy) as Hr. specialize (IHA Hxs).
    destruct (CqlPrinter.simplify x), (E.simplify y); cbn [Ro] in Hr; try contradiction;
      cbn [CqlPrinter.keep_some E.keep_some]; [constructor; assumption|exact IHA].
Qed.

(* from the query TEXT: what lexer, parser and visitor build for a text, once the validator admits it, is simplified to
   the same root in both models and evaluates to a boolean on every typed contact *)
Theorem parsed_text_total : forall e s n m e' r c,
  P.parse_front e s = P.FTree n -> conv n = Some m ->
  E.validate e' r m = None -> CqlEvalProofs.typed_contact r c ->
  Ro (CqlPrinter.simplify n) (E.simplify m)
  /\ exists b, E.eval_root e' r (E.query_property c) (E.simplify m) = E.RBool b.
Proof.
  intros e s n m e' r c F Hc Hv Ht. split; [apply simplify_agrees; exact Hc|].
  pose proof (parsed_tree_wf e s n m F Hc) as Hw.
  destruct (CqlEvalProofs.parsed_query_total e' r m c Hw Hv Ht) as (q' & b & _ & Hb & _). exists b. exact Hb.
Qed.

Example conv_example :
  conv (S.Comb S.BAnd [S.Cond S.PAttr [110; 97; 109; 101]%N S.OpEqual [98]%N; S.Cond S.PField [120]%N S.OpGreaterThan [49]%N])
  = Some (E.Comb E.BAnd [E.Cond E.PAttr [110; 97; 109; 101]%N E.OpEq [98]%N; E.Cond E.PField [120]%N E.OpGt [49]%N]).
Proof. reflexivity. Qed.
