(* RedactKeys.v — the obligations of C19 over the generated key table gen/ContextKeys.v (regenerated from the
   goflow working tree on every run) and over the model's own tree. *)
From Coq Require Import List String Bool.
From Verif Require Import model.Redact gen.ContextKeys.
Import ListNotations.
Open Scope string_scope.

(* every builder of context maps in the source: transcribed ones have the model's keys and URN classes, all others
   are URN-free; transcribed builders still exist *)
Lemma context_keys_covered : keys_covered source_context_keys = true.
Proof. vm_compute. reflexivity. Qed.

(* the environment methods and the direct value builders in the source are the ones the model accounts for, with the
   same URN-touching flag (a new sessionEnvironment method, or a new function returning an XValue, re-opens this) *)
Lemma env_and_values_covered :
  rows_eqb model_env_methods source_env_methods = true /\
  rows_eqb model_value_builders source_value_builders = true.
Proof. split; vm_compute; reflexivity. Qed.

(* the functions that read the contact's URNs during a run are the ones the model's header accounts for *)
Lemma urn_readers_covered : pairs_eqb model_urn_readers source_urn_readers = true.
Proof. vm_compute. reflexivity. Qed.

(* the tree the model builds has, at every transcribed builder, exactly the keys of the model's table
   ("__default__" first, then alphabetical as XObject.Properties() lists them) *)
Definition dflt_first (ks : list string) : list string :=
  filter (String.eqb "__default__") ks ++ filter (fun k => negb (String.eqb "__default__" k)) ks.

Lemma model_tree_has_table_keys : forall e chans c i r s ch,
  xv_keys (contact_context e chans c) = dflt_first (table_keys "flows.Contact.Context") /\
  xv_keys (input_context e i) = dflt_first (table_keys "inputs.MsgInput.Context") /\
  xv_keys (related_context e chans r) = dflt_first (table_keys "runs.relatedRunContext.Context") /\
  xv_keys (run_context e s) = dflt_first (table_keys "runs.run.Context") /\
  xv_keys (root_context e s) = dflt_first (table_keys "runs.run.RootContext") /\
  xv_keys (channel_context ch) = dflt_first (table_keys "flows.Channel.Context") /\
  xv_keys (urns_map_context e (c_urns c)) = all_schemes e.
Proof.
  intros. repeat split; try reflexivity.
  unfold urns_map_context, xv_keys. cbn [app]. rewrite map_map. cbn [fst]. apply map_id.
Qed.
