(* InspectExecAccepts.v — every trace the executable model engine (model/InspectExec.v) computes is accepted by the
   step acceptor (model/Inspect.v), for sessions whose flows contain no enter_flow action (one run): for all
   oracles, fuel, start flow and resume history.  This gives the acceptor's position check (position_ok: a step
   continues where the previous step of its run left, a first step is at the first node of its flow) a theorem, and
   makes the acceptor-relative theorems apply to these engine traces by theorem.

   Invariant: the acceptor has accepted the steps emitted so far, ending in a state [a]; the run the loop [go] is
   about to move to [dest] is recorded in [a] with exactly that next node (or, before the first step, [dest] is the
   first node of the flow); a waiting step is the last step emitted. *)
From Coq Require Import List NArith Bool String Lia Arith PeanoNat.
From Verif Require Import model.ActionRow gen.ActionResults model.Inspect model.InspectExec.
From Verif Require Import proofs.InspectProofs proofs.InspectExecProofs.
Import ListNotations.
Open Scope N_scope.

(* no enter_flow action anywhere in the flows *)
Definition action_not_enter_flow (a : action) : bool :=
  match a_behav a with BEnterFlow _ _ => false | _ => true end.

Definition no_enter_flow (A : list flow) : bool :=
  forallb (fun f => forallb (fun n => forallb action_not_enter_flow (n_actions n)) (f_nodes f)) A.

(* the state the acceptor reaches *)
Fixpoint acc_state (names : list named) (A : list flow) (st : state) (tr : list ostep) : option state :=
  match tr with
  | [] => Some st
  | o :: rest => match step_ok names A st o with
                 | Some st' => acc_state names A st' rest
                 | None => None
                 end
  end.

Lemma accepts_from_acc : forall names A tr st,
  accepts_from names A st tr = true <-> exists a, acc_state names A st tr = Some a.
Proof.
  induction tr as [|o tr IH]; intro st; cbn [accepts_from acc_state].
  - split; [intros _; exists st; reflexivity | reflexivity].
  - destruct (step_ok names A st o) as [st'|]; [apply IH|]. split; [discriminate | intros [a H]; discriminate H].
Qed.

Lemma acc_state_app : forall names A tr1 tr2 st,
  acc_state names A st (tr1 ++ tr2)
  = match acc_state names A st tr1 with Some s => acc_state names A s tr2 | None => None end.
Proof.
  induction tr1 as [|o tr1 IH]; intros tr2 st; cbn [app acc_state]; [reflexivity|].
  destruct (step_ok names A st o) as [st'|]; [apply IH | reflexivity].
Qed.

Lemma acc_state_snoc : forall names A tr o st a a',
  acc_state names A st tr = Some a -> step_ok names A a o = Some a' ->
  acc_state names A st (tr ++ [o]) = Some a'.
Proof. intros names A tr o st a a' H1 H2. rewrite acc_state_app, H1. cbn [acc_state]. rewrite H2. reflexivity. Qed.

Lemma acc_state_snoc_inv : forall names A tr o st a',
  acc_state names A st (tr ++ [o]) = Some a' ->
  exists a, acc_state names A st tr = Some a /\ step_ok names A a o = Some a'.
Proof.
  intros names A tr o st a' H. rewrite acc_state_app in H.
  destruct (acc_state names A st tr) as [a|]; [|discriminate]. exists a. split; [reflexivity|].
  cbn [acc_state] in H. destruct (step_ok names A a o) as [s|]; [exact H | discriminate].
Qed.

(* a step whose local facts hold (step_inv) and whose position is right is accepted, and we know the state *)
Lemma step_ok_intro : forall names A a o f n,
  lookup_flow A (os_flow o) = Some f -> lookup_node f (os_node o) = Some n ->
  step_inv names A o -> position_ok A a f o = true ->
  step_ok names A a o
  = Some ((os_run o, {| st_flow := os_flow o; st_last := os_node o; st_next := exit_dest n (os_exit o) |}) :: a).
Proof.
  intros names A a o f n Hf Hn [f0 [n0 [Hf0 [Hn0 [Hs [Ht [He _]]]]]]] Hp.
  rewrite Hf in Hf0. inversion Hf0; subst f0. rewrite Hn in Hn0. inversion Hn0; subst n0.
  unfold step_ok. rewrite Hf, Hn, Hp, Hs, Ht, He. reflexivity.
Qed.

Lemma step_ok_position : forall names A a o a' f,
  step_ok names A a o = Some a' -> lookup_flow A (os_flow o) = Some f -> position_ok A a f o = true.
Proof.
  intros names A a o a' f H Hf. unfold step_ok in H. rewrite Hf in H.
  destruct (lookup_node f (os_node o)) as [n|]; [|discriminate].
  destruct (position_ok A a f o); [reflexivity|]. cbn [andb] in H. discriminate H.
Qed.

Lemma route_step_fields : forall n o c r o', route_step n o c r = Some o' ->
  os_run o' = os_run o /\ os_parent o' = os_parent o /\ os_flow o' = os_flow o /\ os_node o' = os_node o.
Proof.
  intros n o c r o' H. unfold route_step in H.
  destruct (n_router n) as [rt|].
  - destruct c as [cid|]; [|discriminate].
    destruct (find (fun c0 => N.eqb (c_id c0) cid) (rt_categories rt)); [|discriminate].
    inversion H; subst o'. cbn. repeat split.
  - destruct (n_exits n); inversion H; subst o'; cbn; repeat split.
Qed.

Lemma upd_last : forall (X : Type) (pre : list X) (x y : X), upd (pre ++ [x])%list (List.length pre) y = (pre ++ [y])%list.
Proof.
  intros X pre x y. unfold upd. rewrite firstn_app, firstn_all, Nat.sub_diag. cbn [firstn]. rewrite app_nil_r.
  replace (S (List.length pre)) with (List.length (pre ++ [x])%list) by (rewrite app_length; cbn; lia).
  rewrite skipn_all. reflexivity.
Qed.

Lemma nth_error_last : forall (X : Type) (pre : list X) (x : X), nth_error (pre ++ [x])%list (List.length pre) = Some x.
Proof. intros X pre x. rewrite nth_error_app2 by lia. rewrite Nat.sub_diag. reflexivity. Qed.

Section Accepts.
  Variable names : list named.
  Variable A : list flow.
  Variable pick : N -> N -> nat -> option N.
  Variable act : N -> N -> nat -> nat -> act_outcome.
  Variable touch : N -> N -> nat -> aref -> bool.
  Variable msg_trigger : bool.
  Hypothesis Hno : no_enter_flow A = true.

  Lemma act_pushed_none : forall fid nid t acts i acc,
    forallb action_not_enter_flow acts = true -> act_pushed A act fid nid t i acts acc = acc.
  Proof.
    induction acts as [|a acts IH]; intros i acc H; [reflexivity|]. cbn [forallb] in H.
    apply andb_true_iff in H. destruct H as [Ha Hr]. cbn [act_pushed].
    unfold action_not_enter_flow in Ha. destruct (a_behav a); try discriminate; apply IH; exact Hr.
  Qed.

  Lemma node_no_push : forall fid f nid n t,
    lookup_flow A fid = Some f -> lookup_node f nid = Some n ->
    act_pushed A act fid nid t 0 (n_actions n) None = None.
  Proof.
    intros fid f nid n t Hf Hn. apply act_pushed_none.
    unfold no_enter_flow in Hno. rewrite forallb_forall in Hno. specialize (Hno f (lookup_flow_In _ _ _ Hf)).
    rewrite forallb_forall in Hno. apply Hno. apply lookup_node_In with (id := nid). exact Hn.
  Qed.

  (* the single run of the session *)
  Definition one_run (st : sess) (fid : N) : Prop :=
    exists rr, s_runs st = [rr] /\ r_flow rr = fid /\ r_parent rr = None.

  Definition steps_of_run0 (fid : N) (steps : list ostep) : Prop :=
    Forall (fun o => os_run o = 0 /\ os_parent o = None /\ os_flow o = fid) steps.

  (* the acceptor's state [a] knows where run 0 goes next *)
  Definition link (a : state) (fid : N) (dest : option N) : Prop :=
    match a with
    | [] => exists f, lookup_flow A fid = Some f /\ dest = first_node f
    | _ => exists rs, lookup_run a 0 = Some rs /\ st_flow rs = fid /\ st_next rs = dest
    end.

  Definition wait_is_last (st : sess) : Prop :=
    match s_wait st with
    | Some idx => exists pre o, s_steps st = (pre ++ [o])%list /\ idx = List.length pre
    | None => True
    end.

  (* what holds of a session between engine calls *)
  Definition good (st : sess) (fid : N) : Prop :=
    Forall (step_inv names A) (s_steps st) /\ one_run st fid /\ steps_of_run0 fid (s_steps st)
    /\ (exists a, acc_state names A [] (s_steps st) = Some a) /\ wait_is_last st.

  Lemma position_from_link : forall a fid dest_node f o,
    link a fid (Some dest_node) -> lookup_flow A fid = Some f ->
    os_run o = 0 -> os_parent o = None -> os_flow o = fid -> os_node o = dest_node ->
    position_ok A a f o = true.
  Proof.
    intros a fid nid f o Hl Hf Hr Hp Hfl Hnode. unfold position_ok. rewrite Hr.
    destruct a as [|e a'].
    - cbn [lookup_run]. destruct Hl as [f0 [Hf0 Hd]]. rewrite Hf in Hf0. inversion Hf0; subst f0.
      unfold first_node in Hd. destruct (f_nodes f) as [|n0 ns]; [discriminate|]. inversion Hd as [Hd'].
      rewrite Hnode, Hd', N.eqb_refl, Hp. reflexivity.
    - destruct Hl as [rs [Hrs [Hfid Hnext]]]. rewrite Hrs, Hfid, Hfl, N.eqb_refl, Hnext, Hnode. cbn. apply N.eqb_refl.
  Qed.

  Lemma link_after : forall a o n fid,
    os_run o = 0 -> os_flow o = fid ->
    link ((os_run o, {| st_flow := os_flow o; st_last := os_node o; st_next := exit_dest n (os_exit o) |}) :: a)
         fid (exit_dest n (os_exit o)).
  Proof.
    intros a o n fid Hr Hf. cbn [link]. eexists. split; [cbn [lookup_run]; rewrite Hr; cbn; reflexivity|].
    cbn. split; [exact Hf | reflexivity].
  Qed.

  Lemma go_good : forall fuel st dest fid a,
    Forall (step_inv names A) (s_steps st) -> one_run st fid -> steps_of_run0 fid (s_steps st) ->
    acc_state names A [] (s_steps st) = Some a -> link a fid dest -> s_wait st = None ->
    good (go names A pick act touch msg_trigger fuel st 0 dest) fid.
  Proof.
    induction fuel as [|fuel IH]; intros st dest fid a Hinv Hrun Hsteps Hacc Hlink Hwait.
    - cbn [go]. repeat split; try assumption. exists a; exact Hacc. unfold wait_is_last. rewrite Hwait. exact I.
    - assert (Hgood0 : good st fid).
      { repeat split; try assumption. exists a; exact Hacc. unfold wait_is_last. rewrite Hwait. exact I. }
      destruct Hrun as [rr [Hruns [Hrf Hrp]]]. cbn [go]. rewrite Hruns. cbn [nth_error].
      destruct dest as [nid|].
      + rewrite Hrf.
        destruct (lookup_flow A fid) as [f|] eqn:Ef; [|exact Hgood0].
        destruct (lookup_node f nid) as [n|] eqn:En; [|exact Hgood0].
        rewrite (node_no_push fid f nid n _ Ef En). rewrite Hrp. cbn [opt_nat_to_N].
        set (idx := List.length (s_steps st)).
        pose proof (new_step_inv names A act touch (N.of_nat 0) None fid nid idx f n Ef En) as Hnew.
        set (o := {| os_run := N.of_nat 0; os_parent := None; os_flow := fid; os_node := nid;
                     os_saved := act_saves act fid nid idx 0 (n_actions n);
                     os_touched := filter (touch fid nid idx) (node_asset_refs n ++ node_implicit_refs names n);
                     os_exit := None; os_resumed := false |}) in *.
        assert (Hrun1 : forall steps w, one_run {| s_runs := set_last [rr] 0 idx; s_steps := steps; s_wait := w |} fid).
        { intros steps w. unfold set_last. cbn [nth_error]. unfold upd. cbn [firstn skipn app].
          eexists. split; [reflexivity|]. cbn. split; assumption. }
        assert (Hpos : position_ok A a f o = true).
        { apply position_from_link with (fid := fid) (dest_node := nid); try reflexivity; assumption. }
        assert (Hok : step_ok names A a o
                      = Some ((os_run o, {| st_flow := os_flow o; st_last := os_node o; st_next := exit_dest n (os_exit o) |}) :: a)).
        { apply step_ok_intro with (f := f); assumption. }
        assert (Hsteps_o : steps_of_run0 fid (s_steps st ++ [o])%list).
        { apply Forall_app. split; [exact Hsteps|]. constructor; [|constructor]. cbn. repeat split. }
        destruct (node_has_wait n && negb (msg_trigger && Nat.eqb idx 0)) eqn:Ew.
        * (* the run waits *)
          unfold good. cbn [s_steps s_wait s_runs]. split; [apply Forall_snoc; assumption|].
          split; [apply Hrun1|]. split; [exact Hsteps_o|]. split.
          -- eexists. apply acc_state_snoc with (a := a); [exact Hacc | exact Hok].
          -- unfold wait_is_last. cbn [s_wait s_steps]. exists (s_steps st), o. split; reflexivity.
        * destruct (route_step n o (pick fid nid idx) false) as [o'|] eqn:Er.
          -- (* routed: go on *)
             pose proof (route_emitted names A o n f (pick fid nid idx) false o' Hnew eq_refl Ef En eq_refl Er) as Hinv'.
             destruct (route_step_fields _ _ _ _ _ Er) as [Fr [Fp [Ff Fn]]].
             assert (Hpos' : position_ok A a f o' = true).
             { apply position_from_link with (fid := fid) (dest_node := nid);
                 [exact Hlink | exact Ef | rewrite Fr; reflexivity | rewrite Fp; reflexivity
                 | rewrite Ff; reflexivity | rewrite Fn; reflexivity]. }
             assert (Hok' : step_ok names A a o'
                      = Some ((os_run o', {| st_flow := os_flow o'; st_last := os_node o'; st_next := exit_dest n (os_exit o') |}) :: a)).
             { apply step_ok_intro with (f := f);
                 [rewrite Ff; exact Ef | rewrite Fn; exact En | exact Hinv' | exact Hpos']. }
             eapply IH.
             ++ cbn [s_steps]. apply Forall_snoc; assumption.
             ++ apply Hrun1.
             ++ cbn [s_steps]. apply Forall_app. split; [exact Hsteps|]. constructor; [|constructor].
                rewrite Fr, Fp, Ff. cbn. repeat split.
             ++ cbn [s_steps]. apply acc_state_snoc with (a := a); [exact Hacc | exact Hok'].
             ++ apply link_after; [rewrite Fr; reflexivity | rewrite Ff; reflexivity].
             ++ cbn [s_wait]. exact Hwait.
          -- (* the router failed to pick a category *)
             unfold good. cbn [s_steps s_wait s_runs]. split; [apply Forall_snoc; assumption|].
             split; [apply Hrun1|]. split; [exact Hsteps_o|]. split.
             ++ eexists. apply acc_state_snoc with (a := a); [exact Hacc | exact Hok].
             ++ unfold wait_is_last. cbn [s_wait]. rewrite Hwait. exact I.
      + (* the run is complete and has no parent *)
        rewrite Hrp. exact Hgood0.
  Qed.

  Lemma resume_good : forall fuel st fid timeout,
    good st fid -> good (resume names A pick act touch msg_trigger fuel st timeout) fid.
  Proof.
    intros fuel st fid timeout Hg. pose proof Hg as [Hinv [Hrun [Hsteps [[a Hacc] Hw]]]].
    unfold resume. unfold wait_is_last in Hw.
    destruct (s_wait st) as [idx|] eqn:Ewait; [|exact Hg].
    destruct Hw as [pre [o [Hst Hidx]]]. subst idx. rewrite Hst. rewrite nth_error_last.
    destruct (os_exit o) as [e|] eqn:Eex; [exact Hg|].
    destruct (lookup_flow A (os_flow o)) as [f|] eqn:Ef; [|exact Hg].
    destruct (lookup_node f (os_node o)) as [n|] eqn:En; [|exact Hg].
    destruct (n_router n) as [rt|] eqn:Ert; [|exact Hg].
    destruct (rt_wait rt) as [tmo|] eqn:Ewt; [|exact Hg].
    destruct (if timeout then tmo else Some 0); [|exact Hg].
    rewrite Hst in Hinv, Hsteps, Hacc.
    apply Forall_app in Hinv. destruct Hinv as [Hinv_pre Hinv_o]. inversion Hinv_o as [|? ? Ho _]; subst.
    apply Forall_app in Hsteps. destruct Hsteps as [Hsteps_pre Hsteps_o]. inversion Hsteps_o as [|? ? Hoo _]; subst. destruct Hoo as [Hor [Hop Hof]].
    destruct (acc_state_snoc_inv _ _ _ _ _ _ Hacc) as [apre [Hacc_pre Hok_o]].
    match goal with |- context[route_step n o ?c true] => destruct (route_step n o c true) as [o'|] eqn:Er end.
    - (* routed: go on from the exit *)
      rewrite upd_last.
      assert (Hhw : negb true || node_has_wait n = true) by (unfold node_has_wait; rewrite Ert, Ewt; reflexivity).
      match type of Er with route_step n o ?c true = _ =>
        pose proof (route_emitted names A o n f c true o' Ho Eex Ef En Hhw Er) as Hinv' end.
      destruct (route_step_fields _ _ _ _ _ Er) as [Fr [Fp [Ff Fn]]].
      pose proof (step_ok_position _ _ _ _ _ _ Hok_o Ef) as Hpos.
      assert (Hpos' : position_ok A apre f o' = true).
      { unfold position_ok in *. rewrite Fr, Ff, Fn, Fp. exact Hpos. }
      assert (Hok' : step_ok names A apre o'
               = Some ((os_run o', {| st_flow := os_flow o'; st_last := os_node o'; st_next := exit_dest n (os_exit o') |}) :: apre)).
      { apply step_ok_intro with (f := f);
          [rewrite Ff; exact Ef | rewrite Fn; exact En | exact Hinv' | exact Hpos']. }
      rewrite Hor. cbn [N.to_nat].
      eapply go_good.
      + cbn [s_steps]. apply Forall_snoc; assumption.
      + destruct Hrun as [rr [Hruns Hrr]]. exists rr. cbn [s_runs]. split; assumption.
      + cbn [s_steps]. apply Forall_app. split; [exact Hsteps_pre|]. constructor; [|constructor].
        rewrite Fr, Fp, Ff. repeat split; assumption.
      + cbn [s_steps]. apply acc_state_snoc with (a := apre); [exact Hacc_pre | exact Hok'].
      + apply link_after; [rewrite Fr; exact Hor | rewrite Ff; exact Hof].
      + reflexivity.
    - (* the router failed: the session stops, nothing is waiting any more *)
      unfold good. cbn [s_steps s_runs s_wait]. rewrite <- Hst.
      destruct Hg as [G1 [G2 [G3 [G4 _]]]]. repeat split; assumption.
  Qed.

  Lemma start_good : forall fuel fid f, lookup_flow A fid = Some f ->
    good (start names A pick act touch msg_trigger fuel fid) fid.
  Proof.
    intros fuel fid f Ef. unfold start. rewrite Ef.
    eapply go_good with (a := []).
    - constructor.
    - eexists. cbn [s_runs]. split; [reflexivity|]. cbn. split; reflexivity.
    - constructor.
    - reflexivity.
    - cbn [link]. exists f. split; [exact Ef | reflexivity].
    - reflexivity.
  Qed.

  Lemma fold_resume_good : forall fuel fid history st,
    good st fid -> good (fold_left (resume names A pick act touch msg_trigger fuel) history st) fid.
  Proof.
    induction history as [|k history IH]; intros st H; [exact H|]. cbn [fold_left]. apply IH. apply resume_good. exact H.
  Qed.

  Lemma resume_not_waiting : forall fuel st timeout,
    s_wait st = None -> resume names A pick act touch msg_trigger fuel st timeout = st.
  Proof. intros fuel st timeout H. unfold resume. rewrite H. reflexivity. Qed.

  Lemma fold_resume_not_waiting : forall fuel history st,
    s_wait st = None -> fold_left (resume names A pick act touch msg_trigger fuel) history st = st.
  Proof.
    induction history as [|k history IH]; intros st H; [reflexivity|]. cbn [fold_left].
    rewrite resume_not_waiting by exact H. apply IH. exact H.
  Qed.

  Theorem exec_accepted : forall fuel fid history,
    accepts names A (exec names A pick act touch msg_trigger fuel fid history) = true.
  Proof.
    intros fuel fid history. unfold exec, accepts.
    destruct (lookup_flow A fid) as [f|] eqn:Ef.
    - destruct (fold_resume_good fuel fid history _ (start_good fuel fid f Ef)) as [_ [_ [_ [[a Ha] _]]]].
      apply accepts_from_acc. exists a. exact Ha.
    - unfold start. rewrite Ef. rewrite fold_resume_not_waiting by reflexivity. reflexivity.
  Qed.
End Accepts.
