(* EngineRefs.v — C01 clause 5, first half: every event a run records names (when it names one) a step of
   that run: its step reference is (this run, a position inside this run's path). *)

From Coq Require Import List NArith ZArith Bool Lia.
From Verif Require Import model.Lang model.Engine model.EngineCorr proofs.EngineProofs proofs.EngineInv proofs.EngineNoErr proofs.EnginePaths.
Import ListNotations.
Open Scope N_scope.

(* lengths of the paths of the runs *)
Definition plens (x : st) : list nat := map (@length step) (pth x).

(* a step reference that run ri may use *)
Definition sr_ok (pl : list nat) (ri : nat) (sr : option stepref) : Prop :=
  sr = None \/ exists pos len, sr = Some (ri, pos) /\ nth_error pl ri = Some len /\ (pos < len)%nat.

Definition run_refs_ok (i : nat) (r : run) : Prop :=
  forall e, In e (r_events r) -> ev_step e = None \/ exists pos, ev_step e = Some (i, pos) /\ (pos < length (r_path r))%nat.

Definition refs_ok (s : session) : Prop := forall i r, nth_error (s_runs s) i = Some r -> run_refs_ok i r.

Lemma nth_error_plens : forall x i, nth_error (plens x) i = option_map (fun r => length (r_path r)) (get_run (session_ x) i).
Proof.
  intros. unfold plens. rewrite nth_error_map, nth_error_pth. destruct (get_run (session_ x) i); reflexivity.
Qed.

Lemma refs_ok_upd : forall x k g,
  refs_ok (session_ x) -> (forall r, r_events (g r) = r_events r) -> (forall r, (length (r_path r) <= length (r_path (g r)))%nat) ->
  refs_ok (session_ (with_session x (fun s => upd_run s k g))).
Proof.
  intros x k g H He Hp i r Hi. simpl in Hi. unfold upd_run in Hi; simpl in Hi.
  destruct (Nat.eq_dec k i) as [->|Hne].
  - rewrite nth_error_update_nth_eq in Hi. destruct (nth_error (s_runs (session_ x)) i) as [r0|] eqn:E; inversion Hi; subst.
    intros e Hin. rewrite He in Hin. destruct (H _ _ E e Hin) as [A|(pos & A & B)]; [left; auto|right].
    exists pos. split; auto. specialize (Hp r0). lia.
  - rewrite nth_error_update_nth_neq in Hi by auto. apply (H _ _ Hi).
Qed.

Lemma refs_ok_log_event : forall x ri sr k,
  refs_ok (session_ x) -> sr_ok (plens x) ri sr -> refs_ok (session_ (log_event x ri sr k)).
Proof.
  intros x ri sr k H Hsr i r Hi. unfold log_event in Hi; simpl in Hi. unfold upd_run in Hi; simpl in Hi.
  destruct (Nat.eq_dec ri i) as [->|Hne].
  - rewrite nth_error_update_nth_eq in Hi. destruct (nth_error (s_runs (session_ x)) i) as [r0|] eqn:E; inversion Hi; subst.
    intros e Hin. simpl in Hin. apply in_app_or in Hin. destruct Hin as [Hin|[<-|[]]].
    + apply (H _ _ E e Hin).
    + simpl. destruct Hsr as [->|(pos & len & -> & Hl & Hlt)]; [left; reflexivity|right].
      exists pos. split; auto. rewrite nth_error_plens in Hl. unfold get_run in Hl. rewrite E in Hl. simpl in Hl. inversion Hl. lia.
  - rewrite nth_error_update_nth_neq in Hi by auto. apply (H _ _ Hi).
Qed.

Lemma plens_upd : forall x k g, (forall r, length (r_path (g r)) = length (r_path r)) ->
  plens (with_session x (fun s => upd_run s k g)) = plens x.
Proof.
  intros. unfold plens, pth, upd_run; simpl. rewrite !map_map.
  rewrite (update_nth_map _ _ (fun r => length (r_path r)) g (fun z => z)) by auto. apply update_nth_id; auto.
Qed.

Lemma plens_log_event : forall x ri sr k, plens (log_event x ri sr k) = plens x.
Proof. intros. unfold plens. rewrite pth_log_event. reflexivity. Qed.

Lemma plens_fail_run : forall x ri sr c, plens (fail_run x ri sr c) = plens x.
Proof. intros. unfold plens. rewrite pth_fail_run. reflexivity. Qed.

Lemma refs_ok_fail_run : forall x ri sr c, refs_ok (session_ x) -> sr_ok (plens x) ri sr -> refs_ok (session_ (fail_run x ri sr c)).
Proof.
  intros. unfold fail_run. apply refs_ok_log_event.
  - apply refs_ok_upd; auto.
  - rewrite plens_upd by reflexivity. assumption.
Qed.

(* ---- the helpers: references stay valid, path lengths do not change ------------------------------------------ *)

Record keeps (x x' : st) : Prop := { k_refs : refs_ok (session_ x'); k_plens : plens x' = plens x }.

Lemma save_and_log_refs : forall a x ri sr name value cat nid input x' v,
  refs_ok (session_ x) -> sr_ok (plens x) ri sr ->
  save_and_log a x ri sr name value cat nid input = Done x' v -> keeps x x'.
Proof.
  intros a x ri sr name value cat nid input x' v H Hsr. unfold save_and_log.
  destruct (trunc value _); [|discriminate]. destruct (trunc_ellipsis input _) as [kept|]; [|discriminate]. destruct (get_run (session_ x) ri).
  - destruct (save_result _ _) as [rs ch]. intros E; inversion E; subst. destruct ch.
    + split; [apply refs_ok_log_event; [apply refs_ok_upd; auto|rewrite plens_upd by reflexivity; auto]|].
      rewrite plens_log_event. apply plens_upd. reflexivity.
    + split; [apply refs_ok_upd; auto|apply plens_upd; reflexivity].
  - intros E; inversion E; subst. split; auto.
Qed.

Lemma route_to_category_refs : forall a x ri sr n rt cat m op x' v,
  refs_ok (session_ x) -> sr_ok (plens x) ri sr ->
  route_to_category a x ri sr n rt cat m op = Done x' v -> keeps x x'.
Proof.
  intros a x ri sr n rt cat m op x' v H Hsr. unfold route_to_category.
  destruct cat; [|intros E; inversion E; subst; split; auto].
  destruct (nth_error _ _); [|discriminate].
  destruct (rt_result rt); [|intros E; inversion E; subst; split; auto].
  destruct (save_and_log _ _ _ _ _ _ _ _ _) eqn:Es; try discriminate.
  intros E; inversion E; subst. eapply save_and_log_refs; eauto.
Qed.

Lemma set_step_exit_len : forall e pos r, length (r_path (set_step_exit e pos r)) = length (r_path r).
Proof. intros. unfold set_step_exit; simpl. apply update_nth_length. Qed.

Lemma pick_node_exit_refs : forall a x ri n pos it tmo x' v,
  refs_ok (session_ x) -> sr_ok (plens x) ri (Some (ri, pos)) ->
  pick_node_exit a x ri n pos it tmo = Done x' v -> keeps x x'.
Proof.
  intros a x ri n pos it tmo x' v H Hsr. unfold pick_node_exit.
  assert (Kset : forall y w, keeps x y -> keeps x (with_session y (fun s => upd_run s ri (set_step_exit w pos)))).
  { intros y w [A B]. split.
    - apply refs_ok_upd; auto. intros r. rewrite set_step_exit_len. lia.
    - rewrite plens_upd by (intros; apply set_step_exit_len). exact B. }
  assert (Kfail : forall y, keeps x y -> keeps x (fail_run y ri (Some (ri, pos)) FNoCategory)).
  { intros y [A B]. split; [apply refs_ok_fail_run; auto; rewrite B; exact Hsr|rewrite plens_fail_run; exact B]. }
  destruct (n_router n) as [rt|].
  - destruct it.
    + unfold route_timeout. destruct (rt_wait rt) as [[wt [[? ci]|]]|]; try discriminate.
      destruct (route_to_category a x ri (Some (ri, pos)) n rt (Some ci) tmo []) as [y w| |] eqn:E; try discriminate.
      pose proof (route_to_category_refs _ _ _ _ _ _ _ _ _ _ _ H Hsr E) as Hy.
      destruct w; intros E'; inversion E'; subst; auto.
    + unfold route.
      match goal with |- context [route_to_category ?A ?X ?R ?S ?N ?RT ?C ?M ?O] =>
        destruct (route_to_category A X R S N RT C M O) as [y w| |] eqn:E end; try discriminate.
      pose proof (route_to_category_refs _ _ _ _ _ _ _ _ _ _ _ H Hsr E) as Hy.
      destruct w; intros E'; inversion E'; subst; auto.
  - destruct (n_exits n); intros E; inversion E; subst; apply Kset; split; auto.
Qed.

Lemma find_resume_exit_refs : forall a x ri it tmo,
  refs_ok (session_ x) ->
  match find_resume_exit a x ri it tmo with
  | FreOk x' _ _ => keeps x x'
  | FreErr x' => x' = x
  | _ => True
  end.
Proof.
  intros a x ri it tmo H. unfold find_resume_exit.
  destruct (run_status (session_ x) ri) as [[]|]; try (split; auto).
  unfold path_location. destruct (get_run (session_ x) ri) as [r|] eqn:Er; [|reflexivity].
  destruct (r_path r) as [|stp0 rest] eqn:Ep; [reflexivity|].
  destruct (nth_error (stp0 :: rest) (Nat.pred (length (stp0 :: rest)))) as [stp|]; [|reflexivity].
  destruct (get_flow a (r_flow r)) as [f|]; [|reflexivity].
  destruct (get_node f (st_node stp)) as [n|]; [|reflexivity].
  destruct (pick_node_exit a x ri n _ it tmo) as [y [e' op']| |] eqn:Epk; auto.
  - eapply pick_node_exit_refs; [exact H| |exact Epk].
    right. exists (Nat.pred (length (stp0 :: rest))), (length (stp0 :: rest)).
    split; [reflexivity|]. split; [rewrite nth_error_plens, Er; simpl; rewrite Ep; reflexivity|simpl; lia].
  - eapply pick_node_exit_goerr; eauto.
Qed.

Lemma exec_actions_refs : forall a acts x ri pos n x' b,
  refs_ok (session_ x) -> sr_ok (plens x) ri (Some (ri, pos)) ->
  exec_actions a x ri pos n acts = Done x' b -> keeps x x'.
Proof.
  induction acts as [|act acts IH]; intros x ri pos n x' b H Hsr; simpl.
  - intros E; inversion E; subst. split; auto.
  - destruct (exec_action a x ri pos n act) as [y v| |] eqn:E; try discriminate.
    assert (Hy : keeps x y).
    { revert E. unfold exec_action. destruct act.
      - destruct (trunc_ellipsis _ _); [|discriminate]. intros E; inversion E; subst.
        split; [apply refs_ok_log_event; auto|apply plens_log_event].
      - destruct (trunc_ellipsis _ _); [|discriminate]. apply save_and_log_refs; auto.
      - destruct (get_flow a flow); [destruct (negb _)|]; intros E; inversion E; subst.
        + change (keeps x (fail_run x ri (Some (ri, pos)) FEnterFlowType)). split; [apply refs_ok_fail_run; auto|apply plens_fail_run].
        + split; [apply refs_ok_log_event; auto|rewrite plens_log_event; reflexivity].
        + change (keeps x (fail_run x ri (Some (ri, pos)) FEnterMissingFlow)). split; [apply refs_ok_fail_run; auto|apply plens_fail_run]. }
    destruct Hy as [A B].
    assert (Hsr' : sr_ok (plens y) ri (Some (ri, pos))) by (rewrite B; exact Hsr).
    destruct (run_status (session_ y) ri) as [[]|];
      try (intros E'; destruct (IH _ _ _ _ _ _ A Hsr' E') as [A' B']; split; [exact A'|congruence]).
    intros E'; inversion E'; subst. split; [exact A|exact B].
Qed.

Lemma plens_add_step : forall x ri stp,
  plens (with_session x (fun s => upd_run s ri (run_add_step stp))) = update_nth (plens x) ri S.
Proof.
  intros. unfold plens, pth, upd_run; simpl. rewrite !map_map.
  apply (update_nth_map _ _ (fun r => length (r_path r)) (run_add_step stp) S).
  intros r. simpl. rewrite app_length. simpl. lia.
Qed.

(* visitNode: one more step in run ri; the references it used point at that step *)
Lemma visit_node_refs : forall a x ri n wt x' pos e op,
  refs_ok (session_ x) -> visit_node a x ri n wt = Done x' (pos, e, op) ->
  refs_ok (session_ x') /\ plens x' = update_nth (plens x) ri S /\ sr_ok (plens x') ri (Some (ri, pos)).
Proof.
  intros a x ri n wt x' pos e op H. unfold visit_node.
  destruct (get_run (session_ x) ri) as [r0|] eqn:Er; [|discriminate].
  set (x1 := with_session x (fun s => upd_run s ri (run_add_step {| st_node := n_id n; st_exit := None |}))).
  assert (H1 : refs_ok (session_ x1) /\ plens x1 = update_nth (plens x) ri S).
  { split; [|apply plens_add_step]. apply refs_ok_upd; auto. intros r; simpl. rewrite app_length. lia. }
  destruct H1 as [R1 P1].
  assert (Hsr1 : sr_ok (plens x1) ri (Some (ri, length (r_path r0)))).
  { right. exists (length (r_path r0)), (S (length (r_path r0))). split; [reflexivity|]. split; [|lia].
    rewrite P1, nth_error_update_nth_eq, nth_error_plens, Er. reflexivity. }
  match goal with |- context [exec_actions a ?X ri ?P n ?A] => set (x2 := X) end.
  assert (H2 : refs_ok (session_ x2) /\ plens x2 = plens x1).
  { unfold x2. destruct wt; [destruct (s_trigger (session_ x1))|]; auto.
    split; [|rewrite plens_log_event; reflexivity].
    apply refs_ok_log_event; [exact R1|exact Hsr1]. }
  destruct H2 as [R2 P2].
  destruct (exec_actions a x2 ri (length (r_path r0)) n (n_actions n)) as [x3 b| |] eqn:Ea; try discriminate.
  destruct (exec_actions_refs _ _ _ _ _ _ _ _ R2 ltac:(rewrite P2; exact Hsr1) Ea) as [R3 P3].
  assert (Hfin : forall y, refs_ok (session_ y) -> plens y = plens x3 -> Done y (length (r_path r0), @None exit, @nil N) = Done x' (pos, e, op) ->
            refs_ok (session_ x') /\ plens x' = update_nth (plens x) ri S /\ sr_ok (plens x') ri (Some (ri, pos))).
  { intros y Ry Py E; inversion E; subst. split; [exact Ry|]. split; [congruence|]. rewrite Py, P3, P2. exact Hsr1. }
  destruct b; [apply Hfin; auto|].
  destruct (s_pushed (session_ x3)); [apply Hfin; auto|].
  match goal with |- context [match ?bw with Some _ => _ | None => match pick_node_exit ?A ?X ?R ?N ?P ?I ?T with _ => _ end end] =>
    destruct bw as [x4|] eqn:Ebw end.
  - assert (H4 : refs_ok (session_ x4) /\ plens x4 = plens x3).
    { destruct (n_router n) as [rt|]; [|discriminate]. destruct (rt_wait rt) as [[[] tmo]|]; try discriminate; try (dmatch_hyp Ebw; [discriminate|]); inversion Ebw; subst.
      all: (split; [apply refs_ok_log_event; [exact R3|rewrite P3, P2; exact Hsr1]|apply plens_log_event]). }
    destruct H4 as [R4 P4]. apply Hfin.
    + change (refs_ok (session_ (with_session x4 (fun s => upd_run s ri (run_set_status RWaiting))))). apply refs_ok_upd; auto.
    + change (plens (with_session x4 (fun s => upd_run s ri (run_set_status RWaiting))) = plens x3). rewrite plens_upd by reflexivity. exact P4.
  - destruct (pick_node_exit a x3 ri n (length (r_path r0)) false []) as [x5 [e5 op5]| |] eqn:Epk; try discriminate.
    intros E; inversion E; subst.
    destruct (pick_node_exit_refs _ _ _ _ _ _ _ _ _ R3 ltac:(rewrite P3, P2; exact Hsr1) Epk) as [R5 P5].
    split; [exact R5|]. split; [congruence|]. rewrite P5, P3, P2. exact Hsr1.
Qed.

(* ---- the loop ------------------------------------------------------------------------------------------------ *)

Definition lstep_ok (x : st) (l : lstate) : Prop :=
  match l_cur l with Some c => sr_ok (plens x) c (l_step l) | None => l_step l = None end.

Definition iter_refs (r : iter) : Prop :=
  match r with
  | ICont x' l' => refs_ok (session_ x') /\ lstep_ok x' l'
  | IStop (ROk x') => refs_ok (session_ x')
  | IStop _ => True
  end.

Lemma path_location_sr : forall a x pi pos n, path_location a (session_ x) pi = Some (pos, n) -> sr_ok (plens x) pi (Some (pi, pos)).
Proof.
  intros a x pi pos n. unfold path_location.
  destruct (get_run (session_ x) pi) as [r|] eqn:Er; [|discriminate].
  destruct (r_path r) as [|stp0 rest] eqn:Ep; [discriminate|].
  destruct (nth_error (stp0 :: rest) (Nat.pred (length (stp0 :: rest)))); [|discriminate].
  destruct (get_flow a (r_flow r)) as [f|]; [|discriminate].
  destruct (get_node f _); [|discriminate].
  intros H; inversion H; subst. right. exists (Nat.pred (length (stp0 :: rest))), (length (stp0 :: rest)).
  split; [reflexivity|]. split; [rewrite nth_error_plens, Er; simpl; rewrite Ep; reflexivity|simpl; lia].
Qed.

Lemma refs_ok_same_runs : forall s s', s_runs s' = s_runs s -> refs_ok s -> refs_ok s'.
Proof. intros s s' E H i r Hi. rewrite E in Hi. apply (H _ _ Hi). Qed.

Lemma pick_dest_refs : forall a x l x1 l1 dest,
  refs_ok (session_ x) -> lstep_ok x l -> pick_dest a x l = (x1, l1, dest) -> refs_ok (session_ x1) /\ lstep_ok x1 l1.
Proof.
  intros a x l x1 l1 dest H Hl. unfold pick_dest.
  destruct (s_pushed (session_ x)) as [p|].
  - intros E; inversion E; subst; clear E. split.
    + intros i r Hi. simpl in Hi.
      set (rs0 := s_runs (session_ (if p_terminal p then with_session x exit_all_completed else x))) in *.
      assert (H0 : forall j r0, nth_error rs0 j = Some r0 -> run_refs_ok j r0).
      { unfold rs0. destruct (p_terminal p); [|apply H]. intros j r0 Hj. simpl in Hj. rewrite nth_error_map in Hj.
        destruct (nth_error (s_runs (session_ x)) j) as [r1|] eqn:E1; inversion Hj; subst. intros e He. simpl in *. apply (H _ _ E1 e He). }
      destruct (nth_error_snoc_inv _ _ _ _ _ Hi) as [[_ Hi']|[_ ->]]; [apply (H0 _ _ Hi')|intros e []].
    + unfold lstep_ok. simpl. left. reflexivity.
  - destruct (l_exit l) as [e|].
    + intros E.
      assert (Hx1 : session_ x1 = session_ x /\ l_cur l1 = l_cur l /\ l_step l1 = l_step l).
      { revert E. repeat dmatch; intros E; inversion E; subst; auto. }
      destruct Hx1 as (Hs & Hc & Ht). split; [rewrite Hs; exact H|].
      unfold lstep_ok, plens, pth in *. rewrite Hs, Hc, Ht. exact Hl.
    + intros E; inversion E; subst. auto.
Qed.

Lemma goto_node_refs : forall a x l c d r,
  refs_ok (session_ x) -> l_cur l = Some c -> lstep_ok x l -> goto_node a x l c d = r -> iter_refs r.
Proof.
  intros a x l c d r H Hc Hl. unfold goto_node. cbv zeta. cbn [l_trigger l_steps l_cur l_exit l_step l_node l_operand].
  unfold lstep_ok in Hl. rewrite Hc in Hl.
  destruct (l_steps l + 1 >? max_steps (a_opts a))%Z.
  { intros <-. simpl. split; [apply refs_ok_fail_run; auto|]. unfold lstep_ok. simpl. rewrite Hc, plens_fail_run. exact Hl. }
  destruct (get_run (session_ x) c) as [r0|]; [|intros <-; exact I].
  destruct (get_flow a (r_flow r0)) as [f|]; [|intros <-; exact I].
  destruct (get_node f d) as [n|]; [|intros <-; exact I].
  destruct (visit_node a x c n (l_trigger l)) as [y [[pos e] op]|y|] eqn:Ev; try (intros <-; exact I).
  destruct (visit_node_refs _ _ _ _ _ _ _ _ _ H Ev) as (Ry & Py & Sy).
  destruct (sstatus_eqb (s_status (session_ y)) SWaiting); intros <-; simpl; auto.
Qed.

Lemma finish_run_refs : forall a x l c r,
  refs_ok (session_ x) -> finish_run a x l c = r -> iter_refs r.
Proof.
  intros a x l c r H. unfold finish_run.
  set (x1 := match get_run (session_ x) c with
             | Some r => if r_exited r then x else with_session x (fun s => upd_run s c (run_exit RCompleted))
             | None => x end).
  assert (H1 : refs_ok (session_ x1)).
  { unfold x1. destruct (get_run (session_ x) c) as [r0|]; [destruct (r_exited r0)|]; auto. apply refs_ok_upd; auto. }
  cbv zeta.
  destruct (match get_run (session_ x1) c with Some r => r_parent r | None => None end) as [pi|].
  2:{ intros <-. simpl. eapply refs_ok_same_runs; [|exact H1]. reflexivity. }
  destruct (run_status (session_ x1) pi) as [[]|];
    try (intros <-; simpl; eapply refs_ok_same_runs; [|exact H1]; reflexivity).
  assert (Hpsr : sr_ok (plens x1) pi (match path_location a (session_ x1) pi with Some (pos, _) => Some (pi, pos) | None => None end)).
  { destruct (path_location a (session_ x1) pi) as [[pos n]|] eqn:Epl; [eapply path_location_sr; eauto|left; reflexivity]. }
  destruct (negb match run_status (session_ x1) c with Some RFailed => true | _ => false end).
  - destruct (run_flow_unusable a (session_ x1) pi).
    + intros <-. simpl. split; [apply refs_ok_fail_run; auto; left; reflexivity|].
      unfold lstep_ok. simpl. rewrite plens_fail_run. exact Hpsr.
    + pose proof (find_resume_exit_refs a x1 pi false [] H1) as K.
      destruct (find_resume_exit a x1 pi false []) as [y e op|y|y|]; try (intros <-; exact I).
      * destruct K as [Ry Py]. intros <-. simpl. split; [exact Ry|]. unfold lstep_ok. simpl. rewrite Py. exact Hpsr.
      * subst y. intros <-. simpl. split; [apply refs_ok_fail_run; auto; left; reflexivity|].
        unfold lstep_ok. simpl. rewrite plens_fail_run. exact Hpsr.
  - intros <-. simpl. split; [apply refs_ok_fail_run; auto|]. unfold lstep_ok. simpl. rewrite plens_fail_run. exact Hpsr.
Qed.

Lemma cuw_iter_refs : forall a x l, loop_inv x l -> refs_ok (session_ x) -> lstep_ok x l -> iter_refs (cuw_iter a x l).
Proof.
  intros a x l HL H Hl. rewrite cuw_iter_phases.
  destruct (pick_dest a x l) as [[x1 l1] dest] eqn:Epd.
  destruct (pick_dest_inv _ _ _ _ _ _ HL Epd) as (c & M & _).
  destruct (pick_dest_refs _ _ _ _ _ _ H Hl Epd) as [H1 Hl1].
  rewrite (mi_cur _ _ _ _ M). destruct dest as [d|].
  - eapply goto_node_refs; [exact H1|apply (mi_cur _ _ _ _ M)|exact Hl1|reflexivity].
  - eapply finish_run_refs; [exact H1|reflexivity].
Qed.

Lemma cuw_refs : forall a fuel x l x',
  loop_inv x l -> refs_ok (session_ x) -> lstep_ok x l -> continue_until_wait fuel a x l = ROk x' -> refs_ok (session_ x').
Proof.
  intros a fuel x l x' HL H Hl Hr.
  pose proof (cuw_induct a (fun x1 l1 => loop_inv x1 l1 /\ refs_ok (session_ x1) /\ lstep_ok x1 l1)
                (fun r => match r with ROk x2 => refs_ok (session_ x2) | _ => True end)) as P.
  specialize (P ltac:(intros x1 l1 x2 l2 (H1 & H2 & H3) E; pose proof (cuw_iter_inv a x1 l1 H1) as K;
                      pose proof (cuw_iter_refs a x1 l1 H1 H2 H3) as F; rewrite E in K, F; destruct F; auto)).
  specialize (P ltac:(intros x1 l1 r (H1 & H2 & H3) E; pose proof (cuw_iter_refs a x1 l1 H1 H2 H3) as F; rewrite E in F; destruct r; auto)).
  specialize (P I fuel x l (conj HL (conj H Hl))). rewrite Hr in P. exact P.
Qed.

(* ---- engine calls ------------------------------------------------------------------------------------------- *)

Lemma apply_resume_refs : forall x wi sr r,
  refs_ok (session_ x) -> sr_ok (plens x) wi sr -> keeps x (apply_resume x wi sr r).
Proof.
  intros x wi sr r H Hsr.
  assert (Hbase : forall y, refs_ok (session_ y) ->
            keeps y (with_session (with_session y (fun s => match run_status s wi with
                                                             | Some RWaiting => upd_run s wi (run_set_status RActive)
                                                             | _ => s end)) (fun s => set_input s None))).
  { intros y Hy. split.
    - apply (refs_ok_same_runs (session_ (with_session y (fun s => match run_status s wi with
                                                             | Some RWaiting => upd_run s wi (run_set_status RActive)
                                                             | _ => s end)))); [reflexivity|].
      simpl. destruct (run_status (session_ y) wi) as [[]|]; auto.
      change (refs_ok (session_ (with_session y (fun s => upd_run s wi (run_set_status RActive))))). apply refs_ok_upd; auto.
    - unfold plens, pth; simpl. destruct (run_status (session_ y) wi) as [[]|]; try reflexivity.
      change (plens (with_session y (fun s => upd_run s wi (run_set_status RActive))) = plens y). apply plens_upd. reflexivity. }
  destruct r; unfold apply_resume; cbv zeta.
  - destruct (Hbase x H) as [A B]. split; [|rewrite plens_log_event; exact B].
    apply refs_ok_log_event; [exact A|]. unfold plens, pth in *; simpl in *. rewrite B. exact Hsr.
  - assert (K : keeps x (log_event x wi sr EWaitTimedOut)) by (split; [apply refs_ok_log_event; auto|apply plens_log_event]).
    destruct K as [A B]. destruct (Hbase _ A) as [A' B']. split; [exact A'|congruence].
  - assert (K : keeps x (log_event (with_session x (fun s => upd_run s wi (run_exit RExpired))) wi sr ERunExpired)).
    { split; [apply refs_ok_log_event; [apply refs_ok_upd; auto|rewrite plens_upd by reflexivity; auto]|].
      rewrite plens_log_event. apply plens_upd. reflexivity. }
    destruct K as [A B]. destruct (Hbase _ A) as [A' B']. split; [exact A'|congruence].
  - assert (K : keeps x (log_event x wi sr EDialEnded)) by (split; [apply refs_ok_log_event; auto|apply plens_log_event]).
    destruct K as [A B]. destruct (Hbase _ A) as [A' B']. split; [exact A'|congruence].
Qed.

Lemma fail_session_refs : forall x wi c, refs_ok (session_ x) -> refs_ok (session_ (fail_session x wi c)).
Proof.
  intros x wi c H. unfold fail_session.
  pose proof (refs_ok_fail_run x wi None c H (or_introl eq_refl)) as K.
  intros i r Hi. cbn [session_ with_session s_runs set_status set_runs] in Hi. rewrite nth_error_map in Hi.
  destruct (nth_error (s_runs (session_ (fail_run x wi None c))) i) as [r0|] eqn:E; inversion Hi; subst.
  intros e He. assert (He' : In e (r_events r0)) by (destruct (r_status r0); exact He).
  destruct (K _ _ E e He') as [A|(pos & A & B)]; [left; auto|right]. exists pos. split; auto. destruct (r_status r0); exact B.
Qed.

Theorem start_refs : forall a t f x', start a t f = ROk x' -> refs_ok (session_ x').
Proof.
  intros a t f x'. unfold start. destruct (get_flow a f) as [fl0|]; [|discriminate].
  intros H. eapply cuw_refs; [apply loop_inv_start| | |exact H].
  - intros i r Hi. destruct i; discriminate.
  - reflexivity.
Qed.

Theorem resume_refs : forall a s r tmo x',
  post_inv s -> refs_ok s -> resume_session a s r tmo = Resumed (ROk x') -> refs_ok (session_ x').
Proof.
  intros a s r tmo x' Hpost Hs H.
  assert (H0 : refs_ok (session_ (resume_x0 s))) by (eapply refs_ok_same_runs; [|exact Hs]; reflexivity).
  assert (Hsr : forall wi pos n, path_location a s wi = Some (pos, n) -> sr_ok (plens (resume_x0 s)) wi (Some (wi, pos))).
  { intros wi pos n Hpl. apply (path_location_sr a (resume_x0 s) wi pos n). exact Hpl. }
  destruct (resume_decompose _ _ _ _ _ Hpost H) as [(y & wi & c & E & _ & _ & _ & _ & Hy)|(x2 & l & E & HL & _ & _ & _ & wi & pos & e & op & _ & Hc & He & Hfre & Hst & n & Hpl)].
  - inversion E; subst. apply fail_session_refs. destruct Hy as [->|(pos & n & Hpl & ->)]; [exact Hs|].
    apply (apply_resume_refs _ _ _ _ H0 (Hsr _ _ _ Hpl)).
  - destruct (apply_resume_refs (resume_x0 s) wi (Some (wi, pos)) r H0 (Hsr _ _ _ Hpl)) as [R1 P1].
    pose proof (find_resume_exit_refs a _ wi (is_timeout r) tmo R1) as K. rewrite Hfre in K. destruct K as [R2 P2].
    symmetry in E. eapply cuw_refs; [exact HL|exact R2| |exact E].
    unfold lstep_ok. rewrite Hc, Hst, P2, P1. apply (Hsr _ _ _ Hpl).
Qed.

Theorem reachable_refs : forall s, reachable s -> refs_ok s.
Proof.
  induction 1.
  - eapply start_refs; eauto.
  - eapply resume_refs; eauto. apply reachable_post; assumption.
Qed.
