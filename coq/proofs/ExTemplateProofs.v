(* ExTemplateProofs.v — C12, second sentence, through the whole stack of models (scanner, lexer, parser with
   visitor, fragment evaluation = model/ExTemplate.v): a quoted literal evaluates to the string it was made
   from. *)
From Coq Require Import List NArith Bool Arith Lia.
From Verif Require Import lib.Quote model.ExSyntax model.ExLexer model.ExParser model.ExScanner model.ExTemplate
  gen.GrammarE3 proofs.QuoteProofs proofs.ExScannerBound proofs.ExScannerProofs proofs.ExLexerProofs.
Import ListNotations.
Open Scope N_scope.

Definition tok (k : kind) (s : ExSyntax.text) : token := {| tk := k; tx := s |}.

(* parser + visitor on the two token lists *)
Lemma parse_text a v : text_value a = Some v -> parse_tokens [tok TEXT a] = POk (EText v).
Proof.
  intros H. unfold parse_tokens. cbn [existsb tok tk tx is_k]. change (kind_eqb TEXT TEXT) with true.
  rewrite H. cbn [andb orb]. vm_compute parse_fuel.
  cbn. unfold mk_lit. cbn [tx]. rewrite H. reflexivity.
Qed.

Lemma parse_text_amp_text a b x v w : text_value a = Some v -> text_value b = Some w ->
  parse_tokens [tok TEXT a; tok AMPERSAND x; tok TEXT b] = POk (EBin OConcat (EText v) (EText w)).
Proof.
  intros Ha Hb. unfold parse_tokens. cbn [existsb tok tk tx is_k]. change (kind_eqb TEXT TEXT) with true.
  change (kind_eqb AMPERSAND TEXT) with false.
  rewrite Ha, Hb. cbn [andb orb]. vm_compute parse_fuel.
  cbn. unfold mk_lit. cbn [tx]. rewrite Ha, Hb. reflexivity.
Qed.

Lemma text_value_quote p s : p 10 = false -> valid_codepoints s -> text_value (quote p s) = Some s.
Proof. intros H1 H2. unfold text_value. rewrite unquote_quote by assumption. reflexivity. Qed.

Lemma nulfree_esc p c : c <> 0 -> nulfree (esc p c).
Proof.
  intros Hc. destruct (esc_shape p c) as [(-> & _)|(e & t & -> & He & Ht & _)].
  - repeat constructor. exact Hc.
  - constructor; [discriminate|]. constructor.
    + unfold escape_letters in He. cbn [In] in He. unfold ExScanner.eof. lia.
    + apply Forall_forall. intros x Hx. rewrite Forall_forall in Ht. apply Ht in Hx.
      unfold hexchar in Hx. unfold ExScanner.eof. lia.
Qed.

Lemma nulfree_quote p s : nulfree s -> nulfree (quote p s).
Proof.
  intros Hs. unfold quote. apply nulfree_cons. split; [discriminate|]. apply nulfree_app. split.
  - induction Hs as [|c s Hc Hs IH]; [constructor|]. rewrite quote_body_cons. apply nulfree_app. split; [|exact IH].
    apply nulfree_esc. exact Hc.
  - repeat constructor. discriminate.
Qed.

Section Faithful.
Variable isln : N -> bool.
Variable lower : N -> N.
Variable printable : N -> bool.
Hypothesis isln_eof : isln 0 = false.          (* unicode: NUL is neither letter nor number *)
Hypothesis printable_nl : printable 10 = false. (* unicode.IsPrint('\n') = false *)

Notation Q := (quote printable).

(* the literal alone:  @("...")  *)
Theorem literal_alone ctx s : valid_codepoints s -> nulfree s ->
  template isln lower ctx ([64; 40] ++ Q s ++ [41]) = Ok (s, O).
Proof.
  intros Hv Hn. unfold template. cbn [app].
  change (64 :: 40 :: Q s ++ [41]) with (r_at :: r_lparen :: Q s ++ [r_rparen]).
  refine (eq_trans (single_expression isln lower isln_eof (expr_opt lower ctx) (map fst ctx) (Q s)
             (nulfree_quote _ _ Hn) (quoted_closed printable s printable_nl)) _).
  unfold expr_opt, eval_expression. rewrite lex_quoted.
  change {| tk := TEXT; tx := Q s |} with (tok TEXT (Q s)).
  rewrite (parse_text _ _ (text_value_quote _ _ printable_nl Hv)). reflexivity.
Qed.

(* with a neighbour:  @("..." & "...")  — provided the left value does not end in a backslash *)
Theorem literal_neighbours ctx s t : valid_codepoints s -> nulfree s -> valid_codepoints t -> nulfree t ->
  ends_bs s = false ->
  template isln lower ctx ([64; 40] ++ (Q s ++ [32; 38; 32] ++ Q t) ++ [41]) = Ok (s ++ t, O).
Proof.
  intros Hv Hn Hv' Hn' Hb. unfold template. cbn [app].
  assert (Hnf : nulfree (Q s ++ 32 :: 38 :: 32 :: Q t)).
  { apply nulfree_app. split; [apply nulfree_quote; exact Hn|].
    do 3 (apply nulfree_cons; split; [discriminate|]). apply nulfree_quote; exact Hn'. }
  assert (Hcl : closed_expr (Q s ++ [32; 38; 32] ++ Q t)).
  { apply quoted_pair_closed; [exact printable_nl|]. repeat constructor; discriminate. }
  change (64 :: 40 :: (Q s ++ 32 :: 38 :: 32 :: Q t) ++ [41])
    with (r_at :: r_lparen :: (Q s ++ 32 :: 38 :: 32 :: Q t) ++ [r_rparen]).
  refine (eq_trans (single_expression isln lower isln_eof (expr_opt lower ctx) (map fst ctx) _ Hnf Hcl) _).
  unfold expr_opt, eval_expression.
  change (Q s ++ 32 :: 38 :: 32 :: Q t) with (Q s ++ [32; 38; 32] ++ Q t).
  rewrite (lex_quoted_pair printable s t Hb).
  change (parse_tokens _) with (parse_tokens [tok TEXT (Q s); tok AMPERSAND [38]; tok TEXT (Q t)]).
  rewrite (parse_text_amp_text _ _ _ _ _ (text_value_quote _ _ printable_nl Hv) (text_value_quote _ _ printable_nl Hv')).
  reflexivity.
Qed.

End Faithful.

(* the side condition of [literal_neighbours] cannot be dropped (F10b): left value a\ , right value b.
   The TEXT rule reads the first literal, the ampersand and the opening quote of the second literal as one
   token; the expression is a syntax error, nothing is written and one
   error is collected.  (printable = ASCII graphic + space; any printable with printable 10 = false will do.) *)
Definition ascii_printable (c : N) : bool := (32 <=? c) && (c <? 127).
Definition ascii_isln (c : N) : bool :=
  ((48 <=? c) && (c <=? 57)) || ((65 <=? c) && (c <=? 90)) || ((97 <=? c) && (c <=? 122)).
Definition ascii_lower (c : N) : N := if (65 <=? c) && (c <=? 90) then c + 32 else c.

Theorem literal_neighbours_witness :
  let s := [97; 92] in let t := [98] in
  valid_codepoints s /\ nulfree s /\ valid_codepoints t /\ nulfree t /\
  template ascii_isln ascii_lower []
    ([64; 40] ++ (quote ascii_printable s ++ [32; 38; 32] ++ quote ascii_printable t) ++ [41]) = Ok ([], 1%nat).
Proof.
  cbv zeta. split; [repeat constructor|]. split; [repeat constructor; discriminate|].
  split; [repeat constructor|]. split; [repeat constructor; discriminate|]. vm_compute. reflexivity.
Qed.

(* hypotheses of the two theorems are satisfiable; the value exercises every escape class *)
Example literal_alone_witness :
  let s := [97; 34; 92; 10; 9; 7; 1; 127; 233; 0x2028; 0x1F600; 40; 41; 64; 92] in
  ascii_isln 0 = false /\ ascii_printable 10 = false /\ valid_codepoints s /\ nulfree s /\
  template ascii_isln ascii_lower [] ([64; 40] ++ quote ascii_printable s ++ [41]) = Ok (s, O).
Proof.
  cbv zeta. split; [reflexivity|]. split; [reflexivity|]. split; [repeat constructor|].
  split; [repeat constructor; discriminate|]. vm_compute. reflexivity.
Qed.

(* the full statement "for all s, t" (without the side condition) is false of the model *)
Theorem literal_neighbours_refuted :
  exists isln lower printable s t,
    isln 0 = false /\ printable 10 = false /\
    valid_codepoints s /\ nulfree s /\ valid_codepoints t /\ nulfree t /\
    template isln lower [] ([64; 40] ++ (quote printable s ++ [32; 38; 32] ++ quote printable t) ++ [41])
      <> Ok (s ++ t, O).
Proof.
  exists ascii_isln, ascii_lower, ascii_printable, [97; 92], [98].
  destruct literal_neighbours_witness as (H1 & H2 & H3 & H4 & H5).
  repeat split; try assumption. rewrite H5. discriminate.
Qed.

(* the statements in the argument order used by props/C12.v *)
Corollary body_passthrough_stmt : forall isln lower (eval_expr : ExScanner.text -> option ExScanner.text) tops t,
  isln eof = false -> isln r_dot = false -> isln r_at = false ->
  nulfree t -> no_start isln lower (Some tops) t = true ->
  template_with isln lower eval_expr tops t = Ok (unescape_at t, O).
Proof. intros isln lower ev tops t H1 H2 H3. exact (body_passthrough isln lower H1 H2 H3 ev tops t). Qed.

Corollary literal_alone_stmt : forall isln lower printable ctx s,
  isln 0 = false -> printable 10 = false ->
  valid_codepoints s -> nulfree s ->
  template isln lower ctx ([64; 40] ++ quote printable s ++ [41]) = Ok (s, O).
Proof. intros isln lower p ctx s H1 H2. exact (literal_alone isln lower p H1 H2 ctx s). Qed.

Corollary literal_neighbours_stmt : forall isln lower printable ctx s t,
  isln 0 = false -> printable 10 = false ->
  valid_codepoints s -> nulfree s -> valid_codepoints t -> nulfree t ->
  ends_bs s = false ->
  template isln lower ctx ([64; 40] ++ (quote printable s ++ [32; 38; 32] ++ quote printable t) ++ [41])
    = Ok (s ++ t, O).
Proof. intros isln lower p ctx s t H1 H2. exact (literal_neighbours isln lower p H1 H2 ctx s t). Qed.

(* ---------------------------------------------------------------------------------------------- *)
(* the literal embedded in a template: body text before it passes through, what follows is evaluated as a template
   of its own (proofs/ExEmbedded.v) *)
From Verif Require Import proofs.ExEmbedded.

Lemma expr_opt_quoted lower printable ctx s : printable 10 = false -> valid_codepoints s ->
  expr_opt lower ctx (quote printable s) = Some s.
Proof.
  intros Hnl Hv. unfold expr_opt, eval_expression. rewrite lex_quoted.
  change {| tk := TEXT; tx := quote printable s |} with (tok TEXT (quote printable s)).
  rewrite (parse_text _ _ (text_value_quote _ _ Hnl Hv)). reflexivity.
Qed.

Theorem literal_embedded_stmt : forall isln lower printable ctx b1 s b2,
  isln 0 = false -> isln r_dot = false -> isln r_at = false -> printable 10 = false ->
  valid_codepoints s -> nulfree s -> nulfree b1 -> nulfree b2 ->
  no_start isln lower (Some (map fst ctx)) b1 = true -> at_open b1 = false ->
  exists o2 n2, template isln lower ctx b2 = Ok (o2, n2) /\
    template isln lower ctx (b1 ++ [64; 40] ++ quote printable s ++ [41] ++ b2) = Ok (unescape_at b1 ++ s ++ o2, n2).
Proof.
  intros isln lower printable ctx b1 s b2 H0 Hd Ha Hnl Hv Hn Hn1 Hn2 Hns Hao.
  destruct (template_embedded isln lower H0 Hd Ha (expr_opt lower ctx) (map fst ctx) b1 (quote printable s) b2
              Hn1 (nulfree_quote _ _ Hn) Hn2 Hns Hao (quoted_closed printable s Hnl)) as (o2 & n2 & HB & HT).
  exists o2, n2. split; [exact HB|]. unfold template. rewrite (expr_opt_quoted lower printable ctx s Hnl Hv) in HT. exact HT.
Qed.

(* any closed expression in place of the literal *)
Theorem template_embedded_stmt : forall isln lower (eval_expr : ExScanner.text -> option ExScanner.text) tops b1 e b2,
  isln 0 = false -> isln r_dot = false -> isln r_at = false ->
  nulfree b1 -> nulfree e -> nulfree b2 ->
  no_start isln lower (Some tops) b1 = true -> at_open b1 = false -> closed_expr e ->
  exists o2 n2, template_with isln lower eval_expr tops b2 = Ok (o2, n2) /\
    template_with isln lower eval_expr tops (b1 ++ r_at :: r_lparen :: e ++ r_rparen :: b2) =
    Ok (unescape_at b1 ++ (match eval_expr e with Some v => v | None => [] end) ++ o2,
        match eval_expr e with Some _ => n2 | None => S n2 end).
Proof.
  intros isln lower ev tops b1 e b2 H0 Hd Ha. exact (template_embedded isln lower H0 Hd Ha ev tops b1 e b2).
Qed.

(* an expression that never closes: everything is body text, "@@" is unescaped before and after the "@(" *)
Theorem template_unterminated_stmt : forall isln lower (eval_expr : ExScanner.text -> option ExScanner.text) tops b1 e,
  isln 0 = false -> isln r_dot = false -> isln r_at = false ->
  nulfree b1 -> nulfree e ->
  no_start isln lower (Some tops) b1 = true -> at_open b1 = false -> unterminated e ->
  template_with isln lower eval_expr tops (b1 ++ r_at :: r_lparen :: e) =
  Ok (unescape_at b1 ++ r_at :: r_lparen :: unescape_at e, O).
Proof.
  intros isln lower ev tops b1 e H0 Hd Ha. exact (template_unterminated isln lower H0 Hd Ha ev tops b1 e).
Qed.

(* source-level form: no closing parenthesis anywhere after the "@(" *)
Corollary template_no_rparen_stmt : forall isln lower (eval_expr : ExScanner.text -> option ExScanner.text) tops b1 e,
  isln 0 = false -> isln r_dot = false -> isln r_at = false ->
  nulfree b1 -> nulfree e ->
  no_start isln lower (Some tops) b1 = true -> at_open b1 = false -> ~ In r_rparen e ->
  template_with isln lower eval_expr tops (b1 ++ r_at :: r_lparen :: e) =
  Ok (unescape_at b1 ++ r_at :: r_lparen :: unescape_at e, O).
Proof.
  intros isln lower ev tops b1 e H0 Hd Ha Hn1 Hne Hns Hao Hnr.
  exact (template_unterminated isln lower H0 Hd Ha ev tops b1 e Hn1 Hne Hns Hao (no_rparen_unterminated e Hnr)).
Qed.

(* the hypotheses are satisfiable and the statement says something: with allowed top level foo,
     a@@b @(1 + (2) @@ @foo.x       evaluates to      a@b @(1 + (2) @ @foo.x
   (a balanced pair of parentheses inside does not close the expression; the reference after the "@(" is not
   evaluated; both "@@" become '@') *)
Example template_unterminated_witness :
  let b1 := [97; 64; 64; 98; 32] in
  let e := [49; 32; 43; 32; 40; 50; 41; 32; 64; 64; 32; 64; 102; 111; 111; 46; 120] in
  nulfree b1 /\ nulfree e /\ no_start ascii_isln ascii_lower (Some [[102; 111; 111]]) b1 = true /\ at_open b1 = false
  /\ unterminated e /\ In r_rparen e
  /\ template_with ascii_isln ascii_lower (fun _ => None) [[102; 111; 111]] (b1 ++ r_at :: r_lparen :: e) =
     Ok ([97; 64; 98; 32; 64; 40; 49; 32; 43; 32; 40; 50; 41; 32; 64; 32; 64; 102; 111; 111; 46; 120], O).
Proof.
  cbv zeta. split; [repeat constructor; discriminate|]. split; [repeat constructor; discriminate|].
  split; [reflexivity|]. split; [reflexivity|]. split; [vm_compute; discriminate|].
  split; [cbn; tauto|]. vm_compute. reflexivity.
Qed.

(* the lexer half of "wherever the literal stands": followed by ANY text, the quoted form is one TEXT token whose value
   is s — unless s ends in a backslash and a quote occurs later (F10b) *)
From Verif Require Import proofs.ExRender.

Theorem literal_one_token_stmt : forall printable s rest,
  printable 10 = false -> valid_codepoints s -> text_follow_ok s rest = true ->
  lex_one (quote printable s ++ rest) = Some (TEXT, false, quote printable s, rest)
  /\ text_value (quote printable s) = Some s.
Proof.
  intros p s rest Hnl Hv Hf. split; [apply lex_one_text; exact Hf|apply text_value_quote; assumption].
Qed.

(* ---------------------------------------------------------------------------------------------- *)
(* sentence 3 for printer output: scanner and lexer agree on the text Expression.String() writes *)
From Verif Require Import model.ExPrinter proofs.ExRoundtrip proofs.ExTokok proofs.ExGlue proofs.ExTreeWf proofs.ExTokName proofs.ExScanPrinted.

Theorem scanner_lexer_agree_printed_stmt : forall (lower : N -> N) (printable : N -> bool) inp ts t,
  printable 10 = false -> valid_codepoints inp ->
  lex inp = LOk ts -> parse_tokens ts = POk t -> refs_ok lower t = true ->
  closed_expr (print lower printable t)
  /\ (texts_ok t = true -> lex (print lower printable t) = LOk (ptoks lower printable t)).
Proof.
  intros lower printable inp ts t Hnl Hv HL HP Hr.
  pose proof (parsed_shape inp ts t Hv HL HP) as Hs.
  pose proof (names_ok_split lower t Hr (parsed_src inp ts t Hv HL HP)) as Hn. split.
  - apply printed_closed; assumption.
  - intros Ht. apply lex_print. apply glue_free_char; assumption.
Qed.

(* ---------------------------------------------------------------------------------------------- *)
(* sentence 3 as worded (scanner and parser agree where each expression ends) is false of the model, with the inputs of
   the two known: lines (F10b).  Write Q for a quote character.  (a) In  Qa\\Q & Q)Q  followed by a closing parenthesis
   the scanner ends the expression after the second literal (closed_expr), and the parser rejects exactly that text
   (the lexer reads  Qa\\Q & Q  as one TEXT token).  (b)  Qa\\Q & Q  is accepted by lexer and parser as ONE text
   literal, and the scanner, started after the opening parenthesis, never closes it (unterminated: the template stays
   literal text). *)
Theorem scanner_parser_agree_refuted :
  (exists e, closed_expr e /\ exists ts, lex e = LOk ts /\ parse_tokens ts = PSyntax)
  /\ (exists e v, unterminated e /\ lex e = LOk [tok TEXT e] /\ parse_tokens [tok TEXT e] = POk (EText v)).
Proof.
  split.
  - exists (quote ascii_printable [97; 92] ++ [32; 38; 32] ++ quote ascii_printable [41]). split.
    + apply quoted_pair_closed; [reflexivity|]. repeat constructor; discriminate.
    + eexists. split; vm_compute; reflexivity.
  - exists [34; 97; 92; 92; 34; 32; 38; 32; 34], [97; 92; 92; 34; 32; 38; 32]. split; [vm_compute; discriminate|].
    split; vm_compute; reflexivity.
Qed.
