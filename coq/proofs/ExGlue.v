(* ExGlue.v — when is the printed text glue-free?  A characterisation by the SOURCE tree: for the trees the parser
   builds (wf_tree), glue_free holds as soon as (i) every name the printer writes is a NAME lexeme and no keyword —
   for context references that is their lower-cased form — and (ii) no text literal's value ends in a backslash.
   Everything else the printer writes (symbols, numbers after re-rendering, keywords, the separating space between
   numeric lookups) can never glue. *)
From Coq Require Import List NArith Bool Arith Lia.
From Verif Require Import lib.Quote model.ExSyntax model.ExLexer model.ExParser model.ExPrinter gen.GrammarE3
  proofs.QuoteProofs proofs.ExLexerProofs proofs.ExPrintProofs proofs.ExRoundtrip proofs.ExRender.
Import ListNotations.
Open Scope N_scope.

(* ---------------------------------------------------------------------------------------------- *)
(* items followed by a given text *)

Section Follow.
Variable printable : N -> bool.

Fixpoint items_ok_k (k : text) (l : list item) : bool :=
  match l with
  | [] => true
  | Tok t :: r => tok_ok printable t (render r ++ k) && items_ok_k k r
  | Sp :: r => next_not is_ws (render r ++ k) && match render r ++ k with [] => false | _ => true end && items_ok_k k r
  end.

Lemma iok_nil k : items_ok_k k [] = true.
Proof. reflexivity. Qed.

Lemma iok_tok k t r : items_ok_k k (Tok t :: r) = tok_ok printable t (render r ++ k) && items_ok_k k r.
Proof. reflexivity. Qed.

Lemma iok_sp k r : items_ok_k k (Sp :: r) =
  next_not is_ws (render r ++ k) && match render r ++ k with [] => false | _ => true end && items_ok_k k r.
Proof. reflexivity. Qed.

Lemma items_ok_k_nil l : items_ok_k [] l = items_ok printable l.
Proof.
  induction l as [|[t|] r IH]; [reflexivity| |]; cbn [items_ok_k items_ok]; rewrite app_nil_r, IH; reflexivity.
Qed.

Lemma items_ok_k_app k a b : items_ok_k k (a ++ b) = items_ok_k (render b ++ k) a && items_ok_k k b.
Proof.
  induction a as [|[t|] a IH]; [reflexivity| |]; cbn [app items_ok_k]; rewrite render_app, <- app_assoc, IH, andb_assoc; reflexivity.
Qed.

End Follow.

(* ---------------------------------------------------------------------------------------------- *)
(* re-rendered numbers are lexemes *)

Definition num_lexeme (l : text) : bool :=
  match split_dot l with
  | (ip, None) => all_digits ip
  | (ip, Some fp) => all_digits ip && all_digits fp
  end.

Lemma drop_zeros_digits l : forallb is_digit l = true -> forallb is_digit (drop_zeros l) = true.
Proof.
  induction l as [|c l IH]; intros H; [reflexivity|]. cbn [forallb] in H. apply andb_prop in H. destruct H as [H1 H2].
  cbn [drop_zeros]. destruct (c =? 48); [apply IH; exact H2|]. cbn [forallb]. rewrite H1, H2. reflexivity.
Qed.

Lemma int_render_digits l : forallb is_digit l = true -> all_digits (int_render l) = true.
Proof.
  intros H. unfold int_render, all_digits. pose proof (drop_zeros_digits l H) as Hd.
  destruct (drop_zeros l) as [|c r]; [reflexivity|]. rewrite Hd. reflexivity.
Qed.

Lemma forallb_rev {A} (f : A -> bool) l : forallb f (rev l) = forallb f l.
Proof.
  induction l as [|c l IH]; [reflexivity|]. cbn [rev forallb]. rewrite forallb_app, IH. cbn [forallb]. rewrite andb_true_r, andb_comm. reflexivity.
Qed.

Lemma frac_render_digits l : forallb is_digit l = true -> forallb is_digit (frac_render l) = true.
Proof.
  intros H. unfold frac_render. rewrite forallb_rev. apply drop_zeros_digits. rewrite forallb_rev. exact H.
Qed.

Lemma all_digits_forall l : all_digits l = true -> forallb is_digit l = true.
Proof. unfold all_digits. intros H. apply andb_prop in H. tauto. Qed.

Lemma digits_no_dot l : forallb is_digit l = true -> ~ In 46 l.
Proof.
  induction l as [|c l IH]; intros H; [intros []|]. cbn [forallb] in H. apply andb_prop in H. destruct H as [H1 H2].
  intros [E|E]; [subst c; discriminate|exact (IH H2 E)].
Qed.

Lemma digits_no_dotb l : all_digits l = true -> existsb (N.eqb 46) l = false.
Proof.
  intros H. apply all_digits_forall in H. destruct (existsb (N.eqb 46) l) eqn:E; [|reflexivity].
  apply existsb_exists in E. destruct E as (x & Hx & E). apply N.eqb_eq in E. subst x.
  exfalso. exact (digits_no_dot l H Hx).
Qed.

(* the rendering of a number lexeme is an INTEGER lexeme or a DECIMAL lexeme, and num_tok gives it that kind *)
Lemma num_render_lexeme l : num_lexeme l = true ->
  (all_digits (num_render l) = true /\ existsb (N.eqb 46) (num_render l) = false)
  \/ (exists ip fp, num_render l = ip ++ 46 :: fp /\ all_digits ip = true /\ all_digits fp = true
        /\ existsb (N.eqb 46) (num_render l) = true).
Proof.
  unfold num_lexeme, num_render. destruct (split_dot l) as [ip [fp|]]; intros H.
  - apply andb_prop in H. destruct H as [Hi Hf]. apply all_digits_forall in Hi. apply all_digits_forall in Hf.
    pose proof (int_render_digits ip Hi) as Hir.
    destruct (frac_render fp) as [|c fr] eqn:E.
    + left. split; [exact Hir|]. apply digits_no_dotb. exact Hir.
    + right. exists (int_render ip), (c :: fr). split; [reflexivity|]. split; [exact Hir|].
      pose proof (frac_render_digits fp Hf) as Hfr. rewrite E in Hfr. split.
      * unfold all_digits. rewrite Hfr. reflexivity.
      * rewrite existsb_app. cbn [existsb]. change (46 =? 46) with true. rewrite orb_true_r. reflexivity.
  - apply all_digits_forall in H. pose proof (int_render_digits ip H) as Hir. left. split; [exact Hir|].
    apply digits_no_dotb. exact Hir.
Qed.

(* ---------------------------------------------------------------------------------------------- *)
(* the three conditions on a tree *)

Definition atomic (e : expr) : bool :=
  match e with ECtxRef _ | EParen _ | ECall _ _ | EDot _ _ | EIndex _ _ => true | _ => false end.

Definition pname_ok (n : text) : bool := name_lexeme n && negb (is_keyword n).

(* what the parser guarantees (proofs/ExTreeWf.v): containers are atoms, number literals carry number lexemes,
   text values are valid code points, parameter lists are not empty *)
Fixpoint shape_ok (e : expr) : bool :=
  match e with
  | ECtxRef _ => true
  | EDot c _ => atomic c && shape_ok c
  | EIndex c l => atomic c && shape_ok c && shape_ok l
  | ECall f ps => atomic f && shape_ok f && forallb shape_ok ps
  | EAnon a b => match a with [] => false | _ => true end && shape_ok b
  | EBin _ a b => shape_ok a && shape_ok b
  | ENeg a => shape_ok a
  | EParen a => shape_ok a
  | EText v => forallb valid_cp v
  | ENum l => num_lexeme l
  | EBool _ => true
  | ENull => true
  end.

Section Conditions.
Variable lower : N -> N.

(* (i) every name the printer writes is a NAME lexeme and no keyword: context references after lower-casing,
   parameters and non-numeric lookups as written *)
Fixpoint names_ok (e : expr) : bool :=
  match e with
  | ECtxRef n => pname_ok (map lower n)
  | EDot c l => names_ok c && (all_digits l || pname_ok l)
  | EIndex c l => names_ok c && names_ok l
  | ECall f ps => names_ok f && forallb names_ok ps
  | EAnon a b => forallb pname_ok a && names_ok b
  | EBin _ a b => names_ok a && names_ok b
  | ENeg a => names_ok a
  | EParen a => names_ok a
  | _ => true
  end.

End Conditions.

(* (ii) no text value ends in a backslash *)
Fixpoint texts_ok (e : expr) : bool :=
  match e with
  | EDot c _ => texts_ok c
  | EIndex c l => texts_ok c && texts_ok l
  | ECall f ps => texts_ok f && forallb texts_ok ps
  | EAnon _ b => texts_ok b
  | EBin _ a b => texts_ok a && texts_ok b
  | ENeg a => texts_ok a
  | EParen a => texts_ok a
  | EText v => negb (ends_bs v)
  | _ => true
  end.

(* ---------------------------------------------------------------------------------------------- *)
(* what may follow a printed subtree *)

Definition base_follow : list N := [32; 41; 93; 44].          (* space ) ] , *)
Definition atom_follow : list N := [40; 91].                  (* ( [ *)
Definition memN (c : N) (l : list N) : bool := existsb (N.eqb c) l.

Definition int_dot (e : expr) : bool := match e with EDot _ l => all_digits l | _ => false end.

Definition follow_ok (e : expr) (k : text) : bool :=
  match k with
  | [] => true
  | ch :: _ =>
      memN ch base_follow
      || (atomic e && (memN ch atom_follow || ((ch =? 46) && negb (int_dot e && dot_digit k))))
  end.

Definition follow_chars : list N := [32; 41; 93; 44; 40; 91; 46].

Lemma follow_chars_facts :
  forallb (fun c => negb (name_char c) && negb (is_digit c)) follow_chars = true.
Proof. vm_compute. reflexivity. Qed.

Lemma follow_first e ch r : follow_ok e (ch :: r) = true -> In ch follow_chars.
Proof.
  intros H.
  assert (Hm : memN ch follow_chars = true).
  { assert (E : memN ch follow_chars = memN ch base_follow || (memN ch atom_follow || (ch =? 46))).
    { unfold memN, follow_chars, base_follow, atom_follow. cbn [existsb]. rewrite !orb_false_r, <- !orb_assoc. reflexivity. }
    rewrite E. unfold follow_ok in H.
    destruct (memN ch base_follow), (memN ch atom_follow), (ch =? 46), (atomic e); cbn in *; try discriminate; reflexivity. }
  unfold memN in Hm. apply existsb_exists in Hm. destruct Hm as (x & Hx & E). apply N.eqb_eq in E. subst x. exact Hx.
Qed.

Lemma follow_not_name e k : follow_ok e k = true -> next_not name_char k = true.
Proof.
  destruct k as [|ch r]; [reflexivity|]. intros H. apply follow_first in H.
  pose proof follow_chars_facts as F. rewrite forallb_forall in F. apply F in H. apply andb_prop in H. cbn [next_not]. tauto.
Qed.

Lemma follow_not_digit e k : follow_ok e k = true -> next_not is_digit k = true.
Proof.
  destruct k as [|ch r]; [reflexivity|]. intros H. apply follow_first in H.
  pose proof follow_chars_facts as F. rewrite forallb_forall in F. apply F in H. apply andb_prop in H. cbn [next_not]. tauto.
Qed.

(* a follower from the base set is a follower of anything *)
Lemma follow_base e ch r : memN ch base_follow = true -> follow_ok e (ch :: r) = true.
Proof. intros H. unfold follow_ok. rewrite H. reflexivity. Qed.

(* after something that is not an atom only the base set can follow, so no ".digit" *)
Lemma follow_nonatomic_nodot e k : atomic e = false -> follow_ok e k = true -> dot_digit k = false.
Proof.
  intros Ha H. destruct k as [|ch [|d r]]; try reflexivity. unfold follow_ok in H. rewrite Ha in H. cbn [andb] in H.
  rewrite orb_false_r in H. unfold memN, base_follow in H. cbn [existsb] in H.
  cbn [dot_digit]. destruct (N.eqb_spec ch 46) as [->|Hne]; [discriminate|reflexivity].
Qed.

(* ---------------------------------------------------------------------------------------------- *)
(* the first character of a printed subtree is never white space *)

Definition nonws_start (k : text) : bool := match k with [] => false | c :: _ => negb (is_ws c) end.

Lemma name_char_not_ws c : name_char c = true -> is_ws c = false.
Proof.
  intros H. destruct (is_ws c) eqn:E; [|reflexivity]. exfalso.
  assert (Hin : In c special_firsts).
  { unfold is_ws in E. apply existsb_exists in E. destruct E as (x & Hx & E). apply N.eqb_eq in E. subst x.
    cbn [In] in Hx. repeat (destruct Hx as [<- | Hx]; [vm_compute; tauto|]). contradiction. }
  pose proof special_not_name as Hs. rewrite forallb_forall in Hs. apply Hs in Hin.
  apply andb_prop in Hin. destruct Hin as [H1 _]. rewrite H in H1. discriminate.
Qed.

Lemma digit_not_ws c : is_digit c = true -> is_ws c = false.
Proof. intros H. apply name_char_not_ws, digit_name_char. exact H. Qed.

Lemma pname_start n k : pname_ok n = true -> nonws_start (n ++ k) = true.
Proof.
  unfold pname_ok, name_lexeme. intros H. apply andb_prop in H. destruct H as [H _].
  destruct n as [|c n']; [discriminate|]. apply andb_prop in H. destruct H as [H _].
  cbn [app nonws_start]. rewrite (name_char_not_ws c (name_start_char c H)). reflexivity.
Qed.

Lemma digits_start n k : all_digits n = true -> nonws_start (n ++ k) = true.
Proof.
  unfold all_digits. intros H. apply andb_prop in H. destruct H as [H Hne].
  destruct n as [|c n']; [discriminate|]. cbn [forallb] in H. apply andb_prop in H. destruct H as [H _].
  cbn [app nonws_start]. rewrite (digit_not_ws c H). reflexivity.
Qed.

Section Glue.
Variable lower : N -> N.
Variable printable : N -> bool.
Hypothesis printable_nl : printable 10 = false.

Notation pitems := (pitems lower printable).
Notation pitems_list := (pitems_list lower printable).
Notation tok_ok := (tok_ok printable).
Notation items_ok_k := (items_ok_k printable).

Lemma start_ok : forall e k, shape_ok e = true -> names_ok lower e = true ->
  nonws_start (render (pitems e) ++ k) = true.
Proof.
  induction e as [n|c l IHc|c l IHc IHl|f ps IHf IHps|a b IHb|o a b IHa IHb|a IHa|a IHa|v|l|b|] using expr_ind';
    intros k Hs Hn; cbn [shape_ok names_ok] in *.
  - cbn [ExRender.pitems render render_item T tx tokc]. rewrite app_nil_r. apply pname_start. exact Hn.
  - apply andb_prop in Hs. destruct Hs as [_ Hs]. apply andb_prop in Hn. destruct Hn as [Hn _].
    cbn [ExRender.pitems]. rewrite render_app, <- app_assoc. apply IHc; assumption.
  - apply andb_prop in Hs. destruct Hs as [Hs _]. apply andb_prop in Hs. destruct Hs as [_ Hs].
    apply andb_prop in Hn. destruct Hn as [Hn _]. cbn [ExRender.pitems]. rewrite render_app, <- app_assoc. apply IHc; assumption.
  - apply andb_prop in Hs. destruct Hs as [Hs _]. apply andb_prop in Hs. destruct Hs as [_ Hs].
    apply andb_prop in Hn. destruct Hn as [Hn _]. rewrite pitems_call, render_app, <- app_assoc. apply IHf; assumption.
  - reflexivity.
  - apply andb_prop in Hs. destruct Hs as [Hs _]. apply andb_prop in Hn. destruct Hn as [Hn _].
    cbn [ExRender.pitems]. rewrite render_app, <- app_assoc. apply IHa; assumption.
  - reflexivity.
  - reflexivity.
  - reflexivity.
  - cbn [ExRender.pitems render render_item T]. rewrite app_nil_r. destruct (num_render_lexeme l Hs) as [[H _]|(ip & fp & E & Hi & _)].
    + unfold num_tok. cbn [tx tokc]. apply digits_start. exact H.
    + unfold num_tok. cbn [tx tokc]. rewrite E, <- app_assoc. apply digits_start. exact Hi.
  - destruct b; reflexivity.
  - reflexivity.
Qed.

(* operator tokens are always followed by a space *)
Lemma op_tok_ok o r : tok_ok (op_tok o) (32 :: r) = true.
Proof. destruct o; reflexivity. Qed.

Lemma sym1_ok c k r : In (c, k) single_syms -> tok_ok (tokc k [c]) r = true.
Proof.
  intros H. unfold single_syms in H. cbn [In] in H.
  repeat (destruct H as [H|H]; [inversion H; subst; reflexivity|]). contradiction.
Qed.

Lemma sp_ok k : nonws_start k = true -> next_not is_ws k && match k with [] => false | _ => true end = true.
Proof. destruct k as [|c r]; [discriminate|]. cbn [nonws_start next_not]. intros ->. reflexivity. Qed.

Lemma name_tok_ok n k : pname_ok n = true -> next_not name_char k = true -> tok_ok (tokc NAME n) k = true.
Proof.
  unfold pname_ok, ExRender.tok_ok. cbn [tk tx tokc]. intros H Hk. apply andb_prop in H. destruct H as [H1 H2].
  rewrite H1, H2, Hk. reflexivity.
Qed.


Lemma sym2_ok a b k r : In (a, b, k) double_syms -> tok_ok (tokc k [a; b]) r = true.
Proof.
  intros H. unfold double_syms in H. cbn [In] in H.
  repeat (destruct H as [H|H]; [inversion H; subst; reflexivity|]). contradiction.
Qed.

Lemma teqb_refl a : teqb a a = true.
Proof. induction a as [|x a IH]; [reflexivity|]. cbn [teqb]. rewrite N.eqb_refl, IH. reflexivity. Qed.

Lemma is_digits_all l : is_digits l = all_digits l.
Proof.
  unfold is_digits, all_digits. destruct l as [|c r]; [reflexivity|]. rewrite andb_true_r. reflexivity.
Qed.

Lemma valid_of_forallb v : forallb valid_cp v = true -> valid_codepoints v.
Proof. intros H. apply Forall_forall. rewrite forallb_forall in H. exact H. Qed.

(* a follower of something that is not an atom is a follower of anything *)
Lemma follow_sub e e' k : atomic e = false -> follow_ok e k = true -> follow_ok e' k = true.
Proof.
  intros Ha H. destruct k as [|ch r]; [reflexivity|]. unfold follow_ok in *. rewrite Ha in H. cbn [andb] in H.
  rewrite orb_false_r in H. rewrite H. reflexivity.
Qed.

Lemma base_ok e ch r : In ch base_follow -> follow_ok e (ch :: r) = true.
Proof.
  intros H. apply follow_base. unfold memN. apply existsb_exists. exists ch. split; [exact H|apply N.eqb_refl].
Qed.

(* a space is fine before anything that starts with a non-white-space character *)
Lemma iok_sp_ok k r : nonws_start (render r ++ k) = true -> items_ok_k k r = true -> items_ok_k k (Sp :: r) = true.
Proof. intros H1 H2. rewrite iok_sp, (sp_ok _ H1), H2. reflexivity. Qed.

Lemma iok_tok_ok k t r : tok_ok t (render r ++ k) = true -> items_ok_k k r = true -> items_ok_k k (Tok t :: r) = true.
Proof. intros H1 H2. rewrite iok_tok, H1, H2. reflexivity. Qed.

(* the parameter names of an anonymous function, followed by ")" *)
Lemma names_items_ok : forall a X, forallb pname_ok a = true -> items_ok_k (41 :: X) (names_items a) = true.
Proof.
  induction a as [|n [|n2 r] IH]; intros X H; [reflexivity| |].
  - cbn [forallb] in H. apply andb_prop in H. destruct H as [H _]. cbn [names_items]. unfold T.
    apply iok_tok_ok; [|reflexivity]. apply name_tok_ok; [exact H|reflexivity].
  - pose proof H as H0. cbn [forallb] in H. apply andb_prop in H. destruct H as [H1 H2].
    change (names_items (n :: n2 :: r)) with (T (tokc NAME n) :: T COMMAt :: Sp :: names_items (n2 :: r)). unfold T.
    apply iok_tok_ok; [apply name_tok_ok; [exact H1|reflexivity]|].
    apply iok_tok_ok; [apply (sym1_ok 44 COMMA); cbn; tauto|].
    apply iok_sp_ok; [|apply IH; exact H2].
    cbn [forallb] in H2. apply andb_prop in H2. destruct H2 as [H3 _].
    destruct r as [|n3 r']; cbn [names_items render render_item T tx tokc]; rewrite <- app_assoc; apply pname_start; exact H3.
Qed.


Lemma tok1 k t : tok_ok t k = true -> items_ok_k k [Tok t] = true.
Proof. intros H. apply iok_tok_ok; [cbn [render app]; exact H|reflexivity]. Qed.

Lemma LP_ok r : tok_ok LP r = true.    Proof. apply (sym1_ok 40 LPAREN). cbn; tauto. Qed.
Lemma RP_ok r : tok_ok RP r = true.    Proof. apply (sym1_ok 41 RPAREN). cbn; tauto. Qed.
Lemma LB_ok r : tok_ok LB r = true.    Proof. apply (sym1_ok 91 LBRACK). cbn; tauto. Qed.
Lemma RB_ok r : tok_ok RB r = true.    Proof. apply (sym1_ok 93 RBRACK). cbn; tauto. Qed.
Lemma DOT_ok r : tok_ok DOTt r = true. Proof. apply (sym1_ok 46 DOT). cbn; tauto. Qed.
Lemma COMMA_ok r : tok_ok COMMAt r = true. Proof. apply (sym1_ok 44 COMMA). cbn; tauto. Qed.
Lemma MINUS_ok r : tok_ok MINUSt r = true. Proof. apply (sym1_ok 45 MINUS). cbn; tauto. Qed.
Lemma ARROW_ok r : tok_ok ARROWt r = true. Proof. apply (sym2_ok 61 62 ARROW). cbn; tauto. Qed.

(* the lookup token after a dot *)
Lemma lookup_ok c l k : (all_digits l || pname_ok l) = true -> follow_ok (EDot c l) k = true ->
  tok_ok (lookup_tok l) k = true.
Proof.
  intros Hl Hf. unfold lookup_tok. destruct (all_digits l) eqn:Ed.
  - unfold ExRender.tok_ok. cbn [tk tx tokc]. rewrite Ed, (follow_not_digit _ _ Hf). cbn [andb].
    destruct k as [|ch [|d r]]; try reflexivity. cbn [dot_digit].
    destruct (N.eqb_spec ch 46) as [->|Hne]; [|reflexivity].
    unfold follow_ok in Hf. cbn [atomic int_dot andb] in Hf. rewrite Ed in Hf. cbn [dot_digit andb] in Hf.
    change (46 =? 46) with true in Hf. cbn [andb orb memN base_follow atom_follow existsb] in Hf.
    change (46 =? 32) with false in Hf. change (46 =? 41) with false in Hf. change (46 =? 93) with false in Hf.
    change (46 =? 44) with false in Hf. change (46 =? 40) with false in Hf. change (46 =? 91) with false in Hf.
    cbn [orb] in Hf. apply negb_true_iff in Hf. cbn [andb]. rewrite Hf. reflexivity.
  - cbn [orb] in Hl. apply name_tok_ok; [exact Hl|exact (follow_not_name _ _ Hf)].
Qed.

(* text that ends in a numeric lookup *)
Lemma strip_digits_app r k : forallb digit_rune r = true -> strip_digits (r ++ 46 :: k) = 46 :: k.
Proof.
  induction r as [|c r IH]; intros H; [reflexivity|].
  cbn [forallb] in H. apply andb_prop in H. destruct H as [Hc Hr]. cbn [app strip_digits]. rewrite Hc. exact (IH Hr).
Qed.

Lemma ends_numeric_dot_digits x l : is_digits l = true -> ends_numeric (x ++ 46 :: l) = true.
Proof.
  intros H. unfold ends_numeric. rewrite rev_app_distr. cbn [rev]. rewrite <- app_assoc. cbn [app].
  unfold is_digits in H. destruct l as [|c0 l0]; [discriminate|].
  assert (Hr : forallb digit_rune (rev (c0 :: l0)) = true).
  { rewrite forallb_forall in *. intros y Hy. apply in_rev in Hy. exact (H y Hy). }
  destruct (rev (c0 :: l0)) as [|c r'] eqn:E.
  { apply (f_equal (@length _)) in E. rewrite rev_length in E. discriminate. }
  cbn [forallb] in Hr. apply andb_prop in Hr. destruct Hr as [Hc Hr'].
  cbn [app]. rewrite Hc, (strip_digits_app r' _ Hr'). reflexivity.
Qed.

Lemma print_dot_ends_numeric c l' : is_digits l' = true -> ends_numeric (print lower printable (EDot c l')) = true.
Proof.
  intros H. cbn [print]. unfold dot_sep. destruct (is_digits l' && ends_numeric (print lower printable c)).
  - change (print lower printable c ++ [32; 46] ++ l') with (print lower printable c ++ [32] ++ 46 :: l').
    rewrite app_assoc. apply ends_numeric_dot_digits. exact H.
  - apply ends_numeric_dot_digits. exact H.
Qed.

(* the parameters of a call, followed by ")" *)
Lemma params_ok : forall ps X,
  Forall (fun e => forall k, shape_ok e = true -> names_ok lower e = true -> texts_ok e = true ->
                    follow_ok e k = true -> items_ok_k k (pitems e) = true) ps ->
  forallb shape_ok ps = true -> forallb (names_ok lower) ps = true -> forallb texts_ok ps = true ->
  items_ok_k (41 :: X) (pitems_list ps) = true.
Proof.
  induction ps as [|x [|y r] IH]; intros X HF Hs Hn Ht; [reflexivity| |].
  - inversion HF as [|? ? Hx _]; subst. cbn [forallb] in *. rewrite andb_true_r in *.
    cbn [ExRender.pitems_list]. apply Hx; try assumption. apply base_ok. cbn; tauto.
  - inversion HF as [|? ? Hx HF']; subst.
    pose proof Hs as Hs0. pose proof Hn as Hn0. pose proof Ht as Ht0.
    cbn [forallb] in Hs, Hn, Ht. apply andb_prop in Hs. apply andb_prop in Hn. apply andb_prop in Ht.
    destruct Hs as [Hs1 Hs2]. destruct Hn as [Hn1 Hn2]. destruct Ht as [Ht1 Ht2].
    change (pitems_list (x :: y :: r)) with (pitems x ++ T COMMAt :: Sp :: pitems_list (y :: r)). unfold T.
    rewrite items_ok_k_app. apply andb_true_intro. split.
    + apply Hx; try assumption. cbn [render render_item COMMAt tokc tx app]. apply base_ok. cbn; tauto.
    + apply iok_tok_ok; [apply COMMA_ok|]. apply iok_sp_ok; [|apply IH; assumption].
      cbn [forallb] in Hs2, Hn2. apply andb_prop in Hs2. apply andb_prop in Hn2. destruct Hs2 as [Hy1 _]. destruct Hn2 as [Hy2 _].
      destruct r as [|z r'].
      * cbn [ExRender.pitems_list]. apply start_ok; assumption.
      * change (pitems_list (y :: z :: r')) with (pitems y ++ T COMMAt :: Sp :: pitems_list (z :: r')).
        rewrite render_app, <- app_assoc. apply start_ok; assumption.
Qed.

(* the characterisation: shape (guaranteed by the parser), names, texts => every printed token is followed by
   something that cannot extend it *)
Theorem glue_main : forall e k, shape_ok e = true -> names_ok lower e = true -> texts_ok e = true ->
  follow_ok e k = true -> items_ok_k k (pitems e) = true.
Proof.
  induction e as [n|c l IHc|c l IHc IHl|f ps IHf IHps|a b IHb|o a b IHa IHb|a IHa|a IHa|v|l|b|] using expr_ind';
    intros k Hs Hn Ht Hf; cbn [shape_ok names_ok texts_ok] in *.
  - (* context reference *)
    cbn [ExRender.pitems]. unfold T. apply tok1. apply name_tok_ok; [exact Hn|exact (follow_not_name _ _ Hf)].
  - (* dot lookup *)
    apply andb_prop in Hs. destruct Hs as [Hat Hs]. apply andb_prop in Hn. destruct Hn as [Hn Hl].
    cbn [ExRender.pitems]. rewrite items_ok_k_app. apply andb_true_intro. split.
    + apply IHc; try assumption.
      rewrite render_app. unfold dot_items.
      destruct (is_digits l && ends_numeric (print lower printable c)) eqn:Ed0.
      { cbn [render render_item app]. apply base_ok. cbn; tauto. }
      destruct c as [| c' l' | | | | | | | | | |]; try discriminate Hat;
        try (cbn [render render_item T tx DOTt tokc app]; reflexivity).
      assert (Ed : is_digits l' && is_digits l = false).
      { destruct (is_digits l') eqn:E1; [|reflexivity]. rewrite (print_dot_ends_numeric c' l' E1), andb_true_r in Ed0.
        rewrite Ed0. reflexivity. }
      cbn [render render_item T tx DOTt tokc app]. unfold follow_ok. cbn [atomic int_dot andb].
      change (memN 46 base_follow) with false. change (memN 46 atom_follow) with false. change (46 =? 46) with true.
      cbn [orb andb]. rewrite !is_digits_all in Ed.
      destruct (all_digits l') eqn:E1; [|reflexivity]. cbn [andb] in Ed. rewrite Ed in Hl. cbn [orb] in Hl.
      unfold lookup_tok. rewrite Ed. cbn [tx tokc].
      unfold pname_ok, name_lexeme in Hl. apply andb_prop in Hl. destruct Hl as [Hl _].
      destruct l as [|c0 l0]; [discriminate|]. apply andb_prop in Hl. destruct Hl as [Hl _].
      cbn [app dot_digit]. change (46 =? 46) with true. cbn [andb].
      destruct (is_digit c0) eqn:Ec; [|reflexivity]. apply digit_not_name_start in Ec. congruence.
    + rewrite items_ok_k_app. apply andb_true_intro. split.
      * unfold dot_items. destruct (is_digits l && ends_numeric (print lower printable c)); [|unfold T; apply tok1; apply DOT_ok].
        unfold T. apply iok_sp_ok; [reflexivity|]. apply tok1. apply DOT_ok.
      * unfold T. apply tok1. apply (lookup_ok c l k Hl Hf).
  - (* index lookup *)
    apply andb_prop in Hs. destruct Hs as [Hs Hsl]. apply andb_prop in Hs. destruct Hs as [Hat Hs].
    apply andb_prop in Hn. destruct Hn as [Hn Hnl]. apply andb_prop in Ht. destruct Ht as [Ht Htl].
    cbn [ExRender.pitems]. rewrite items_ok_k_app. apply andb_true_intro. split.
    + apply IHc; try assumption. cbn [app render render_item T tx LB tokc].
      unfold follow_ok. rewrite Hat. reflexivity.
    + unfold T. cbn [app]. apply iok_tok_ok; [apply LB_ok|]. rewrite items_ok_k_app. apply andb_true_intro. split.
      * apply IHl; try assumption. cbn [render render_item RB tokc tx app]. apply base_ok. cbn; tauto.
      * apply tok1. apply RB_ok.
  - (* call *)
    apply andb_prop in Hs. destruct Hs as [Hs Hsp]. apply andb_prop in Hs. destruct Hs as [Hat Hs].
    apply andb_prop in Hn. destruct Hn as [Hn Hnp]. apply andb_prop in Ht. destruct Ht as [Ht Htp].
    rewrite pitems_call. rewrite items_ok_k_app. apply andb_true_intro. split.
    + apply IHf; try assumption. cbn [app render render_item T tx LP tokc].
      unfold follow_ok. rewrite Hat. reflexivity.
    + unfold T. cbn [app]. apply iok_tok_ok; [apply LP_ok|]. rewrite items_ok_k_app. apply andb_true_intro. split.
      * cbn [render render_item RP tokc tx app]. apply params_ok; assumption.
      * apply tok1. apply RP_ok.
  - (* anonymous function *)
    apply andb_prop in Hs. destruct Hs as [Hne Hs]. apply andb_prop in Hn. destruct Hn as [Hna Hn].
    cbn [ExRender.pitems]. unfold T. cbn [app]. apply iok_tok_ok; [apply LP_ok|].
    rewrite items_ok_k_app. apply andb_true_intro. split.
    + cbn [app render render_item RP tokc tx]. apply names_items_ok. exact Hna.
    + cbn [app]. apply iok_tok_ok; [apply RP_ok|]. apply iok_sp_ok; [reflexivity|].
      apply iok_tok_ok; [apply ARROW_ok|]. apply iok_sp_ok; [apply start_ok; assumption|].
      apply IHb; try assumption. apply (follow_sub (EAnon a b)); [reflexivity|exact Hf].
  - (* binary operator *)
    apply andb_prop in Hs. destruct Hs as [Hs1 Hs2]. apply andb_prop in Hn. destruct Hn as [Hn1 Hn2].
    apply andb_prop in Ht. destruct Ht as [Ht1 Ht2].
    cbn [ExRender.pitems]. rewrite items_ok_k_app. apply andb_true_intro. split.
    + apply IHa; try assumption. cbn [app render render_item]. apply base_ok. cbn; tauto.
    + unfold T. cbn [app]. apply iok_sp_ok.
      { cbn [render render_item tx op_tok tokc]. destruct o; reflexivity. }
      apply iok_tok_ok; [cbn [render render_item app]; apply op_tok_ok|].
      apply iok_sp_ok; [apply start_ok; assumption|].
      apply IHb; try assumption. apply (follow_sub (EBin o a b)); [reflexivity|exact Hf].
  - (* negation *)
    cbn [ExRender.pitems]. unfold T. apply iok_tok_ok; [apply MINUS_ok|].
    apply IHa; try assumption. apply (follow_sub (ENeg a)); [reflexivity|exact Hf].
  - (* parentheses *)
    cbn [ExRender.pitems]. unfold T. apply iok_tok_ok; [apply LP_ok|]. rewrite items_ok_k_app. apply andb_true_intro. split.
    + apply IHa; try assumption. cbn [render render_item RP tokc tx app]. apply base_ok. cbn; tauto.
    + apply tok1. apply RP_ok.
  - (* text literal *)
    cbn [ExRender.pitems]. unfold T. apply tok1. unfold ExRender.tok_ok. cbn [tk tx tokc].
    unfold text_value. rewrite (unquote_quote printable v printable_nl (valid_of_forallb v Hs)).
    rewrite teqb_refl. unfold text_follow_ok. rewrite Ht. reflexivity.
  - (* number literal *)
    cbn [ExRender.pitems]. unfold T. apply tok1. unfold num_tok.
    destruct (num_render_lexeme l Hs) as [[Hd Hnd]|(ip & fp & E & Hi & Hfp & Hd)].
    + rewrite Hnd. unfold ExRender.tok_ok. cbn [tk tx tokc]. rewrite Hd, (follow_not_digit _ _ Hf).
      rewrite (follow_nonatomic_nodot (ENum l) k eq_refl Hf). reflexivity.
    + rewrite Hd. unfold ExRender.tok_ok. cbn [tk tx tokc]. rewrite E.
      rewrite split_dot_app by (apply digits_no_dot, all_digits_forall; exact Hi).
      rewrite Hi, Hfp, (follow_not_digit _ _ Hf). reflexivity.
  - (* true / false *)
    cbn [ExRender.pitems]. unfold T. apply tok1. destruct b; unfold ExRender.tok_ok; cbn [tk tx tokc];
      rewrite teqb_refl, (follow_not_name _ _ Hf); reflexivity.
  - (* null *)
    cbn [ExRender.pitems]. unfold T. apply tok1. unfold ExRender.tok_ok. cbn [tk tx tokc].
    rewrite teqb_refl, (follow_not_name _ _ Hf). reflexivity.
Qed.

(* the printed text of a whole expression (nothing follows) is glue-free *)
Theorem glue_free_char e : shape_ok e = true -> names_ok lower e = true -> texts_ok e = true ->
  glue_free lower printable e = true.
Proof.
  intros Hs Hn Ht. unfold glue_free. rewrite <- items_ok_k_nil. apply glue_main; try assumption. reflexivity.
Qed.

End Glue.
