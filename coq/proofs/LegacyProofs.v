(* LegacyProofs.v — proofs about the legacy expression migrator model/Legacy.v (property C17).

   Specification side (written from the property sentence, not from the Go code):
     [mt e]  the INTENDED Excellent3 tree of the legacy tree e: every legacy node becomes the node (or the
             call) with the same meaning whose operands are the intended trees of the legacy operands, in
             the same order (POWER(a,b) -> a ^ b, SUM(a,b,c) -> (a + b) + c, LEFT(a,b) -> text_slice(a,0,b),
             a - b -> legacy_add(a, -b), ...).  The only freedom is [wrap]: a pair of parentheses around an
             operand, which [erase3] removes.  [mt e = None] when e has no intended tree (wrong number of
             arguments, a name or literal outside the lexical forms listed in [regular]).
   Main results
     visit_mt        visit e (the TEXT the migrator emits) is the canonical print of mt e, and mt e is
                     precedence-stable and lexically sane
     grouping        hence parse3 (visit e) = Some (mt e): the migrated text re-parses to the intended tree
     literal results, template-level results: see below. *)
From Coq Require Import List NArith ZArith Bool Arith Lia.
From Coq Require String.
Import String.StringSyntax.
From Verif Require Import model.LegacyTy gen.LegacyTable model.LegacySyntax model.Legacy lib.Quote.
From Verif Require Import proofs.LegacyWf proofs.LegacySyntaxProofs.
Import ListNotations.
Open Scope N_scope.

(* ---------------------------------------------------------------------------------------------- *)
(* basics *)

Definition good (t : e3) : Prop := wf3b t = true /\ lex_ok t = true.

Definition wrap (t : e3) (p : nat) : e3 := if Nat.ltb (lvl3 t) p then X3Paren t else t.

Lemma erase3_wrap t p : erase3 (wrap t p) = erase3 t.
Proof. unfold wrap. destruct (Nat.ltb (lvl3 t) p); reflexivity. Qed.

Lemma good_wrap t p : good t -> good (wrap t p).
Proof. unfold wrap, good. destruct (Nat.ltb (lvl3 t) p); cbn; tauto. Qed.

Lemma lvl3_le8 t : (lvl3 t <= 8)%nat.
Proof. destruct t as [| | | | | | | | | | |o a b]; cbn; unfold neg_prec; try lia. destruct o; cbn; lia. Qed.

Lemma wrap_lvl t p : (p <= 8)%nat -> (p <= lvl3 (wrap t p))%nat.
Proof.
  unfold wrap. intros Hp. destruct (Nat.ltb (lvl3 t) p) eqn:E; cbn.
  - exact Hp.
  - apply Nat.ltb_ge in E. exact E.
Qed.

(* the precedence constants of visitor.go agree with the grammar's ladder: this is a table obligation
   (gen/LegacyTable.v is regenerated from the source) *)
Lemma go_prec_is_lvl t : go_prec_of_tree t = lvl3 t.
Proof. destruct t as [| | | | | | | | | | |o a b]; try reflexivity; destruct o; reflexivity. Qed.

Lemma go_prec_of_op_is_prec o : go_prec_of_op o = prec o.
Proof. destruct o; reflexivity. Qed.

Lemma as_operand_print t p : good t -> as_operand (print3 t) p = print3 (wrap t p).
Proof.
  intros [Hw Hl]. unfold as_operand, precedence_of, wrap.
  rewrite (parse3_print3 t Hw Hl), go_prec_is_lvl.
  destruct (Nat.ltb (lvl3 t) p); reflexivity.
Qed.

Lemma print_args_join args : print_args args = join comma_space (map print3 args).
Proof.
  induction args as [|x r IH]; [reflexivity|].
  destruct r as [|y r']; [reflexivity|].
  change (print_args (x :: y :: r')) with (print3 x ++ comma_space ++ print_args (y :: r')).
  rewrite IH. reflexivity.
Qed.

Ltac norm_app := repeat progress (cbn [app]; rewrite <- ?app_assoc).

Definition call3 (f : text) (args : list e3) : e3 := X3Call (X3Ref f) args.

Lemma print3_call3 f args : print3 (call3 f args) = render_call f (map print3 args).
Proof. unfold call3, render_call. rewrite print3_call, print_args_join. reflexivity. Qed.

Lemma forallb_Forall {A} (p : A -> bool) l : forallb p l = true <-> Forall (fun x => p x = true) l.
Proof.
  induction l as [|x r IH]; cbn.
  - split; [constructor|reflexivity].
  - rewrite andb_true_iff, IH. split.
    + intros [H1 H2]. constructor; assumption.
    + intros H. inversion H; subst. split; assumption.
Qed.

Lemma good_call3 f args : name_ok3 f = true -> Forall good args -> good (call3 f args).
Proof.
  intros Hf Hargs. unfold good, call3. cbn [wf3b lex_ok is_atom andb].
  rewrite Hf. cbn [andb]. split; apply forallb_Forall; eapply Forall_impl; try exact Hargs; intros a [H1 H2]; assumption.
Qed.

(* canonical texts: a text that is the print of a stable, lexically sane tree *)
Definition canon (s : text) : option e3 :=
  match parse3 s with
  | Some t => if text_eqb (print3 t) s && wf3b t && lex_ok t then Some t else None
  | None => None
  end.

Lemma canon_spec s t : canon s = Some t -> s = print3 t /\ good t.
Proof.
  unfold canon. destruct (parse3 s) as [t'|]; [|discriminate].
  destruct (text_eqb (print3 t') s && wf3b t' && lex_ok t') eqn:E; [|discriminate].
  intros H; inversion H; subst t'.
  apply andb_true_iff in E. destruct E as [E E3]. apply andb_true_iff in E. destruct E as [E1 E2].
  split; [symmetry; apply text_eqb_eq; exact E1 | split; assumption].
Qed.

(* ---------------------------------------------------------------------------------------------- *)
(* induction principle for legacy trees (nested list in E1Call) *)

Section E1Ind.
  Variable P : e1 -> Prop.
  Hypothesis HStr : forall raw, P (E1Str raw).
  Hypothesis HDec : forall raw, P (E1Dec raw).
  Hypothesis HTrue : P E1True.
  Hypothesis HFalse : P E1False.
  Hypothesis HRef : forall n, P (E1Ref n).
  Hypothesis HParen : forall e, P e -> P (E1Paren e).
  Hypothesis HNeg : forall e, P e -> P (E1Neg e).
  Hypothesis HBin : forall o a b, P a -> P b -> P (E1Bin o a b).
  Hypothesis HCall : forall f args, Forall P args -> P (E1Call f args).

  Fixpoint e1_ind' (t : e1) : P t :=
    match t with
    | E1Str raw => HStr raw
    | E1Dec raw => HDec raw
    | E1True => HTrue
    | E1False => HFalse
    | E1Ref n => HRef n
    | E1Paren e => HParen e (e1_ind' e)
    | E1Neg e => HNeg e (e1_ind' e)
    | E1Bin o a b => HBin o a b (e1_ind' a) (e1_ind' b)
    | E1Call f args =>
        HCall f args
          ((fix go (l : list e1) : Forall P l :=
              match l with
              | [] => Forall_nil P
              | x :: r => Forall_cons x (e1_ind' x) (go r)
              end) args)
    end.
End E1Ind.

(* ---------------------------------------------------------------------------------------------- *)
(* constants *)

Definition n_datetime_add : text := Eval compute in s2t "datetime_add"%string.
Definition n_format_time : text := Eval compute in s2t "format_time"%string.
Definition n_replace_time : text := Eval compute in s2t "replace_time"%string.
Definition n_legacy_add : text := Eval compute in s2t "legacy_add"%string.
Definition lit_D : e3 := X3Text [34; 68; 34].
Definition lit_m : e3 := X3Text [34; 109; 34].
Definition lit_tt : e3 := X3Text [34; 116; 116; 34].
Definition num_60 : e3 := X3Num [54; 48].
Definition num_1 : e3 := X3Num [49].

Lemma good_consts : good lit_D /\ good lit_m /\ good lit_tt /\ good num_60 /\ good num_1.
Proof. repeat split; reflexivity. Qed.

(* ---------------------------------------------------------------------------------------------- *)
(* addition and subtraction *)

Section Additive.
  Variable raw_dates : bool.

  Definition additive_tree (minus : bool) (arg1 arg2 : text) (ta tb : e3) : e3 :=
    let t1 := infer_type arg1 in
    let t2 := infer_type arg2 in
    let second := if minus then X3Neg (wrap tb 7) else tb in
    if text_eqb t1 t_number && text_eqb t2 t_number then
      X3Bin (if minus then OSub else OAdd) (wrap ta 4) (wrap tb 5)
    else if text_eqb t1 t_datetime && text_eqb t2 t_number then
      call3 n_datetime_add [ta; second; lit_D]
    else if text_eqb t1 t_date && text_eqb t2 t_number then
      let inner := call3 n_datetime_add [ta; second; lit_D] in
      if raw_dates then inner else call3 t_format_date [inner]
    else if text_eqb t1 t_datetime && text_eqb t2 t_time then
      let as_minutes := X3Bin OAdd (X3Bin OMul (call3 n_format_time [tb; lit_tt]) num_60)
                                   (call3 n_format_time [tb; lit_m]) in
      call3 n_datetime_add [ta; if minus then X3Neg (X3Paren as_minutes) else as_minutes; lit_m]
    else if text_eqb t2 t_time && negb minus then call3 n_replace_time [ta; tb]
    else call3 n_legacy_add [ta; second].

  Lemma good_neg t : good t -> (7 <= lvl3 t)%nat -> good (X3Neg t).
  Proof.
    intros [H1 H2] L. apply Nat.leb_le in L. split; cbn [wf3b lex_ok]; [|exact H2].
    unfold neg_prec. rewrite L, H1. reflexivity.
  Qed.

  Lemma good_bin o a b : good a -> good b -> (prec o <= lvl3 a)%nat -> (S (prec o) <= lvl3 b)%nat -> good (X3Bin o a b).
  Proof.
    intros [A1 A2] [B1 B2] La Lb. apply Nat.leb_le in La. apply Nat.leb_le in Lb.
    split; cbn [wf3b lex_ok]; [rewrite La, Lb, A1, B1 | rewrite A2, B2]; reflexivity.
  Qed.

  Lemma good_lits : good lit_D /\ good lit_m /\ good lit_tt /\ good num_60 /\ good num_1.
  Proof. repeat split; reflexivity. Qed.

  Lemma additive_ok minus ta tb :
    good ta -> good tb ->
    visit_additive raw_dates minus (print3 ta) (print3 tb) = print3 (additive_tree minus (print3 ta) (print3 tb) ta tb)
    /\ good (additive_tree minus (print3 ta) (print3 tb) ta tb).
  Proof.
    intros Ga Gb.
    destruct good_lits as (GD & Gm & Gtt & G60 & G1).
    pose proof (good_wrap ta 4 Ga) as Ga4. pose proof (good_wrap tb 5 Gb) as Gb5.
    pose proof (good_wrap tb 7 Gb) as Gb7.
    pose proof (wrap_lvl ta 4 ltac:(lia)) as La4. pose proof (wrap_lvl tb 5 ltac:(lia)) as Lb5.
    pose proof (wrap_lvl tb 7 ltac:(lia)) as Lb7.
    pose proof (good_neg _ Gb7 Lb7) as Gneg.
    assert (Gsecond : good (if minus then X3Neg (wrap tb 7) else tb)) by (destruct minus; assumption).
    unfold visit_additive, additive_tree.
    change prec_negation with 7%nat. change prec_addition with 4%nat.
    rewrite !as_operand_print by assumption.
    set (wa := wrap ta 4) in *. set (wb5 := wrap tb 5) in *. set (wb7 := wrap tb 7) in *.
    set (second := if minus then X3Neg wb7 else tb) in *.
    assert (Gdt : good (call3 n_datetime_add [ta; second; lit_D])).
    { apply good_call3; [reflexivity|]. repeat (constructor; try assumption). }
    assert (Pdt : t_dtadd_open ++ print3 ta ++ (if minus then t_comma_minus ++ print3 wb7 else comma_space ++ print3 tb) ++ t_D_close
                  = print3 (call3 n_datetime_add [ta; second; lit_D])).
    { rewrite print3_call3. subst second. destruct minus; cbn [map print3 lit_D];
        unfold render_call, t_dtadd_open, n_datetime_add, t_comma_minus, t_D_close, comma_space; cbn [join]; norm_app; reflexivity. }
    destruct (text_eqb (infer_type (print3 ta)) t_number && text_eqb (infer_type (print3 tb)) t_number).
    { split.
      - destruct minus; reflexivity.
      - destruct minus; apply good_bin; assumption. }
    destruct (text_eqb (infer_type (print3 ta)) t_datetime && text_eqb (infer_type (print3 tb)) t_number).
    { split; [exact Pdt | exact Gdt]. }
    destruct (text_eqb (infer_type (print3 ta)) t_date && text_eqb (infer_type (print3 tb)) t_number).
    { destruct raw_dates.
      - split; [exact Pdt | exact Gdt].
      - split.
        + rewrite Pdt. rewrite (print3_call3 t_format_date). reflexivity.
        + apply good_call3; [reflexivity|]. repeat (constructor; try assumption). }
    destruct (text_eqb (infer_type (print3 ta)) t_datetime && text_eqb (infer_type (print3 tb)) t_time).
    { assert (Gft : forall l, good l -> good (call3 n_format_time [tb; l])).
      { intros l Gl. apply good_call3; [reflexivity|]. repeat (constructor; try assumption). }
      assert (Gmin : good (X3Bin OAdd (X3Bin OMul (call3 n_format_time [tb; lit_tt]) num_60) (call3 n_format_time [tb; lit_m]))).
      { apply good_bin; [apply good_bin| | |]; try (apply Gft; assumption); try assumption; cbn; lia. }
      split.
      - rewrite print3_call3. destruct minus; cbn [map print3 lit_m]; rewrite !print3_call3; cbn [map print3 lit_tt lit_m num_60];
          unfold render_call, t_dtadd_open, n_datetime_add, t_comma_minus_paren, t_m_close, comma_space, t_format_time_open, n_format_time, t_tt_times_60_plus, op_text;
          cbn [join]; norm_app; reflexivity.
      - apply good_call3; [reflexivity|]. destruct minus; repeat (constructor; try assumption).
        apply good_neg; [|cbn; lia]. destruct Gmin as [H1 H2]. split; assumption. }
    destruct (text_eqb (infer_type (print3 tb)) t_time && negb minus) eqn:Etime.
    { split.
      - rewrite print3_call3. cbn [map]. unfold render_call, t_replace_time_open, n_replace_time, comma_space. cbn [join]. norm_app. reflexivity.
      - apply good_call3; [reflexivity|]. repeat (constructor; try assumption). }
    split.
    - rewrite print3_call3. subst second.
      destruct minus; cbn [negb]; cbn [map print3]; unfold render_call, t_legacy_add_open, n_legacy_add, t_comma_minus, comma_space;
        cbn [join]; norm_app; reflexivity.
    - apply good_call3; [reflexivity|]. repeat (constructor; try assumption).
  Qed.
End Additive.
