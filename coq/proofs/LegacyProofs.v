(* LegacyProofs.v — proofs about the legacy expression migrator model/Legacy.v (property C17).

   Specification side (written from the property sentence, not from the Go code):
     [mt e]  the INTENDED Excellent3 tree of the legacy tree e: every legacy node becomes the node (or the
             call) with the same meaning whose operands are the intended trees of the legacy operands, in
             the same order (POWER(a,b) -> a ^ b, SUM(a,b,c) -> (a + b) + c, LEFT(a,b) -> text_slice(a,0,b),
             a - b -> legacy_add(a, -b), ...).  The only freedom is [wrap]: a pair of parentheses around an
             operand, which [erase3] removes.  [mt e = None] when e has no intended tree (wrong number of
             arguments, a name or literal outside the lexical forms listed in [regular]).
   Main results
     visit_mt        visit e (the TEXT the migrator emits) is the canonical print of mt e, and mt e is
                     precedence-stable and lexically sane
     grouping        hence parse3 (visit e) = Some (mt e): the migrated text re-parses to the intended tree
     literal results, template-level results: see below. *)
From Coq Require Import List NArith ZArith Bool Arith Lia ZifyBool ZifyN.
From Coq Require String.
Import String.StringSyntax.
From Verif Require Import model.LegacyTy gen.LegacyTable model.LegacySyntax model.Legacy lib.Quote.
From Verif Require Import proofs.LegacyWf proofs.LegacySyntaxProofs proofs.QuoteProofs model.LegacyCorr.
Import ListNotations.
Open Scope N_scope.

(* ---------------------------------------------------------------------------------------------- *)
(* basics *)

Definition good (t : e3) : Prop := wf3b t = true /\ lex_ok t = true.

Definition wrap (t : e3) (p : nat) : e3 := if Nat.ltb (lvl3 t) p then X3Paren t else t.

Lemma erase3_wrap t p : erase3 (wrap t p) = erase3 t.
Proof. unfold wrap. destruct (Nat.ltb (lvl3 t) p); reflexivity. Qed.

Lemma good_wrap t p : good t -> good (wrap t p).
Proof. unfold wrap, good. destruct (Nat.ltb (lvl3 t) p); cbn; tauto. Qed.

Lemma lvl3_le8 t : (lvl3 t <= 8)%nat.
Proof. destruct t as [| | | | | | | | | | |o a b]; cbn; unfold neg_prec; try lia. destruct o; cbn; lia. Qed.

Lemma wrap_lvl t p : (p <= 8)%nat -> (p <= lvl3 (wrap t p))%nat.
Proof.
  unfold wrap. intros Hp. destruct (Nat.ltb (lvl3 t) p) eqn:E; cbn.
  - exact Hp.
  - apply Nat.ltb_ge in E. exact E.
Qed.

(* the precedence constants of visitor.go agree with the grammar's ladder: this is a table obligation
   (gen/LegacyTable.v is regenerated from the source) *)
Lemma go_prec_is_lvl t : go_prec_of_tree t = lvl3 t.
Proof. destruct t as [| | | | | | | | | | |o a b]; try reflexivity; destruct o; reflexivity. Qed.

Lemma go_prec_of_op_is_prec o : go_prec_of_op o = prec o.
Proof. destruct o; reflexivity. Qed.

Lemma as_operand_print t p : good t -> as_operand (print3 t) p = print3 (wrap t p).
Proof.
  intros [Hw Hl]. unfold as_operand, precedence_of, wrap.
  rewrite (parse3_print3 t Hw Hl), go_prec_is_lvl.
  destruct (Nat.ltb (lvl3 t) p); reflexivity.
Qed.

Lemma print_args_join args : print_args args = join comma_space (map print3 args).
Proof.
  induction args as [|x r IH]; [reflexivity|].
  destruct r as [|y r']; [reflexivity|].
  change (print_args (x :: y :: r')) with (print3 x ++ comma_space ++ print_args (y :: r')).
  rewrite IH. reflexivity.
Qed.

Ltac norm_app := repeat progress (cbn [app]; rewrite <- ?app_assoc).

Definition call3 (f : text) (args : list e3) : e3 := X3Call (X3Ref f) args.

Lemma print3_call3 f args : print3 (call3 f args) = render_call f (map print3 args).
Proof. unfold call3, render_call. rewrite print3_call, print_args_join. reflexivity. Qed.

Lemma forallb_Forall {A} (p : A -> bool) l : forallb p l = true <-> Forall (fun x => p x = true) l.
Proof.
  induction l as [|x r IH]; cbn.
  - split; [constructor|reflexivity].
  - rewrite andb_true_iff, IH. split.
    + intros [H1 H2]. constructor; assumption.
    + intros H. inversion H; subst. split; assumption.
Qed.

Lemma good_call3 f args : name_ok3 f = true -> Forall good args -> good (call3 f args).
Proof.
  intros Hf Hargs. unfold good, call3. cbn [wf3b lex_ok is_atom andb].
  rewrite Hf. cbn [andb]. split; apply forallb_Forall; eapply Forall_impl; try exact Hargs; intros a [H1 H2]; assumption.
Qed.

(* canonical texts: a text that is the print of a stable, lexically sane tree *)
Definition canon (s : text) : option e3 :=
  match parse3 s with
  | Some t => if text_eqb (print3 t) s && wf3b t && lex_ok t then Some t else None
  | None => None
  end.

Lemma canon_spec s t : canon s = Some t -> s = print3 t /\ good t.
Proof.
  unfold canon. destruct (parse3 s) as [t'|]; [|discriminate].
  destruct (text_eqb (print3 t') s && wf3b t' && lex_ok t') eqn:E; [|discriminate].
  intros H; inversion H; subst t'.
  apply andb_true_iff in E. destruct E as [E E3]. apply andb_true_iff in E. destruct E as [E1 E2].
  split; [symmetry; apply text_eqb_eq; exact E1 | split; assumption].
Qed.

Fixpoint all_some {A} (l : list (option A)) : option (list A) :=
  match l with
  | [] => Some []
  | Some x :: r => match all_some r with Some xs => Some (x :: xs) | None => None end
  | None :: _ => None
  end.

Lemma all_some_canon : forall ds ts, all_some (map canon ds) = Some ts -> ds = map print3 ts /\ Forall good ts.
Proof.
  induction ds as [|d r IH]; intros ts H; cbn [map all_some] in H.
  - inversion H; subst. split; [reflexivity|constructor].
  - destruct (canon d) as [t|] eqn:Ec; [|discriminate].
    destruct (all_some (map canon r)) as [xs|] eqn:Er; [|discriminate]. inversion H; subst ts.
    apply canon_spec in Ec. destruct Ec as [E G]. destruct (IH xs eq_refl) as [E' G'].
    split; [cbn [map]; rewrite <- E, <- E'; reflexivity | constructor; assumption].
Qed.

(* ---------------------------------------------------------------------------------------------- *)
(* induction principle for legacy trees (nested list in E1Call) *)

Section E1Ind.
  Variable P : e1 -> Prop.
  Hypothesis HStr : forall raw, P (E1Str raw).
  Hypothesis HDec : forall raw, P (E1Dec raw).
  Hypothesis HTrue : P E1True.
  Hypothesis HFalse : P E1False.
  Hypothesis HRef : forall n, P (E1Ref n).
  Hypothesis HParen : forall e, P e -> P (E1Paren e).
  Hypothesis HNeg : forall e, P e -> P (E1Neg e).
  Hypothesis HBin : forall o a b, P a -> P b -> P (E1Bin o a b).
  Hypothesis HCall : forall f args, Forall P args -> P (E1Call f args).

  Fixpoint e1_ind' (t : e1) : P t :=
    match t with
    | E1Str raw => HStr raw
    | E1Dec raw => HDec raw
    | E1True => HTrue
    | E1False => HFalse
    | E1Ref n => HRef n
    | E1Paren e => HParen e (e1_ind' e)
    | E1Neg e => HNeg e (e1_ind' e)
    | E1Bin o a b => HBin o a b (e1_ind' a) (e1_ind' b)
    | E1Call f args =>
        HCall f args
          ((fix go (l : list e1) : Forall P l :=
              match l with
              | [] => Forall_nil P
              | x :: r => Forall_cons x (e1_ind' x) (go r)
              end) args)
    end.
End E1Ind.

(* ---------------------------------------------------------------------------------------------- *)
(* constants *)

Definition n_datetime_add : text := Eval compute in s2t "datetime_add"%string.
Definition n_format_time : text := Eval compute in s2t "format_time"%string.
Definition n_replace_time : text := Eval compute in s2t "replace_time"%string.
Definition n_legacy_add : text := Eval compute in s2t "legacy_add"%string.
Definition lit_D : e3 := X3Text [34; 68; 34].
Definition lit_m : e3 := X3Text [34; 109; 34].
Definition lit_tt : e3 := X3Text [34; 116; 116; 34].
Definition num_60 : e3 := X3Num [54; 48].
Definition num_1 : e3 := X3Num [49].

Lemma good_consts : good lit_D /\ good lit_m /\ good lit_tt /\ good num_60 /\ good num_1.
Proof. repeat split; reflexivity. Qed.

(* ---------------------------------------------------------------------------------------------- *)
(* addition and subtraction *)

Section Additive.
  Variable raw_dates : bool.

  Definition additive_tree (minus : bool) (arg1 arg2 : text) (ta tb : e3) : e3 :=
    let t1 := infer_type arg1 in
    let t2 := infer_type arg2 in
    let second := if minus then X3Neg (wrap tb 7) else tb in
    if text_eqb t1 t_number && text_eqb t2 t_number then
      X3Bin (if minus then OSub else OAdd) (wrap ta 4) (wrap tb 5)
    else if text_eqb t1 t_datetime && text_eqb t2 t_number then
      call3 n_datetime_add [ta; second; lit_D]
    else if text_eqb t1 t_date && text_eqb t2 t_number then
      let inner := call3 n_datetime_add [ta; second; lit_D] in
      if raw_dates then inner else call3 t_format_date [inner]
    else if text_eqb t1 t_datetime && text_eqb t2 t_time then
      let as_minutes := X3Bin OAdd (X3Bin OMul (call3 n_format_time [tb; lit_tt]) num_60)
                                   (call3 n_format_time [tb; lit_m]) in
      call3 n_datetime_add [ta; if minus then X3Neg (X3Paren as_minutes) else as_minutes; lit_m]
    else if text_eqb t2 t_time && negb minus then call3 n_replace_time [ta; tb]
    else call3 n_legacy_add [ta; second].

  Lemma good_neg t : good t -> (7 <= lvl3 t)%nat -> good (X3Neg t).
  Proof.
    intros [H1 H2] L. apply Nat.leb_le in L. split; cbn [wf3b lex_ok]; [|exact H2].
    unfold neg_prec. rewrite L, H1. reflexivity.
  Qed.

  Lemma good_bin o a b : good a -> good b -> (prec o <= lvl3 a)%nat -> (S (prec o) <= lvl3 b)%nat -> good (X3Bin o a b).
  Proof.
    intros [A1 A2] [B1 B2] La Lb. apply Nat.leb_le in La. apply Nat.leb_le in Lb.
    split; cbn [wf3b lex_ok]; [rewrite La, Lb, A1, B1 | rewrite A2, B2]; reflexivity.
  Qed.

  Lemma good_lits : good lit_D /\ good lit_m /\ good lit_tt /\ good num_60 /\ good num_1.
  Proof. repeat split; reflexivity. Qed.

  Lemma additive_ok minus ta tb :
    good ta -> good tb ->
    visit_additive raw_dates minus (print3 ta) (print3 tb) = print3 (additive_tree minus (print3 ta) (print3 tb) ta tb)
    /\ good (additive_tree minus (print3 ta) (print3 tb) ta tb).
  Proof.
    intros Ga Gb.
    destruct good_lits as (GD & Gm & Gtt & G60 & G1).
    pose proof (good_wrap ta 4 Ga) as Ga4. pose proof (good_wrap tb 5 Gb) as Gb5.
    pose proof (good_wrap tb 7 Gb) as Gb7.
    pose proof (wrap_lvl ta 4 ltac:(lia)) as La4. pose proof (wrap_lvl tb 5 ltac:(lia)) as Lb5.
    pose proof (wrap_lvl tb 7 ltac:(lia)) as Lb7.
    pose proof (good_neg _ Gb7 Lb7) as Gneg.
    assert (Gsecond : good (if minus then X3Neg (wrap tb 7) else tb)) by (destruct minus; assumption).
    unfold visit_additive, additive_tree.
    change prec_negation with 7%nat. change prec_addition with 4%nat.
    rewrite !as_operand_print by assumption.
    set (wa := wrap ta 4) in *. set (wb5 := wrap tb 5) in *. set (wb7 := wrap tb 7) in *.
    set (second := if minus then X3Neg wb7 else tb) in *.
    assert (Gdt : good (call3 n_datetime_add [ta; second; lit_D])).
    { apply good_call3; [reflexivity|]. repeat (constructor; try assumption). }
    assert (Pdt : t_dtadd_open ++ print3 ta ++ (if minus then t_comma_minus ++ print3 wb7 else comma_space ++ print3 tb) ++ t_D_close
                  = print3 (call3 n_datetime_add [ta; second; lit_D])).
    { rewrite print3_call3. subst second. destruct minus; cbn [map print3 lit_D];
        unfold render_call, t_dtadd_open, n_datetime_add, t_comma_minus, t_D_close, comma_space; cbn [join]; norm_app; reflexivity. }
    destruct (text_eqb (infer_type (print3 ta)) t_number && text_eqb (infer_type (print3 tb)) t_number).
    { split.
      - destruct minus; reflexivity.
      - destruct minus; apply good_bin; assumption. }
    destruct (text_eqb (infer_type (print3 ta)) t_datetime && text_eqb (infer_type (print3 tb)) t_number).
    { split; [exact Pdt | exact Gdt]. }
    destruct (text_eqb (infer_type (print3 ta)) t_date && text_eqb (infer_type (print3 tb)) t_number).
    { destruct raw_dates.
      - split; [exact Pdt | exact Gdt].
      - split.
        + rewrite Pdt. rewrite (print3_call3 t_format_date). reflexivity.
        + apply good_call3; [reflexivity|]. repeat (constructor; try assumption). }
    destruct (text_eqb (infer_type (print3 ta)) t_datetime && text_eqb (infer_type (print3 tb)) t_time).
    { assert (Gft : forall l, good l -> good (call3 n_format_time [tb; l])).
      { intros l Gl. apply good_call3; [reflexivity|]. repeat (constructor; try assumption). }
      assert (Gmin : good (X3Bin OAdd (X3Bin OMul (call3 n_format_time [tb; lit_tt]) num_60) (call3 n_format_time [tb; lit_m]))).
      { apply good_bin; [apply good_bin| | |]; try (apply Gft; assumption); try assumption; cbn; lia. }
      split.
      - rewrite print3_call3. destruct minus; cbn [map print3 lit_m]; rewrite !print3_call3; cbn [map print3 lit_tt lit_m num_60];
          unfold render_call, t_dtadd_open, n_datetime_add, t_comma_minus_paren, t_m_close, comma_space, t_format_time_open, n_format_time, t_tt_times_60_plus, op_text;
          cbn [join]; norm_app; reflexivity.
      - assert (Gnp : good (X3Neg (X3Paren (X3Bin OAdd (X3Bin OMul (call3 n_format_time [tb; lit_tt]) num_60) (call3 n_format_time [tb; lit_m]))))).
        { apply good_neg; [|cbn; lia]. destruct Gmin as [H1 H2]. split; assumption. }
        apply good_call3; [reflexivity|]. destruct minus; repeat (constructor; try assumption). }
    destruct (text_eqb (infer_type (print3 tb)) t_time && negb minus) eqn:Etime.
    { split.
      - rewrite print3_call3. cbn [map]. unfold render_call, t_replace_time_open, n_replace_time, comma_space. cbn [join]. norm_app. reflexivity.
      - apply good_call3; [reflexivity|]. repeat (constructor; try assumption). }
    split.
    - rewrite print3_call3. subst second.
      destruct minus; cbn [negb]; cbn [map print3]; unfold render_call, t_legacy_add_open, n_legacy_add, t_comma_minus, comma_space;
        cbn [join]; norm_app; reflexivity.
    - apply good_call3; [reflexivity|]. repeat (constructor; try assumption).
  Qed.
End Additive.

(* ---------------------------------------------------------------------------------------------- *)
(* function calls: parameter migrators *)

(* the tree of a decimal integer as strconv.Itoa writes it *)
Definition dec_tree (z : Z) : e3 :=
  match z with
  | Z0 => X3Num [48]
  | Zpos p => X3Num (digits_of 20 (Npos p))
  | Zneg p => X3Neg (X3Num (digits_of 20 (Npos p)))
  end.

Lemma digits_of_digits : forall f n, forallb ascii_digit (digits_of f n) = true /\ digits_of f n <> [].
Proof.
  assert (D : forall m, m < 10 -> ascii_digit (48 + m) = true) by (intros m Hm; unfold ascii_digit; lia).
  induction f as [|f IH]; intros n; cbn [digits_of].
  - split; [cbn [forallb]; rewrite D; [reflexivity | apply N.mod_lt; lia] | discriminate].
  - destruct (n <? 10) eqn:E.
    + split; [cbn [forallb]; rewrite D; [reflexivity | lia] | discriminate].
    + destruct (IH (n / 10)) as [H1 H2]. split.
      * rewrite forallb_app, H1. cbn [forallb]. rewrite D; [reflexivity | apply N.mod_lt; lia].
      * intros C. apply app_eq_nil in C. destruct C as [_ C]. discriminate C.
Qed.

Lemma span_all (p : N -> bool) s : forallb p s = true -> span p s = (s, []).
Proof.
  induction s as [|c r IH]; [reflexivity|]. cbn [forallb span]. intros H. apply andb_true_iff in H.
  destruct H as [H1 H2]. rewrite H1, (IH H2). reflexivity.
Qed.

Lemma num_ok_digits f n : num_ok (digits_of f n) = true.
Proof.
  destruct (digits_of_digits f n) as [H1 H2]. unfold num_ok. rewrite (span_all _ _ H1).
  destruct (digits_of f n); [contradiction|reflexivity].
Qed.

Lemma dec_tree_ok z : print3 (dec_tree z) = itoa z /\ good (dec_tree z).
Proof.
  destruct z as [|p|p]; cbn [dec_tree itoa print3].
  - split; [reflexivity | split; reflexivity].
  - split; [reflexivity | split; [reflexivity | apply num_ok_digits]].
  - split; [reflexivity | split; [reflexivity | cbn [lex_ok]; apply num_ok_digits]].
Qed.

Definition pm_tree (m : pmig) (t : e3) : option e3 :=
  match m with
  | PAsIs => Some t
  | PDecremented =>
      match atoi (print3 t) with
      | Some z => if decremented_keeps_negative && (z <? 0)%Z then Some t else Some (dec_tree (int64_pred z))
      | None => Some (X3Bin OSub (wrap t 4) num_1)
      end
  | PBySpaces =>
      let l := trim_space (lower (print3 t)) in
      if text_eqb l t_true then canon t_space_tab
      else if text_eqb l t_false then Some X3Null
      else Some (call3 [105; 102] [t; X3Text t_space_tab; X3Null])
  end.

Lemma pm_tree_ok m t t' : good t -> pm_tree m t = Some t' -> apply_pm m (print3 t) = print3 t' /\ good t'.
Proof.
  intros G H. destruct m; cbn [pm_tree apply_pm] in *.
  - inversion H; subst. split; [reflexivity|assumption].
  - unfold param_decremented. destruct (atoi (print3 t)) as [z|].
    + destruct (decremented_keeps_negative && (z <? 0)%Z).
      * inversion H; subst t'. split; [reflexivity|assumption].
      * inversion H; subst t'. destruct (dec_tree_ok (int64_pred z)) as [P G']. split; [symmetry; exact P | exact G'].
    + inversion H; subst t'. change prec_addition with 4%nat. rewrite as_operand_print by assumption. split.
      * cbn [print3 num_1 op_text]. unfold t_minus_one. norm_app. reflexivity.
      * apply good_bin; [apply good_wrap; assumption | split; reflexivity | apply (wrap_lvl t 4); lia | cbn; lia].
  - unfold param_by_spaces. cbv zeta in H.
    destruct (text_eqb (trim_space (lower (print3 t))) t_true).
    + apply canon_spec in H. exact H.
    + destruct (text_eqb (trim_space (lower (print3 t))) t_false).
      * inversion H; subst t'. split; [reflexivity | split; reflexivity].
      * inversion H; subst t'. split.
        -- rewrite print3_call3. cbn [map print3]. unfold render_call, t_if_open, t_byspaces_close, t_space_tab, t_NULL, comma_space.
           cbn [join]. norm_app. reflexivity.
        -- apply good_call3; [reflexivity|]. repeat (constructor; try assumption); split; reflexivity.
Qed.

Fixpoint params_tree (pms : list pmig) (old : list e3) (defaults : list text) : option (list e3) :=
  match pms with
  | [] => Some []
  | m :: pms' =>
      match old, defaults with
      | [], [] => Some []
      | o :: old', _ =>
          match pm_tree m o, params_tree pms' old' (tl defaults) with
          | Some x, Some r => Some (x :: r)
          | _, _ => None
          end
      | [], d :: defaults' =>
          match canon d with
          | Some dt =>
              match pm_tree m dt, params_tree pms' [] defaults' with
              | Some x, Some r => Some (x :: r)
              | _, _ => None
              end
          | None => None
          end
      end
  end.

Lemma canon_nil : canon [] = None.
Proof. reflexivity. Qed.

Lemma params_tree_ok : forall pms old defaults ts,
  Forall good old -> params_tree pms old defaults = Some ts ->
  migrate_params pms (map print3 old) defaults = Some (map print3 ts) /\ Forall good ts.
Proof.
  induction pms as [|m pms IH]; intros old defaults ts G H; cbn [params_tree migrate_params] in *.
  - inversion H; subst. split; [reflexivity|constructor].
  - destruct old as [|o old']; cbn [map].
    + destruct defaults as [|d defaults'].
      * inversion H; subst. split; [reflexivity|constructor].
      * destruct (canon d) as [dt|] eqn:Ec; [|discriminate].
        assert (Hd : d <> []) by (intros ->; rewrite canon_nil in Ec; discriminate).
        apply canon_spec in Ec. destruct Ec as [Ed Gd].
        destruct (pm_tree m dt) as [x|] eqn:Ex; [|discriminate].
        destruct (params_tree pms [] defaults') as [r|] eqn:Er; [|discriminate].
        inversion H; subst ts.
        destruct (pm_tree_ok _ _ _ Gd Ex) as [P1 G1].
        destruct (IH [] defaults' r (Forall_nil _) Er) as [P2 G2].
        cbn [map] in P2. destruct d as [|c0 d0]; [contradiction|]. rewrite P2. cbn [option_map map].
        split; [rewrite Ed, P1; reflexivity | constructor; assumption].
    + inversion G as [|? ? Go Gold]; subst.
      destruct (pm_tree m o) as [x|] eqn:Ex; [|discriminate].
      destruct (params_tree pms old' (tl defaults)) as [r|] eqn:Er; [|discriminate].
      inversion H; subst ts.
      destruct (pm_tree_ok _ _ _ Go Ex) as [P1 G1].
      destruct (IH old' (tl defaults) r Gold Er) as [P2 G2].
      rewrite P2. cbn [option_map map]. split; [rewrite P1; reflexivity | constructor; assumption].
Qed.

(* ---------------------------------------------------------------------------------------------- *)
(* function calls: joins (SUM, CONCATENATE) *)

Definition all_binops : list binop := [OExp; OMul; ODiv; OAdd; OSub; OLte; OLt; OGte; OGt; OEq; ONeq; OAmp].

Definition sep_of (o : binop) : text := 32 :: op_text o ++ [32].

Definition join_op (sep : text) : option binop := find (fun o => text_eqb sep (sep_of o)) all_binops.

Definition join_tree (o : binop) (ts : list e3) : option e3 :=
  match ts with
  | [] => None
  | t0 :: r => Some (fold_left (fun acc x => X3Bin o acc (wrap x (S (prec o)))) r (wrap t0 (prec o)))
  end.

Lemma join_cons_concat sep (g : e3 -> text) : forall l A,
  join sep (A :: map g l) = A ++ concat (map (fun x => sep ++ g x) l).
Proof.
  induction l as [|x r IH]; intros A; cbn [map concat].
  - cbn [join]. rewrite app_nil_r. reflexivity.
  - change (join sep (A :: g x :: map g r)) with (A ++ sep ++ join sep (g x :: map g r)).
    rewrite IH. rewrite <- !app_assoc. reflexivity.
Qed.

Lemma prec_le_7 o : (S (prec o) <= 8)%nat.
Proof. destruct o; cbn; lia. Qed.

Lemma fold_join_ok o : forall r acc,
  good acc -> (prec o <= lvl3 acc)%nat -> Forall good r ->
  print3 (fold_left (fun acc x => X3Bin o acc (wrap x (S (prec o)))) r acc)
    = print3 acc ++ concat (map (fun x => sep_of o ++ print3 (wrap x (S (prec o)))) r)
  /\ good (fold_left (fun acc x => X3Bin o acc (wrap x (S (prec o)))) r acc)
  /\ (prec o <= lvl3 (fold_left (fun acc x => X3Bin o acc (wrap x (S (prec o)))) r acc))%nat.
Proof.
  induction r as [|x r IH]; intros acc Ga La Gr; cbn [fold_left map concat].
  - rewrite app_nil_r. split; [reflexivity|split; assumption].
  - inversion Gr as [|? ? Gx Gr']; subst.
    assert (Gb : good (X3Bin o acc (wrap x (S (prec o))))).
    { apply good_bin; [assumption | apply good_wrap; assumption | assumption | apply wrap_lvl; apply prec_le_7]. }
    destruct (IH (X3Bin o acc (wrap x (S (prec o)))) Gb (Nat.le_refl _) Gr') as (P & G & L).
    split; [|split; assumption].
    rewrite P. cbn [print3]. unfold sep_of. norm_app. reflexivity.
Qed.

Lemma join_op_sep sep o : join_op sep = Some o -> sep = sep_of o.
Proof.
  unfold join_op. intros H. apply find_some in H. destruct H as [_ H]. apply text_eqb_eq in H. exact H.
Qed.

Lemma join_ok sep o ts t :
  join_op sep = Some o -> Forall good ts -> join_tree o ts = Some t ->
  join sep (join_operands (map print3 ts) (prec o)) = print3 t /\ good t.
Proof.
  intros Hs G H. apply join_op_sep in Hs. subst sep.
  destruct ts as [|t0 r]; [discriminate|]. cbn [join_tree] in H. inversion H; subst t. clear H.
  inversion G as [|? ? G0 Gr]; subst.
  assert (L0 : (prec o <= lvl3 (wrap t0 (prec o)))%nat) by (apply wrap_lvl; pose proof (prec_le_7 o); lia).
  destruct (fold_join_ok o r (wrap t0 (prec o)) (good_wrap _ _ G0) L0 Gr) as (P & Gt & _).
  split; [|exact Gt].
  rewrite P. cbn [map join_operands]. rewrite as_operand_print by assumption.
  rewrite map_map.
  rewrite (map_ext_in (fun x => as_operand (print3 x) (S (prec o))) (fun x => print3 (wrap x (S (prec o))))).
  - apply (join_cons_concat (sep_of o) (fun x => print3 (wrap x (S (prec o))))).
  - intros x Hin. apply as_operand_print. rewrite Forall_forall in Gr. apply Gr. exact Hin.
Qed.

(* ---------------------------------------------------------------------------------------------- *)
(* function calls: templates.  The meaning of a template is its parse with the placeholders replaced
   by the names __1, __2, ... ("holes"); the intended tree of a call is that shape with the operand
   trees substituted for the holes. *)

Definition hole (k : nat) : text := 95 :: 95 :: digits_of 20 (N.of_nat k).

Definition hole_index (n : text) : option nat :=
  match n with
  | 95 :: 95 :: ds =>
      match ds, digits_value 0 ds with
      | _ :: _, Some v => Some (N.to_nat v)
      | _, _ => None
      end
  | _ => None
  end.

Definition is_hole (s : e3) : bool :=
  match s with
  | X3Ref n => match hole_index n with Some _ => true | None => false end
  | _ => false
  end.

Fixpoint subst (ts : list e3) (s : e3) : e3 :=
  match s with
  | X3Ref n => match hole_index n with Some k => nth (Nat.pred k) ts X3Null | None => s end
  | X3Dot c l => X3Dot (subst ts c) l
  | X3Index c i => X3Index (subst ts c) (subst ts i)
  | X3Call f args => X3Call (subst ts f) (map (subst ts) args)
  | X3Paren e => X3Paren (subst ts e)
  | X3Neg e => X3Neg (subst ts e)
  | X3Bin o a b => X3Bin o (subst ts a) (subst ts b)
  | _ => s
  end.

(* asOperatorTemplate: operand i is wrapped to precedence precs[i] *)
Fixpoint wraps (ts : list e3) (precs : list nat) : list e3 :=
  match ts, precs with
  | t :: ts', q :: qs => wrap t q :: wraps ts' qs
  | _, _ => ts
  end.

(* the level a position is guaranteed to have after substitution *)
Definition hlvl (precs : list nat) (s : e3) : nat :=
  match s with
  | X3Ref n => match hole_index n with Some k => Nat.min 8 (nth (Nat.pred k) precs 0%nat) | None => 8%nat end
  | _ => lvl3 s
  end.

(* the shape stays precedence-stable whatever is substituted ("closed") *)
Fixpoint hwf (precs : list nat) (s : e3) : bool :=
  match s with
  | X3Dot c _ => is_atom c && negb (is_hole c) && hwf precs c
  | X3Index c i => is_atom c && negb (is_hole c) && hwf precs c && hwf precs i
  | X3Call f args => is_atom f && negb (is_hole f) && hwf precs f && forallb (hwf precs) args
  | X3Paren e => hwf precs e
  | X3Neg e => Nat.leb neg_prec (hlvl precs e) && hwf precs e
  | X3Bin o a b => Nat.leb (prec o) (hlvl precs a) && Nat.leb (S (prec o)) (hlvl precs b) && hwf precs a && hwf precs b
  | _ => true
  end.

Lemma wraps_length : forall ts precs, length (wraps ts precs) = length ts.
Proof. induction ts as [|t ts IH]; intros [|q qs]; cbn; try reflexivity. rewrite IH. reflexivity. Qed.

Lemma wraps_good : forall ts precs, Forall good ts -> Forall good (wraps ts precs).
Proof.
  induction ts as [|t ts IH]; intros [|q qs] G; cbn [wraps]; try assumption.
  inversion G; subst. constructor; [apply good_wrap; assumption | apply IH; assumption].
Qed.

Lemma wrap_lvl_min t p : (Nat.min 8 p <= lvl3 (wrap t p))%nat.
Proof.
  unfold wrap. destruct (Nat.ltb (lvl3 t) p) eqn:E; cbn [lvl3].
  - lia.
  - apply Nat.ltb_ge in E. lia.
Qed.

Lemma wraps_lvl : forall ts precs i, (Nat.min 8 (nth i precs 0%nat) <= lvl3 (nth i (wraps ts precs) X3Null))%nat.
Proof.
  induction ts as [|t ts IH]; intros precs i.
  - assert (E : nth i (wraps [] precs) X3Null = X3Null) by (destruct precs; destruct i; reflexivity).
    rewrite E. cbn [lvl3]. apply Nat.le_min_l.
  - destruct precs as [|q qs].
    + cbn [wraps]. assert (E : nth i (@nil nat) 0%nat = 0%nat) by (destruct i; reflexivity). rewrite E. lia.
    + cbn [wraps]. destruct i as [|i]; cbn [nth]; [apply wrap_lvl_min | apply IH].
Qed.

Lemma operands_of_wraps : forall ts precs, Forall good ts ->
  operands_of (map print3 ts) precs = map print3 (wraps ts precs).
Proof.
  induction ts as [|t ts IH]; intros [|q qs] G; cbn [map operands_of wraps]; try reflexivity.
  inversion G; subst. rewrite as_operand_print by assumption. rewrite IH by assumption. reflexivity.
Qed.

Lemma nth_good ts i : Forall good ts -> good (nth i ts X3Null).
Proof.
  intros G. destruct (Nat.lt_ge_cases i (length ts)) as [H|H].
  - rewrite Forall_forall in G. apply G. apply nth_In. exact H.
  - rewrite nth_overflow by exact H. split; reflexivity.
Qed.

Lemma subst_head_atom ts s : is_atom s = true -> is_hole s = false -> is_atom (subst ts s) = true.
Proof.
  destruct s; cbn [is_atom is_hole subst]; try discriminate; try reflexivity.
  intros _ H. destruct (hole_index name); [discriminate|reflexivity].
Qed.

Lemma subst_good precs ts :
  Forall good ts -> (forall i, (Nat.min 8 (nth i precs 0%nat) <= lvl3 (nth i ts X3Null))%nat) ->
  forall s, hwf precs s = true -> lex_ok s = true ->
  good (subst ts s) /\ (hlvl precs s <= lvl3 (subst ts s))%nat.
Proof.
  intros G L. induction s using e3_ind'; intros Hw Hl; cbn [subst hwf lex_ok hlvl] in *.
  - split; [split; [reflexivity|exact Hl] | cbn; lia].
  - split; [split; [reflexivity|exact Hl] | cbn; lia].
  - split; [split; reflexivity | cbn; lia].
  - split; [split; reflexivity | cbn; lia].
  - split; [split; reflexivity | cbn; lia].
  - destruct (hole_index n) as [k|].
    + split; [apply nth_good; exact G | apply L].
    + split; [split; [reflexivity|exact Hl] | cbn; lia].
  - apply andb_true_iff in Hw. destruct Hw as [Hw Hc]. apply andb_true_iff in Hw. destruct Hw as [Ha Hh].
    apply andb_true_iff in Hl. destruct Hl as [Hlc Hll].
    destruct (IHs Hc Hlc) as [[W X] _].
    apply negb_true_iff in Hh.
    split; [|cbn; lia]. split; cbn [wf3b lex_ok].
    + rewrite (subst_head_atom ts s Ha Hh), W. reflexivity.
    + rewrite X, Hll. reflexivity.
  - apply andb_true_iff in Hw. destruct Hw as [Hw Hi]. apply andb_true_iff in Hw. destruct Hw as [Hw Hc].
    apply andb_true_iff in Hw. destruct Hw as [Ha Hh].
    apply andb_true_iff in Hl. destruct Hl as [Hlc Hli].
    destruct (IHs1 Hc Hlc) as [[W1 X1] _]. destruct (IHs2 Hi Hli) as [[W2 X2] _].
    apply negb_true_iff in Hh.
    split; [|cbn; lia]. split; cbn [wf3b lex_ok].
    + rewrite (subst_head_atom ts s1 Ha Hh), W1, W2. reflexivity.
    + rewrite X1, X2. reflexivity.
  - apply andb_true_iff in Hw. destruct Hw as [Hw Hargs]. apply andb_true_iff in Hw. destruct Hw as [Hw Hf].
    apply andb_true_iff in Hw. destruct Hw as [Ha Hh].
    apply andb_true_iff in Hl. destruct Hl as [Hlf Hlargs].
    destruct (IHs Hf Hlf) as [[W X] _].
    apply negb_true_iff in Hh.
    assert (GA : Forall good (map (subst ts) args)).
    { rewrite forallb_Forall in Hargs, Hlargs. clear - H Hargs Hlargs.
      induction args as [|a r IH]; cbn [map]; [constructor|].
      inversion H; subst. inversion Hargs; subst. inversion Hlargs; subst.
      constructor; [apply H2; assumption | apply IH; assumption]. }
    split; [|cbn; lia]. split; cbn [wf3b lex_ok].
    + rewrite (subst_head_atom ts s Ha Hh), W. cbn [andb]. apply forallb_Forall.
      eapply Forall_impl; [|exact GA]. intros a [Q _]. exact Q.
    + rewrite X. cbn [andb]. apply forallb_Forall.
      eapply Forall_impl; [|exact GA]. intros a [_ Q]. exact Q.
  - destruct (IHs Hw Hl) as [[W X] _]. split; [split; assumption | cbn; lia].
  - apply andb_true_iff in Hw. destruct Hw as [Hlv Hw].
    destruct (IHs Hw Hl) as [Gs Ls]. apply Nat.leb_le in Hlv.
    split; [|cbn; lia]. apply good_neg; [exact Gs|]. unfold neg_prec in Hlv. lia.
  - apply andb_true_iff in Hw. destruct Hw as [Hw Hb]. apply andb_true_iff in Hw. destruct Hw as [Hw Ha].
    apply andb_true_iff in Hw. destruct Hw as [La Lb].
    apply andb_true_iff in Hl. destruct Hl as [Hla Hlb].
    destruct (IHs1 Ha Hla) as [Ga LLa]. destruct (IHs2 Hb Hlb) as [Gb LLb].
    apply Nat.leb_le in La. apply Nat.leb_le in Lb.
    split; [|cbn; lia]. apply good_bin; try assumption; lia.
Qed.

(* number of operands a template takes: sequential verbs, or the largest explicit index *)
Fixpoint pieces_arity (ps : list fpiece) (seq mx : nat) : nat :=
  match ps with
  | [] => Nat.max seq mx
  | FVerb None _ :: r => pieces_arity r (S seq) mx
  | FVerb (Some n) _ :: r => pieces_arity r seq (Nat.max mx n)
  | _ :: r => pieces_arity r seq mx
  end.

Definition tmpl_arity (f : text) : nat := pieces_arity (fmt_pieces (S (length f)) f) 0 0.

Definition tmpl_shape (f : text) : option e3 := canon (sprintf f (map hole (seq 1 (tmpl_arity f)))).

Definition tmpl_tree (f : text) (precs : list nat) (ts : list e3) : option e3 :=
  if Nat.eqb (length ts) (tmpl_arity f) then
    match tmpl_shape f with
    | Some s => if hwf precs s then Some (subst (wraps ts precs) s) else None
    | None => None
    end
  else None.

(* what the table obligation states for a template: instantiating it textually is printing the shape *)
Definition tmpl_closed (f : text) (precs : list nat) : Prop :=
  (count_sub t_pct_s f + count_sub t_pct_v f <= tmpl_arity f)%nat /\
  exists s, tmpl_shape f = Some s /\ hwf precs s = true /\
    forall ts, length ts = tmpl_arity f -> sprintf f (map print3 ts) = print3 (subst ts s).

Lemma tmpl_ok f precs ts t :
  tmpl_closed f precs -> num_template_params f = tmpl_arity f -> Forall good ts -> tmpl_tree f precs ts = Some t ->
  (if Nat.eqb (length (map print3 ts)) (num_template_params f) then Some (sprintf f (operands_of (map print3 ts) precs))
   else None) = Some (print3 t) /\ good t.
Proof.
  intros (Hc & s & Hs & Hw & Hp) Har G H. unfold tmpl_tree in H.
  destruct (Nat.eqb (length ts) (tmpl_arity f)) eqn:En; [|discriminate].
  rewrite map_length, Har, En.
  apply Nat.eqb_eq in En. rewrite Hs, Hw in H. inversion H; subst t. clear H.
  rewrite operands_of_wraps by assumption.
  split; [f_equal|].
  - apply Hp. rewrite wraps_length. exact En.
  - unfold tmpl_shape in Hs. apply canon_spec in Hs. destruct Hs as [_ [_ Hlex]].
    apply (subst_good precs (wraps ts precs) (wraps_good _ _ G) (wraps_lvl ts precs) s Hw Hlex).
Qed.

(* ---------------------------------------------------------------------------------------------- *)
(* the table obligation: every entry of the regenerated callMigrators table is closed *)

Fixpoint cmig_closed (fname : text) (m : cmig) : Prop :=
  match m with
  | AsIs => name_ok3 fname = true
  | Rename n => name_ok3 n = true
  | Template f precs => tmpl_closed f precs /\ num_template_params f = tmpl_arity f
  | Join sep p => exists o, join_op sep = Some o /\ p = prec o
  | Params n defaults pms => name_ok3 n = true
  | DateDif => True
  | Optional _ _ inner => cmig_closed fname inner
  end.

Definition entry_closed (e : text * cmig) : Prop := cmig_closed (fst e) (snd e).

Ltac solve_tmpl :=
  split; [vm_compute; repeat constructor |
    eexists; split; [vm_compute; reflexivity | split; [vm_compute; reflexivity |
      let ts := fresh "ts" in let H := fresh "H" in
      intros ts H; vm_compute in H;
      repeat (destruct ts as [|? ts]; cbn [length] in H; try (exfalso; lia));
      cbn; norm_app; rewrite ?app_nil_r; reflexivity]]].

Ltac solve_entry :=
  unfold entry_closed; cbn [cmig_closed snd fst];
  first [ reflexivity
        | exact I
        | (split; [solve_tmpl | vm_compute; reflexivity])
        | (eexists; split; [vm_compute; reflexivity | reflexivity]) ].

Lemma templates_closed : Forall entry_closed legacy_table.
Proof.
  unfold legacy_table.
  repeat (apply Forall_cons; [solve_entry|]). apply Forall_nil.
Qed.

Lemma lookup_In {A} k (l : list (text * A)) v : lookup k l = Some v -> exists k', In (k', v) l /\ k = k'.
Proof.
  induction l as [|[k0 v0] r IH]; cbn [lookup]; [discriminate|].
  destruct (text_eqb k k0) eqn:E.
  - intros H; inversion H; subst. exists k0. split; [left; reflexivity | apply text_eqb_eq; exact E].
  - intros H. destruct (IH H) as (k' & Hin & Hk). exists k'. split; [right; exact Hin | exact Hk].
Qed.

(* ---------------------------------------------------------------------------------------------- *)
(* the intended tree of a call *)

(* DATEDIF: the unit literal y / m / d in either case is written in upper case *)
Definition unit_tree (u : e3) : e3 :=
  let l := lower (print3 u) in
  if text_eqb l [34; 121; 34] then X3Text [34; 89; 34]
  else if text_eqb l [34; 109; 34] then X3Text [34; 77; 34]
  else if text_eqb l [34; 100; 34] then X3Text [34; 68; 34]
  else u.

Definition datedif_trees (ts : list e3) : list e3 :=
  match ts with
  | [a; b; u] => [a; b; unit_tree u]
  | _ => ts
  end.

Lemma unit_tree_ok u : good u -> print3 (unit_tree u) = datedif_unit (print3 u) /\ good (unit_tree u).
Proof.
  intros G. unfold unit_tree, datedif_unit.
  destruct (text_eqb (lower (print3 u)) [34; 121; 34]); [split; [reflexivity | split; reflexivity]|].
  destruct (text_eqb (lower (print3 u)) [34; 109; 34]); [split; [reflexivity | split; reflexivity]|].
  destruct (text_eqb (lower (print3 u)) [34; 100; 34]); [split; [reflexivity | split; reflexivity]|].
  split; [reflexivity | exact G].
Qed.

Lemma datedif_trees_ok ts : Forall good ts ->
  map print3 (datedif_trees ts) = datedif_params (map print3 ts) /\ Forall good (datedif_trees ts).
Proof.
  intros G. destruct ts as [|a [|b [|u [|x r]]]]; try (split; [reflexivity | exact G]).
  inversion G as [|? ? Ga G1]; subst. inversion G1 as [|? ? Gb G2]; subst. inversion G2 as [|? ? Gu G3]; subst.
  destruct (unit_tree_ok u Gu) as [P Gt]. cbn [datedif_trees map datedif_params]. rewrite P.
  split; [reflexivity | repeat (constructor; try assumption)].
Qed.

(* omitted optional parameters are filled in with the (canonically spelled) defaults *)
Definition with_default_trees (required : nat) (defaults : list text) (ts : list e3) : option (list e3) :=
  if Nat.leb required (length ts) && Nat.ltb (length ts) (required + length defaults)
  then option_map (app ts) (all_some (map canon (skipn (length ts - required) defaults)))
  else Some ts.

Lemma with_default_trees_ok required defaults ts ts' : Forall good ts ->
  with_default_trees required defaults ts = Some ts' ->
  with_defaults required defaults (map print3 ts) = map print3 ts' /\ Forall good ts'.
Proof.
  intros G H. unfold with_default_trees in H. unfold with_defaults. rewrite map_length.
  destruct (Nat.leb required (length ts) && Nat.ltb (length ts) (required + length defaults)).
  - destruct (all_some (map canon (skipn (length ts - required) defaults))) as [ds|] eqn:Ea; [|discriminate].
    cbn [option_map] in H. inversion H; subst ts'. destruct (all_some_canon _ _ Ea) as [E Gd].
    rewrite E, map_app. split; [reflexivity | apply Forall_app; split; assumption].
  - inversion H; subst ts'. split; [reflexivity | exact G].
Qed.

Fixpoint cmig_tree (m : cmig) (fname : text) (ts : list e3) : option e3 :=
  match m with
  | AsIs => Some (call3 fname ts)
  | Rename n => Some (call3 n ts)
  | Template f precs => tmpl_tree f precs ts
  | Join sep p => match join_op sep with Some o => join_tree o ts | None => None end
  | Params n defaults pms =>
      if Nat.leb (length ts) (length pms) then option_map (call3 n) (params_tree pms ts defaults) else None
  | DateDif => Some (call3 t_datetime_diff (datedif_trees ts))
  | Optional required defaults inner =>
      match with_default_trees required defaults ts with
      | Some ts' => cmig_tree inner fname ts'
      | None => None
      end
  end.

Lemma cmig_ok : forall m fname ts t,
  cmig_closed fname m -> Forall good ts -> cmig_tree m fname ts = Some t ->
  migrate_cmig m fname (map print3 ts) = Some (print3 t) /\ good t.
Proof.
  induction m as [|n|f precs|sep p|n defaults pms| |required defaults inner IH]; intros fname ts t TC G H;
    cbn [cmig_closed cmig_tree migrate_cmig] in *.
  - inversion H; subst t. split; [rewrite print3_call3; reflexivity | apply good_call3; assumption].
  - inversion H; subst t. split; [rewrite print3_call3; reflexivity | apply good_call3; assumption].
  - destruct TC as [TC Har]. apply (tmpl_ok f precs ts t TC Har G H).
  - destruct TC as (o & Ho & Hp). rewrite Ho in H. subst p.
    destruct (join_ok sep o ts t Ho G H) as [P Gt]. destruct ts as [|t0 r]; [discriminate|].
    cbn [map]. cbn [map] in P. rewrite P. split; [reflexivity | exact Gt].
  - rewrite map_length. destruct (Nat.leb (length ts) (length pms)) eqn:E; [|discriminate].
    apply Nat.leb_le in E.
    assert (E' : Nat.ltb (length pms) (length ts) = false) by (apply Nat.ltb_ge; exact E). rewrite E'.
    destruct (params_tree pms ts defaults) as [ps|] eqn:Ep; [|discriminate].
    cbn [option_map] in H. inversion H; subst t.
    destruct (params_tree_ok _ _ _ _ G Ep) as [P Gp].
    rewrite P. cbn [option_map]. split; [rewrite print3_call3; reflexivity | apply good_call3; assumption].
  - inversion H; subst t. destruct (datedif_trees_ok ts G) as [P Gd].
    split; [rewrite print3_call3, P; reflexivity | apply good_call3; [reflexivity | exact Gd]].
  - destruct (with_default_trees required defaults ts) as [ts'|] eqn:Ew; [|discriminate].
    destruct (with_default_trees_ok _ _ _ _ G Ew) as [P G']. rewrite P. apply IH; assumption.
Qed.

Definition call_tree (fname : text) (ts : list e3) : option e3 :=
  match lookup fname legacy_table with
  | None => if name_ok3 fname then Some (call3 fname ts) else None
  | Some m => cmig_tree m fname ts
  end.

Lemma call_ok fname ts t :
  Forall good ts -> call_tree fname ts = Some t ->
  migrate_call fname (map print3 ts) = Some (print3 t) /\ good t.
Proof.
  intros G H. unfold call_tree in H. unfold migrate_call, migrate_call_with.
  destruct (lookup fname legacy_table) as [m|] eqn:El.
  - destruct (lookup_In _ _ _ El) as (k' & Hin & Hk). subst k'.
    pose proof templates_closed as TC. rewrite Forall_forall in TC. specialize (TC _ Hin).
    unfold entry_closed in TC. cbn [fst snd] in TC. apply cmig_ok; assumption.
  - destruct (name_ok3 fname) eqn:En; [|discriminate]. inversion H; subst t.
    split; [rewrite print3_call3; reflexivity | apply good_call3; assumption].
Qed.

(* ---------------------------------------------------------------------------------------------- *)
(* the intended tree of a legacy expression, and the main lemma *)

Section Main.
  Variable ctxmap : text -> text.
  Variable raw_dates : bool.

  Fixpoint mt (e : e1) : option e3 :=
    match e with
    | E1Dec raw => if num_ok raw then Some (X3Num raw) else None
    | E1Str raw => let m := migrate_string_literal raw in if text_ok m then Some (X3Text m) else None
    | E1True => Some X3True
    | E1False => Some X3False
    | E1Ref n => canon (ctxmap n)
    | E1Paren x => option_map X3Paren (mt x)
    | E1Neg x => option_map (fun t => X3Neg (wrap t 7)) (mt x)
    | E1Bin o a b =>
        match mt a, mt b with
        | Some ta, Some tb =>
            Some (match o with
                  | OAdd => additive_tree raw_dates false (print3 ta) (print3 tb) ta tb
                  | OSub => additive_tree raw_dates true (print3 ta) (print3 tb) ta tb
                  | _ => X3Bin o (wrap ta (prec o)) (wrap tb (S (prec o)))
                  end)
        | _, _ => None
        end
    | E1Call f args =>
        match all_some (map mt args) with
        | Some ts => call_tree (lower f) ts
        | None => None
        end
    end.

  Definition vis_ok (a : e1) : Prop :=
    forall t, mt a = Some t -> visit ctxmap raw_dates a = print3 t /\ good t /\ visit_errs ctxmap raw_dates a = false.

  Lemma all_some_ok args :
    Forall vis_ok args ->
    forall ts, all_some (map mt args) = Some ts ->
    map (visit ctxmap raw_dates) args = map print3 ts /\ Forall good ts
    /\ existsb (visit_errs ctxmap raw_dates) args = false.
  Proof.
    induction 1 as [|a r Ha Hr IH]; intros ts H; cbn [map all_some] in H.
    - inversion H; subst. split; [reflexivity|split; [constructor|reflexivity]].
    - destruct (mt a) as [ta|] eqn:Ea; [|discriminate].
      destruct (all_some (map mt r)) as [xs|] eqn:Er; [|discriminate].
      inversion H; subst ts. destruct (Ha ta Ea) as (P & G & V). destruct (IH xs eq_refl) as (P' & G' & V').
      split; [cbn [map]; rewrite P, P'; reflexivity | split; [constructor; assumption|]].
      cbn [existsb]. rewrite V, V'. reflexivity.
  Qed.

  Lemma visit_mt_strong : forall e, vis_ok e.
  Proof.
    induction e using e1_ind'; intros t Hmt; cbn [mt visit visit_errs] in *.
    - (* string literal *)
      destruct (text_ok (migrate_string_literal raw)) eqn:E; [|discriminate]. inversion Hmt; subst.
      split; [reflexivity | split; [split; [reflexivity | exact E] | reflexivity]].
    - destruct (num_ok raw) eqn:E; [|discriminate]. inversion Hmt; subst.
      split; [reflexivity | split; [split; [reflexivity | exact E] | reflexivity]].
    - inversion Hmt; subst. split; [reflexivity | split; [split; reflexivity | reflexivity]].
    - inversion Hmt; subst. split; [reflexivity | split; [split; reflexivity | reflexivity]].
    - apply canon_spec in Hmt. destruct Hmt as [E G]. split; [exact E | split; [exact G | reflexivity]].
    - destruct (mt e) as [te|] eqn:Em; [|discriminate]. cbn [option_map] in Hmt. inversion Hmt; subst.
      destruct (IHe te Em) as (P & [W L] & V).
      split; [cbn [print3]; rewrite P; reflexivity | split; [split; assumption | exact V]].
    - destruct (mt e) as [te|] eqn:Em; [|discriminate]. cbn [option_map] in Hmt. inversion Hmt; subst.
      destruct (IHe te Em) as (P & G & V). change prec_negation with 7%nat. rewrite P, as_operand_print by assumption.
      split; [reflexivity|]. split; [|exact V]. apply good_neg; [apply good_wrap; assumption | apply wrap_lvl; lia].
    - destruct (mt e1) as [ta|] eqn:Em1; [|discriminate]. destruct (mt e2) as [tb|] eqn:Em2; [|discriminate].
      destruct (IHe1 ta Em1) as (Pa & Ga & Va). destruct (IHe2 tb Em2) as (Pb & Gb & Vb).
      inversion Hmt; subst t. rewrite Pa, Pb, Va, Vb.
      assert (Gen : forall o', as_operand (print3 ta) (go_prec_of_op o') ++ 32 :: op_text o' ++ 32 :: as_operand (print3 tb) (S (go_prec_of_op o'))
                     = print3 (X3Bin o' (wrap ta (prec o')) (wrap tb (S (prec o'))))
                    /\ good (X3Bin o' (wrap ta (prec o')) (wrap tb (S (prec o'))))).
      { intros o'. rewrite go_prec_of_op_is_prec, !as_operand_print by assumption. split; [reflexivity|].
        apply good_bin; try (apply good_wrap; assumption); apply wrap_lvl; pose proof (prec_le_7 o'); lia. }
      assert (Two : forall A B : Prop, A /\ B -> A /\ B /\ false || false = false) by (intros A B [a b]; repeat split; assumption).
      destruct o; apply Two; try apply Gen; apply additive_ok; assumption.
    - destruct (all_some (map mt args)) as [ts|] eqn:Ea; [|discriminate].
      destruct (all_some_ok args H ts Ea) as (P & G & V). rewrite P, V.
      destruct (call_ok (lower f) ts t G Hmt) as [Pc Gc]. rewrite Pc.
      split; [reflexivity | split; [exact Gc | reflexivity]].
  Qed.

  Lemma visit_mt : forall e t, mt e = Some t -> visit ctxmap raw_dates e = print3 t /\ good t.
  Proof. intros e t H. destruct (visit_mt_strong e t H) as (P & G & _). split; assumption. Qed.

  Lemma mt_no_errs : forall e t, mt e = Some t -> visit_errs ctxmap raw_dates e = false.
  Proof. intros e t H. destruct (visit_mt_strong e t H) as (_ & _ & V). exact V. Qed.

  (* the migrated text re-parses to the intended tree *)
  Theorem grouping : forall e t, mt e = Some t -> parse3 (visit ctxmap raw_dates e) = Some t.
  Proof.
    intros e t H. destruct (visit_mt e t H) as [P [W L]]. rewrite P. apply parse3_print3; assumption.
  Qed.
End Main.

(* ---------------------------------------------------------------------------------------------- *)
(* string literals *)

(* legacy literal syntax: quotes doubled, nothing else escaped *)
Fixpoint double_quotes (s : text) : text :=
  match s with
  | [] => []
  | c :: r => if c =? c_dquote then c_dquote :: c_dquote :: double_quotes r else c :: double_quotes r
  end.
Definition legacy_quote (s : text) : text := c_dquote :: double_quotes s ++ [c_dquote].

(* what the migrated literal should look like: quotes escaped by a backslash *)
Fixpoint escape_quotes (s : text) : text :=
  match s with
  | [] => []
  | c :: r => if c =? c_dquote then c_bslash :: c_dquote :: escape_quotes r else c :: escape_quotes r
  end.

Lemma replace_dq_double s : replace_dq (double_quotes s) = escape_quotes s.
Proof.
  induction s as [|c r IH]; [reflexivity|]. cbn [double_quotes escape_quotes].
  destruct (c =? c_dquote) eqn:E.
  - cbn [replace_dq]. rewrite N.eqb_refl. cbn [andb]. rewrite IH. reflexivity.
  - cbn [replace_dq]. rewrite E. cbn [andb]. rewrite IH.
    destruct (double_quotes r) eqn:Ed; [|reflexivity].
    rewrite <- IH. reflexivity.
Qed.

Lemma removelast_app1 {A} (l : list A) x : removelast (l ++ [x]) = l.
Proof. apply removelast_last. Qed.

Lemma migrate_legacy_quote s : migrate_string_literal (legacy_quote s) = c_dquote :: escape_quotes s ++ [c_dquote].
Proof.
  unfold migrate_string_literal, legacy_quote. cbn [tl]. rewrite removelast_app1, replace_dq_double. reflexivity.
Qed.

Definition plain_char (c : N) : Prop := c <> c_bslash /\ c <> 10.

(* the Excellent3 reading of a migrated literal (strconv.Unquote; model/LegacyCorr.v chars3) gives back the
   characters of the legacy literal, for literals without backslash and without raw newline *)
Lemma unquote_escape : forall s f acc,
  Forall plain_char s -> (length (escape_quotes s) < f)%nat ->
  unquote_loop f (escape_quotes s ++ [34]) acc false = UOk (rev acc ++ s).
Proof.
  induction s as [|c r IH]; intros f acc Hp Hf.
  - destruct f as [|f]; [cbn in Hf; lia|]. cbn. rewrite app_nil_r. reflexivity.
  - inversion Hp as [|? ? [Hb Hn] Hr]; subst. cbn [escape_quotes] in *.
    destruct (c =? c_dquote) eqn:E.
    + apply N.eqb_eq in E. subst c.
      destruct f as [|f]; [cbn in Hf; lia|].
      change ((c_bslash :: c_dquote :: escape_quotes r) ++ [34]) with (92 :: 34 :: escape_quotes r ++ [34]).
      rewrite loop_bs. cbn [unquote_char N.eqb Pos.eqb N.leb N.compare Pos.compare Pos.compare_cont negb].
      replace (octdig 34) with (@None N) by reflexivity. cbn iota. change (34 <? 128) with true. cbn [orb].
      rewrite IH; [|assumption|cbn [length] in Hf; lia].
      cbn [rev]. rewrite <- app_assoc. reflexivity.
    + destruct f as [|f]; [cbn in Hf; lia|].
      change ((c :: escape_quotes r) ++ [34]) with (c :: escape_quotes r ++ [34]).
      unfold c_dquote in E. unfold c_bslash in Hb.
      rewrite loop_raw by lia.
      rewrite IH; [|assumption|cbn [length] in Hf; lia].
      cbn [rev]. rewrite <- app_assoc. reflexivity.
Qed.

Theorem literals_partial : forall s, Forall plain_char s ->
  chars3 (migrate_string_literal (legacy_quote s)) = Some s.
Proof.
  intros s Hp. rewrite migrate_legacy_quote. unfold chars3, unquote.
  destruct (escape_quotes s ++ [c_dquote]) as [|x l] eqn:El.
  { destruct (escape_quotes s); discriminate El. }
  rewrite <- El. change (c_dquote =? 34) with true. cbn iota.
  rewrite (unquote_escape s _ [] Hp).
  - reflexivity.
  - rewrite app_length. cbn. lia.
Qed.

(* ... and the Excellent3 lexer reads the migrated literal as one TEXT token *)
Lemma quotes_escaped_escape : forall s pb, Forall (fun c => c <> c_bslash) s ->
  quotes_escaped pb (escape_quotes s) = match s with [] => negb pb | _ => true end.
Proof.
  induction s as [|c r IH]; intros pb Hp; [reflexivity|].
  inversion Hp as [|? ? Hb Hr]; subst. cbn [escape_quotes].
  destruct (c =? c_dquote) eqn:E.
  - cbn [quotes_escaped]. unfold c_bslash, c_dquote. cbn [N.eqb Pos.eqb]. rewrite IH by assumption.
    destruct r; reflexivity.
  - cbn [quotes_escaped]. rewrite E. rewrite IH by assumption.
    destruct r; [|reflexivity]. cbn [negb]. unfold c_bslash in *. lia.
Qed.

Lemma text_eqb_refl a : text_eqb a a = true.
Proof. induction a as [|x r IH]; [reflexivity|]. cbn [text_eqb]. rewrite N.eqb_refl, IH. reflexivity. Qed.

Theorem literal_text_ok : forall s, Forall (fun c => c <> c_bslash) s ->
  text_ok (migrate_string_literal (legacy_quote s)) = true.
Proof.
  intros s Hp. rewrite migrate_legacy_quote. unfold text_ok. cbn [tl]. rewrite removelast_app1.
  rewrite text_eqb_refl. cbn [andb]. rewrite quotes_escaped_escape by assumption. destruct s; reflexivity.
Qed.

(* a backslash in the literal changes its meaning (finding F14c); so does a raw newline next to a quote *)
Theorem literals_refuted_backslash :
  exists s, chars3 (migrate_string_literal (legacy_quote s)) <> Some s.
Proof. exists [97; 92; 98]. vm_compute. discriminate. Qed.

Theorem literals_refuted_newline_quote :
  exists s, Forall (fun c => c <> c_bslash) s /\ chars3 (migrate_string_literal (legacy_quote s)) <> Some s.
Proof.
  exists [97; 10; 34; 98]. split.
  - repeat constructor; discriminate.
  - vm_compute. discriminate.
Qed.

Example literals_partial_nontrivial :
  Forall plain_char [97; 34; 34; 32; 233; 34] /\
  migrate_string_literal (legacy_quote [97; 34; 34; 32; 233; 34]) = [34; 97; 92; 34; 92; 34; 32; 233; 92; 34; 34].
Proof. split; [repeat constructor; discriminate | reflexivity]. Qed.

(* ---------------------------------------------------------------------------------------------- *)
(* templates: text outside expressions *)

Section Template.
  Variable ctxmap : text -> text.
  Variable raw_dates default_to_self url_encode : bool.
  Variable printable : N -> bool.
  Variable isln : N -> bool.
  Variable lower_rune : N -> N.

  Let mseg := migrate_seg ctxmap raw_dates default_to_self url_encode printable isln lower_rune.
  Let mtpl := migrate_template ctxmap raw_dates default_to_self url_encode printable isln lower_rune.
  Let sep := separate_from isln lower_rune.

  (* every token paired with the text of the body token that follows it (empty if none) *)
  Fixpoint with_following (segs : list seg) : list (seg * text) :=
    match segs with
    | [] => []
    | s :: r => (s, following_of r) :: with_following r
    end.

  (* the output is the concatenation of the per-token outputs, a body token contributes exactly itself and
     never an error *)
  Theorem body_unchanged : forall segs,
    fst (mtpl segs) = concat (map (fun p => fst (mseg (fst p) (snd p))) (with_following segs))
    /\ snd (mtpl segs) = existsb (fun p => snd (mseg (fst p) (snd p))) (with_following segs)
    /\ forall t f, mseg (SBody t) f = (t, false).
  Proof.
    intros segs. split; [|split].
    - induction segs as [|s r IH]; [reflexivity|].
      unfold mtpl in *. cbn [migrate_template with_following map concat fst snd].
      fold mseg. destruct (mseg s (following_of r)) as [o e].
      destruct (migrate_template ctxmap raw_dates default_to_self url_encode printable isln lower_rune r) as [o' e'].
      cbn [fst] in *. rewrite IH. reflexivity.
    - induction segs as [|s r IH]; [reflexivity|].
      unfold mtpl in *. cbn [migrate_template with_following existsb fst snd].
      fold mseg. destruct (mseg s (following_of r)) as [o e].
      destruct (migrate_template ctxmap raw_dates default_to_self url_encode printable isln lower_rune r) as [o' e'].
      cbn [snd] in *. rewrite IH. reflexivity.
    - reflexivity.
  Qed.

  (* a template without identifiers and expressions migrates to itself *)
  Corollary body_only : forall ts, mtpl (map SBody ts) = (concat ts, false).
  Proof.
    induction ts as [|t r IH]; [reflexivity|].
    unfold mtpl in *. cbn [map migrate_template migrate_seg]. rewrite IH. reflexivity.
  Qed.

  (* separateFrom either leaves the wrapped expression alone or turns @x into @(x) *)
  Lemma separate_from_cases w f :
    sep w f = w \/ sep w f = 64 :: 40 :: tl w ++ [41].
  Proof.
    unfold sep, separate_from. destruct (negb separates_identifiers); [left; reflexivity|].
    destruct (is_prefix [64; 40] w); [left; reflexivity|].
    destruct (ExScanner.scan isln lower_rune (Some run_top_levels) true (ExScanner.new_input (w ++ f))) as [[[ty tok] i]| |];
      try (right; reflexivity).
    destruct ty; try (right; reflexivity).
    destruct (text_eqb tok (tl w)); [left|right]; reflexivity.
  Qed.

  (* an expression token that migrates (legacy parse ok, intended tree defined) becomes @( text ) where text
     re-parses to the intended tree; every expression of the output parses *)
  Theorem expr_parses : forall s e t following,
    default_to_self = false -> url_encode = false ->
    text_eqb s t_empty_literal = false ->
    parse1 s = Some e -> mt ctxmap raw_dates e = Some t ->
    expression_size_ok s = true ->
    too_long ctxmap raw_dates (max_migrated_length s) e = false ->
    exists body, mseg (SExpr s) following = (64 :: body, false) /\
      (body = print3 t \/ body = 40 :: print3 t ++ [41]) /\
      parse3 (print3 t) = Some t.
  Proof.
    intros s e t following Hd Hu Hne Hp Hm Hsize Hcap. unfold mseg, migrate_seg, migrate_expression.
    rewrite Hne, Hsize, Hp, Hd, Hu, (mt_no_errs ctxmap raw_dates e t Hm), Hcap. cbn [orb negb].
    destruct (visit_mt ctxmap raw_dates e t Hm) as [Pv [W L]].
    rewrite Pv, (parse3_print3 t W L). unfold wrap_raw.
    destruct (is_valid_identifier (print3 t)).
    - destruct (separate_from_cases (64 :: print3 t) following) as [E|E]; fold sep; rewrite E.
      + eexists. split; [reflexivity|]. split; [left; reflexivity | first [reflexivity | apply parse3_print3; assumption]].
      + eexists. split; [reflexivity|]. split; [right; reflexivity | first [reflexivity | apply parse3_print3; assumption]].
    - destruct (separate_from_cases (64 :: 40 :: print3 t ++ [41]) following) as [E|E]; fold sep; rewrite E.
      + eexists. split; [reflexivity|]. split; [right; reflexivity | first [reflexivity | apply parse3_print3; assumption]].
      + exfalso. revert E. unfold sep, separate_from. destruct (negb separates_identifiers).
        * intros E. apply (f_equal (@length N)) in E. cbn in E. rewrite !app_length in E. cbn in E. lia.
        * cbn [is_prefix]. rewrite !N.eqb_refl. cbn [andb].
          intros E. apply (f_equal (@length N)) in E. cbn in E. rewrite !app_length in E. cbn in E. lia.
  Qed.

  (* the same for an @identifier token whose migration is a canonically printed expression *)
  Theorem ident_parses : forall n tr following,
    default_to_self = false -> url_encode = false ->
    canon (ctxmap n) = Some tr ->
    exists body, mseg (SIdent n) following = (64 :: body, false) /\
      (body = print3 tr \/ body = 40 :: print3 tr ++ [41]) /\
      parse3 (print3 tr) = Some tr.
  Proof.
    intros n tr following Hd Hu Hc. apply canon_spec in Hc. destruct Hc as [E [W L]].
    unfold mseg, migrate_seg. rewrite Hd, Hu, E. unfold wrap_raw.
    destruct (is_valid_identifier (print3 tr)).
    - destruct (separate_from_cases (64 :: print3 tr) following) as [E'|E']; fold sep; rewrite E'.
      + eexists. split; [reflexivity|]. split; [left; reflexivity | apply parse3_print3; assumption].
      + eexists. split; [reflexivity|]. split; [right; reflexivity | apply parse3_print3; assumption].
    - destruct (separate_from_cases (64 :: 40 :: print3 tr ++ [41]) following) as [E'|E']; fold sep; rewrite E'.
      + eexists. split; [reflexivity|]. split; [right; reflexivity | apply parse3_print3; assumption].
      + exfalso. revert E'. unfold sep, separate_from. destruct (negb separates_identifiers).
        * intros E'. apply (f_equal (@length N)) in E'. cbn in E'. rewrite !app_length in E'. cbn in E'. lia.
        * cbn [is_prefix]. rewrite !N.eqb_refl. cbn [andb].
          intros E'. apply (f_equal (@length N)) in E'. cbn in E'. rewrite !app_length in E'. cbn in E'. lia.
  Qed.
End Template.

(* ---------------------------------------------------------------------------------------------- *)
(* the hypotheses are satisfiable: a nested legacy expression with every kind of migrator *)

Definition ex_ctx (n : text) : text :=
  if text_eqb n (s2t "contact.age"%string) then s2t "fields.age"%string else lower n.

Definition ex_legacy : text :=
  s2t "2 * SUM(1, POWER(contact.age + 1, 2)) - 10 ^ -RIGHT(""a""""b"", 1 + 1) & WORD(CONCATENATE(""x"", 1 = 1), contact.age & 1, TRUE)"%string.

Definition ex_migrated : text :=
  s2t "legacy_add(2 * (1 + legacy_add(fields.age, 1) ^ 2), -(10 ^ -text_slice(""a\""b"", -(1 + 1)))) & word(""x"" & 1 = 1, (fields.age & 1) - 1, "" \t"")"%string.

Example ex_grouping :
  exists e t, parse1 ex_legacy = Some e /\ mt ex_ctx false e = Some t /\
    visit ex_ctx false e = ex_migrated /\ parse3 ex_migrated = Some t.
Proof.
  destruct (parse1 ex_legacy) as [e|] eqn:Ep; [|vm_compute in Ep; discriminate].
  destruct (mt ex_ctx false e) as [t|] eqn:Em.
  - exists e, t. split; [reflexivity|]. split; [exact Em|].
    pose proof (grouping ex_ctx false e t Em) as G.
    assert (V : visit ex_ctx false e = ex_migrated).
    { vm_compute in Ep. inversion Ep; subst e. vm_compute. reflexivity. }
    rewrite V in G. split; assumption.
  - vm_compute in Ep. inversion Ep; subst e. vm_compute in Em. discriminate.
Qed.

(* ---------------------------------------------------------------------------------------------- *)
(* coverage of the hypothesis [mt e = Some _] on the cases of a correspondence run (evaluated next to the
   model/implementation comparison: on the inputs the driver marks as clean — known functions, right number
   of arguments, no backslash in literals — the intended tree must exist, so that c17_grouping speaks about
   them) *)

Definition hyp_seg (ctx : text -> text) (raw_dates : bool) (s : seg) : bool :=
  match s with
  | SBody _ => true
  | SIdent t => match canon (ctx t) with Some _ => true | None => false end
  | SExpr t =>
      if text_eqb t t_empty_literal then true
      else match parse1 t with
           | Some e => match mt ctx raw_dates e with
                       | Some _ => expression_size_ok t && negb (too_long ctx raw_dates (max_migrated_length t) e)
                       | None => false
                       end
           | None => false
           end
  end.

Definition check_hyp (k : lcase) : bool :=
  forallb (hyp_seg (ctx_of (k_ctx k)) (k_raw_dates k)) (k_segs k).

Fixpoint hyp_mismatches_from (i : N) (ks : list (lcase * bool)) : list N :=
  match ks with
  | [] => []
  | (k, clean) :: rest =>
      (if (if clean then check_hyp k else true) then [] else [i]) ++ hyp_mismatches_from (i + 1) rest
  end.

Definition hyp_mismatches (ks : list (lcase * bool)) : list N := hyp_mismatches_from 0 ks.

(* ---------------------------------------------------------------------------------------------- *)
(* the re-shaped functions against an independent specification: for each legacy function a sample call
   with atomic operands a1, a2, ... and the Excellent3 expression it means (new function name, argument
   order, constants, zero-based positions), written from the legacy function reference (Excel semantics)
   and the documentation of the new functions — not from callMigrators.  Together with [grouping] (every
   operand stays one subtree wherever the template puts it) this fixes the intended tree of every call.
   It pins WHICH target expression a call becomes; it does not say that the target computes the legacy value:
   for several lines it does not (mod and MOD differ in sign, round_down and ROUNDDOWN on negatives,
   text_slice(a, -0), replace's count vs SUBSTITUTE's instance, format_number's flag vs FIXED's, ...: the
   known findings legacy-value:* of KNOWN_FINDINGS.txt, demonstrated by the driver from the legacy engine's
   recorded outputs). *)

Definition legacy_spec : list (String.string * String.string) := [
  ("ABS(a1)", "abs(a1)");
  ("AND(a1, a2)", "and(a1, a2)");
  ("AVERAGE(a1, a2)", "mean(a1, a2)");
  ("CHAR(a1)", "char(a1)");
  ("CLEAN(a1)", "clean(a1)");
  ("CODE(a1)", "code(a1)");
  ("CONCATENATE(a1, a2, a3)", "(a1 & a2) & a3");
  ("DATE(a1, a2, a3)", "date_from_parts(a1, a2, a3)");
  ("DATEDIF(a1, a2, a3)", "datetime_diff(a1, a2, a3)");
  ("DAY(a1)", "format_date(a1, ""D"")");
  ("DAYS(a1, a2)", "datetime_diff(a2, a1, ""D"")");
  ("EPOCH(a1)", "epoch(a1)");
  ("EXP(a1)", "2.718281828459045 ^ a1");
  ("FALSE()", "false");
  ("FIELD(a1, a2, a3)", "field(a1, a2 - 1, a3)");
  ("FIELD(a1, 2, a3)", "field(a1, 1, a3)");
  ("FIXED(a1)", "format_number(a1, 2)");
  ("FIXED(a1, a2)", "format_number(a1, a2)");
  ("FORMAT_DATE(a1)", "format_datetime(a1)");
  ("FORMAT_LOCATION(a1)", "format_location(a1)");
  ("IF(a1, a2, a3)", "if(a1, a2, a3)");
  ("INT(a1)", "round_down(a1)");
  ("LEFT(a1, a2)", "text_slice(a1, 0, a2)");
  ("LEN(a1)", "text_length(a1)");
  ("LOWER(a1)", "lower(a1)");
  ("MAX(a1, a2)", "max(a1, a2)");
  ("MIN(a1, a2)", "min(a1, a2)");
  ("MINUTE(a1)", "format_datetime(a1, ""m"")");
  ("MONTH(a1)", "format_date(a1, ""M"")");
  ("NOW()", "now()");
  ("OR(a1, a2)", "or(a1, a2)");
  ("PERCENT(a1)", "percent(a1)");
  ("POWER(a1, a2)", "a1 ^ a2");
  ("RAND()", "rand()");
  ("RANDBETWEEN(a1, a2)", "rand_between(a1, a2)");
  ("REGEX_GROUP(a1, a2, a3)", "regex_match(a1, a2, a3)");
  ("REMOVE_FIRST_WORD(a1)", "remove_first_word(a1)");
  ("REPT(a1, a2)", "repeat(a1, a2)");
  ("ROUND(a1, a2)", "round(a1, a2)");
  ("SECOND(a1)", "format_datetime(a1, ""s"")");
  ("SUM(a1, a2, a3)", "(a1 + a2) + a3");
  ("TIME(a1, a2, a3)", "time_from_parts(a1, a2, a3)");
  ("TIMEVALUE(a1)", "time(a1)");
  ("TODAY()", "today()");
  ("TRUE()", "true");
  ("UNICHAR(a1)", "char(a1)");
  ("UNICODE(a1)", "code(a1)");
  ("UPPER(a1)", "upper(a1)");
  ("WEEKDAY(a1)", "weekday(a1) + 1");
  ("WORD(a1, 3)", "word(a1, 2)");
  ("WORD_COUNT(a1)", "word_count(a1)");
  ("WORD_COUNT(a1, TRUE)", "word_count(a1, "" \t"")");
  ("WORD_SLICE(a1, 2, 4, TRUE)", "word_slice(a1, 1, 3, "" \t"")");
  ("YEAR(a1)", "format_date(a1, ""YYYY"")");
  ("FIELD(a1)", "field(a1)");
  ("FIELD(a1, a2)", "field(a1, a2 - 1, "" "")");
  ("WORD(a1)", "word(a1)");
  ("WORD_SLICE(a1)", "word_slice(a1)");
  ("WORD_COUNT(a1, FALSE)", "word_count(a1, NULL)");
  ("SUM(a1)", "a1");
  ("SUM(a1, a2)", "a1 + a2");
  ("CONCATENATE(a1)", "a1");
  ("CONCATENATE(a1, a2)", "a1 & a2");
  ("WORD(a1, -1)", "word(a1, -1)");
  ("NOW() + 1", "datetime_add(now(), 1, ""D"")");
  ("NOW() - 1", "datetime_add(now(), -1, ""D"")");
  ("TODAY() + 1", "format_date(datetime_add(today(), 1, ""D""))");
  ("TODAY() - 7", "format_date(datetime_add(today(), -7, ""D""))");
  ("TODAY() + TIME(1, 2, 3)", "replace_time(today(), time_from_parts(1, 2, 3))");
  ("NOW() - (a1 + 1)", "legacy_add(now(), -(legacy_add(a1, 1)))");
  ("1.5 + 2", "legacy_add(1.5, 2)");
  ("ABS(a1) + 2", "abs(a1) + 2");
  ("2 - ABS(a1) * 3", "2 - abs(a1) * 3");
  ("a1 - ABS(a2) * 3", "legacy_add(a1, -(abs(a2) * 3))");
  ("IF(a1)", "if(a1, 0, false)");
  ("IF(a1, a2)", "if(a1, a2, false)");
  ("DATEDIF(a1, a2, ""m"")", "datetime_diff(a1, a2, ""M"")");
  ("DATEDIF(a1, a2, ""Y"")", "datetime_diff(a1, a2, ""Y"")");
  ("DATEDIF(a1, a2, ""d"")", "datetime_diff(a1, a2, ""D"")");
  ("WORD_COUNT(a1, a2 = 1)", "word_count(a1, if(a2 = 1, "" \t"", NULL))");
  ("DATE(a1, a2, a3) + 1", "format_date(datetime_add(date_from_parts(a1, a2, a3), 1, ""D""))");
  ("a1 & a2 & a3", "(a1 & a2) & a3");
  ("a1 * a2 / a3", "(a1 * a2) / a3");
  ("a1 ^ a2 ^ a3", "(a1 ^ a2) ^ a3");
  ("-a1 ^ a2", "(-a1) ^ a2");
  ("a1 + a2", "legacy_add(a1, a2)");
  ("a1 - a2", "legacy_add(a1, -a2)");
  ("1 - 2", "1 - 2")
]%string.

(* Lines that codify a KNOWN value difference: the target below is what the migrator emits and what goflow's
   functions_test.go / migrate_test.go pin, but it does NOT compute the legacy value (third component: the class of the
   known: line of KNOWN_FINDINGS.txt that demonstrates it on every run).  They are checked like the others, so that a
   repair of one of these findings has to touch a visibly marked line. *)
Definition legacy_spec_pinned : list (String.string * String.string * String.string) := [
  ("DATEVALUE(a1)", "date(a1)", "legacy-value:date-text:two-digit-year");
  ("EDATE(a1, a2)", "datetime_add(a1, a2, ""M"")", "legacy-value:call:edate/2");
  ("FIRST_WORD(a1)", "word(a1, 0)", "legacy-value:op:&:call:first_word,text");
  ("FIXED(a1, a2, a3)", "format_number(a1, a2, a3)", "legacy-value:call:fixed/3");
  ("HOUR(a1)", "format_datetime(a1, ""tt"")", "legacy-value:call:hour/1");
  ("MOD(a1, a2)", "mod(a1, a2)", "legacy-value:call:mod/2");
  ("PROPER(a1)", "title(a1)", "legacy-value:call:proper/1");
  ("READ_DIGITS(a1)", "read_chars(a1)", "legacy-value:call:read_digits/1");
  ("RIGHT(a1, a2)", "text_slice(a1, -a2)", "legacy-value:call:right/2");
  ("ROUNDDOWN(a1, a2)", "round_down(a1, a2)", "legacy-value:call:rounddown/2");
  ("ROUNDUP(a1, a2)", "round_up(a1, a2)", "legacy-value:call:roundup/2");
  ("SUBSTITUTE(a1, a2, a3)", "replace(a1, a2, a3)", "legacy-value:call:substitute/4");
  ("TRUNC(a1)", "round_down(a1)", "legacy-value:call:trunc/1");
  ("WORD(a1, a2)", "word(a1, a2 - 1)", "legacy-value:call:word/2:computed-negative-position");
  ("WORD(a1, a2, TRUE)", "word(a1, a2 - 1, "" \t"")", "legacy-value:call:word/2:computed-negative-position");
  ("WORD(a1, a2, FALSE)", "word(a1, a2 - 1, NULL)", "legacy-value:call:word/2:computed-negative-position");
  ("WORD_SLICE(a1, a2)", "word_slice(a1, a2 - 1)", "legacy-value:call:word_slice/3:negative-literal-position");
  ("WORD_SLICE(a1, a2, a3)", "word_slice(a1, a2 - 1, a3 - 1)", "legacy-value:call:word_slice/3:negative-literal-position");
  ("WORD_SLICE(a1, a2, a3, FALSE)", "word_slice(a1, a2 - 1, a3 - 1, NULL)", "legacy-value:call:word_slice/3:negative-literal-position");
  ("NOW() + TIME(1, 2, 3)", "datetime_add(now(), format_time(time_from_parts(1, 2, 3), ""tt"") * 60 + format_time(time_from_parts(1, 2, 3), ""m""), ""m"")", "legacy-value:op:+:call:now,call:time");
  ("NOW() - TIME(1, 2, 3)", "datetime_add(now(), -(format_time(time_from_parts(1, 2, 3), ""tt"") * 60 + format_time(time_from_parts(1, 2, 3), ""m"")), ""m"")", "legacy-value:op:+:call:now,call:time");
  ("a1 + TIMEVALUE(a2)", "replace_time(a1, time(a2))", "legacy-value:op:+:reference,call:time");
  ("WORD(a1, a2, a3)", "word(a1, a2 - 1, if(a3, "" \t"", NULL))", "legacy-value:call:word/2:computed-negative-position");
  ("a1 <> a2", "a1 != a2", "legacy-value:equality:text,text");
  ("a1 <= a2 = a3", "(a1 <= a2) = a3", "legacy-value:ordering:text,text")
]%string.

Definition spec_ok (p : String.string * String.string) : bool :=
  match parse1 (s2t (fst p)), parse3 (s2t (snd p)) with
  | Some e, Some ti =>
      match parse3 (visit lower false e) with
      | Some t => e3_eqb (erase3 t) (erase3 ti)
      | None => false
      end
  | _, _ => false
  end.

Definition all_spec : list (String.string * String.string) := legacy_spec ++ map fst legacy_spec_pinned.

Lemma table_meets_spec : forallb spec_ok all_spec = true.
Proof. vm_compute. reflexivity. Qed.

(* coverage of the specification: every key of the regenerated table has a sample call for every number of
   arguments the migrator admits (templates: the number of placeholders; per-parameter migrators: 1 .. number of
   parameter migrators; joins: 1, 2 and 3; as-is / renamed: at least one) *)
Definition spec_calls : list (text * nat) :=
  flat_map (fun p => match parse1 (s2t (fst p)) with
                     | Some (E1Call f args) => [(lower f, length args)]
                     | _ => []
                     end) all_spec.

Definition has_call (k : text) (n : nat) : bool :=
  existsb (fun c => text_eqb (fst c) k && Nat.eqb (snd c) n) spec_calls.

Definition entry_covered (e : text * cmig) : bool :=
  let k := fst e in
  match snd e with
  | AsIs | Rename _ => existsb (fun c => text_eqb (fst c) k) spec_calls
  | Template f _ => has_call k (tmpl_arity f)
  | Join _ _ => has_call k 1 && has_call k 2 && has_call k 3
  | Params _ _ pms => forallb (has_call k) (seq 1 (length pms))
  | DateDif => has_call k 3
  | Optional required defaults _ => forallb (has_call k) (seq required (S (length defaults)))
  end.

Lemma spec_covers_table : forallb entry_covered legacy_table = true.
Proof. vm_compute. reflexivity. Qed.

(* ---------------------------------------------------------------------------------------------- *)
(* the intended tree exists for every regular legacy tree: literals without backslash, DECIMAL tokens, any
   operators, calls of table functions with a number of arguments the migrator accepts (templates: exactly
   the placeholders; joins: at least one; per-parameter migrators: between one and the number of parameter
   migrators), calls of unknown functions whose name is one Excellent3 NAME, context references whose
   migration is a canonically printed expression *)

Fixpoint cmig_defaults_ok (m : cmig) : Prop :=
  match m with
  | Params _ defaults _ => Forall (fun d => canon d <> None) (tl defaults)
  | Optional _ defaults inner => Forall (fun d => canon d <> None) defaults /\ cmig_defaults_ok inner
  | _ => True
  end.

Definition defaults_ok (e : text * cmig) : Prop := cmig_defaults_ok (snd e).

Lemma table_defaults_ok : Forall defaults_ok legacy_table.
Proof.
  unfold legacy_table.
  repeat (apply Forall_cons;
          [unfold defaults_ok; cbn [cmig_defaults_ok snd tl]; try exact I;
           repeat (first [split | constructor]); try exact I; vm_compute; discriminate|]).
  apply Forall_nil.
Qed.

(* the numbers of arguments with which a call has an intended tree *)
Fixpoint cmig_regular (m : cmig) (n : nat) : Prop :=
  match m with
  | AsIs => True
  | Rename _ => True
  | Template f _ => n = tmpl_arity f
  | Join _ _ => (1 <= n)%nat
  | Params _ _ pms => (1 <= n <= length pms)%nat
  | DateDif => True
  | Optional required defaults inner =>
      cmig_regular inner (if Nat.leb required n && Nat.ltb n (required + length defaults) then required + length defaults else n)
  end.

Definition call_regular (fname : text) (n : nat) : Prop :=
  match lookup fname legacy_table with
  | None => name_ok3 fname = true
  | Some m => cmig_regular m n
  end.

Inductive regular : e1 -> Prop :=
| RStr s : Forall (fun c => c <> c_bslash) s -> regular (E1Str (legacy_quote s))
| RDec raw : num_ok raw = true -> regular (E1Dec raw)
| RTrue : regular E1True
| RFalse : regular E1False
| RRef n : regular (E1Ref n)
| RParen x : regular x -> regular (E1Paren x)
| RNeg x : regular x -> regular (E1Neg x)
| RBin o a b : regular a -> regular b -> regular (E1Bin o a b)
| RCall f args : Forall regular args -> call_regular (lower f) (length args) -> regular (E1Call f args).

Lemma pm_tree_total m t : exists t', pm_tree m t = Some t'.
Proof.
  destruct m; cbn [pm_tree].
  - eexists; reflexivity.
  - destruct (atoi (print3 t)) as [z|]; [|eexists; reflexivity].
    destruct (decremented_keeps_negative && (z <? 0)%Z); eexists; reflexivity.
  - cbv zeta. destruct (text_eqb (trim_space (lower (print3 t))) t_true); [vm_compute; eexists; reflexivity|].
    destruct (text_eqb (trim_space (lower (print3 t))) t_false); eexists; reflexivity.
Qed.

Lemma params_tree_total : forall pms old defaults,
  (old = [] -> Forall (fun d => canon d <> None) defaults) ->
  (old <> [] -> Forall (fun d => canon d <> None) (tl defaults)) ->
  exists ts, params_tree pms old defaults = Some ts.
Proof.
  induction pms as [|m pms IH]; intros old defaults H0 H1; cbn [params_tree].
  - eexists; reflexivity.
  - destruct old as [|o old'].
    + destruct defaults as [|d defaults']; [eexists; reflexivity|].
      specialize (H0 eq_refl). inversion H0 as [|? ? Hd Hr]; subst.
      destruct (canon d) as [dt|]; [|contradiction].
      destruct (pm_tree_total m dt) as [x Ex]. rewrite Ex.
      destruct (IH [] defaults' (fun _ => Hr) (fun C => match C eq_refl with end)) as [r Er]. rewrite Er.
      eexists; reflexivity.
    + destruct (pm_tree_total m o) as [x Ex]. rewrite Ex.
      assert (Ht : Forall (fun d => canon d <> None) (tl defaults)) by (apply H1; discriminate).
      destruct (IH old' (tl defaults)) as [r Er].
      * intros _. exact Ht.
      * intros _. destruct (tl defaults) as [|a b]; [constructor|]. inversion Ht; assumption.
      * rewrite Er. eexists; reflexivity.
Qed.

Lemma all_some_canon_total ds : Forall (fun d => canon d <> None) ds -> exists ts, all_some (map canon ds) = Some ts /\ length ts = length ds.
Proof.
  induction 1 as [|d r Hd Hr IH]; [exists []; split; reflexivity|].
  destruct IH as (ts & E & L). destruct (canon d) as [t|] eqn:Ec; [|contradiction].
  exists (t :: ts). cbn [map all_some]. rewrite Ec, E. split; [reflexivity | cbn [length]; rewrite L; reflexivity].
Qed.

Lemma Forall_skipn {A} (P : A -> Prop) k l : Forall P l -> Forall P (skipn k l).
Proof.
  revert l. induction k as [|k IH]; intros l H; [exact H|]. destruct l as [|x r]; [constructor|].
  inversion H; subst. cbn [skipn]. apply IH. assumption.
Qed.

Lemma cmig_tree_total : forall m fname ts,
  cmig_closed fname m -> cmig_defaults_ok m -> cmig_regular m (length ts) -> exists t, cmig_tree m fname ts = Some t.
Proof.
  induction m as [|n|f precs|sep p|n defaults pms| |required defaults inner IH]; intros fname ts TC TD H;
    cbn [cmig_closed cmig_defaults_ok cmig_regular cmig_tree] in *.
  - eexists; reflexivity.
  - eexists; reflexivity.
  - destruct TC as [(_ & s & Hs & Hw & _) _]. unfold tmpl_tree. rewrite H, Nat.eqb_refl, Hs, Hw. eexists; reflexivity.
  - destruct TC as (o & Ho & _). rewrite Ho. destruct ts as [|t0 r]; [cbn in H; lia|]. eexists; reflexivity.
  - destruct H as [H1 H2]. apply Nat.leb_le in H2. rewrite H2.
    destruct (params_tree_total pms ts defaults) as [ps Ep].
    + intros E. subst ts. cbn in H1. lia.
    + intros _. exact TD.
    + rewrite Ep. eexists; reflexivity.
  - eexists; reflexivity.
  - destruct TD as [TDd TDi]. unfold with_default_trees.
    destruct (Nat.leb required (length ts) && Nat.ltb (length ts) (required + length defaults)) eqn:Eb.
    + destruct (all_some_canon_total (skipn (length ts - required) defaults) (Forall_skipn _ _ _ TDd)) as (ds & Ed & Ld).
      rewrite Ed. cbn [option_map]. apply IH; try assumption.
      rewrite app_length, Ld, skipn_length.
      apply andb_true_iff in Eb. destruct Eb as [E1 E2]. apply Nat.leb_le in E1. apply Nat.ltb_lt in E2.
      replace (length ts + (length defaults - (length ts - required)))%nat with (required + length defaults)%nat by lia.
      exact H.
    + apply IH; assumption.
Qed.

Lemma call_tree_total fname ts :
  call_regular fname (length ts) -> exists t, call_tree fname ts = Some t.
Proof.
  unfold call_regular, call_tree. intros H.
  destruct (lookup fname legacy_table) as [m|] eqn:El.
  - destruct (lookup_In _ _ _ El) as (k' & Hin & Hk). subst k'.
    pose proof templates_closed as TC. rewrite Forall_forall in TC. specialize (TC _ Hin).
    pose proof table_defaults_ok as TD. rewrite Forall_forall in TD. specialize (TD _ Hin).
    unfold entry_closed in TC. unfold defaults_ok in TD. cbn [fst snd] in TC, TD.
    apply cmig_tree_total; assumption.
  - rewrite H. eexists; reflexivity.
Qed.

(* the context references that occur in a legacy tree *)
Fixpoint refs1 (e : e1) : list text :=
  match e with
  | E1Ref n => [n]
  | E1Paren x => refs1 x
  | E1Neg x => refs1 x
  | E1Bin _ a b => refs1 a ++ refs1 b
  | E1Call _ args => flat_map refs1 args
  | _ => []
  end.

Section Total.
  Variable ctxmap : text -> text.
  Variable raw_dates : bool.

  Definition ctx_ok_on (e : e1) : Prop := forall n, In n (refs1 e) -> canon (ctxmap n) <> None.

  Lemma all_some_total args :
    Forall (fun a => ctx_ok_on a -> regular a -> exists t, mt ctxmap raw_dates a = Some t) args ->
    (forall n, In n (flat_map refs1 args) -> canon (ctxmap n) <> None) -> Forall regular args ->
    exists ts, all_some (map (mt ctxmap raw_dates) args) = Some ts /\ length ts = length args.
  Proof.
    induction 1 as [|a r Ha Hr IH]; intros Hc R.
    - exists []. split; reflexivity.
    - inversion R as [|? ? Ra Rr]; subst. cbn [flat_map] in Hc.
      destruct (Ha (fun n Hn => Hc n (in_or_app _ _ _ (or_introl Hn))) Ra) as [t Et].
      destruct (IH (fun n Hn => Hc n (in_or_app _ _ _ (or_intror Hn))) Rr) as (ts & E & L).
      exists (t :: ts). cbn [map all_some]. rewrite Et, E. split; [reflexivity | cbn [length]; rewrite L; reflexivity].
  Qed.

  Theorem mt_total : forall e, ctx_ok_on e -> regular e -> exists t, mt ctxmap raw_dates e = Some t.
  Proof.
    induction e using e1_ind'; intros Hc R; inversion R; subst; cbn [mt]; unfold ctx_ok_on in Hc; cbn [refs1] in Hc.
    - rewrite literal_text_ok by assumption. eexists; reflexivity.
    - match goal with H : num_ok _ = true |- _ => rewrite H end. eexists; reflexivity.
    - eexists; reflexivity.
    - eexists; reflexivity.
    - specialize (Hc n (or_introl eq_refl)). destruct (canon (ctxmap n)); [eexists; reflexivity | contradiction].
    - match goal with H : regular e |- _ => destruct (IHe Hc H) as [t Et] end. rewrite Et. eexists; reflexivity.
    - match goal with H : regular e |- _ => destruct (IHe Hc H) as [t Et] end. rewrite Et. eexists; reflexivity.
    - match goal with Ha : regular e1, Hb : regular e2 |- _ =>
        destruct (IHe1 (fun n Hn => Hc n (in_or_app _ _ _ (or_introl Hn))) Ha) as [ta Ea];
        destruct (IHe2 (fun n Hn => Hc n (in_or_app _ _ _ (or_intror Hn))) Hb) as [tb Eb] end.
      rewrite Ea, Eb. eexists; reflexivity.
    - match goal with Ha : Forall regular args |- _ => destruct (all_some_total args H Hc Ha) as (ts & E & L) end.
      rewrite E. apply call_tree_total. rewrite L. assumption.
  Qed.
End Total.

(* [regular] is satisfiable by a tree that used to be migrated wrongly: POWER(1+2, "a""b") *)
Example regular_example :
  regular (E1Call (s2t "POWER"%string) [E1Bin OAdd (E1Dec [49]) (E1Dec [50]); E1Str (legacy_quote [97; 34; 98])]).
Proof.
  apply RCall.
  - repeat constructor; discriminate.
  - vm_compute. reflexivity.
Qed.

(* the growth-cap hypothesis of expr_parses holds for the nested example (and is false for nested datetime + time,
   9 levels: evaluated by the driver's probe on the real code) *)
Example cap_example :
  exists e, parse1 ex_legacy = Some e /\ too_long ex_ctx false (max_migrated_length ex_legacy) e = false.
Proof.
  destruct (parse1 ex_legacy) as [e|] eqn:Ep; [|vm_compute in Ep; discriminate].
  exists e. split; [reflexivity|]. vm_compute in Ep. inversion Ep; subst e. vm_compute. reflexivity.
Qed.
