(* Json.v — generic JSON trees over code-point strings, with the helpers the models share.

   Strings are [list N] (Unicode code points).  Numbers are kept as [mantissa * 10^exp] with both parts in Z
   (no normalisation: the pair is whatever the producer wrote).  Objects are association lists in the
   order of the producer; Go's [map[string]any] has unique keys, and the helpers below are defined so
   that the usual map laws hold WITHOUT a uniqueness side condition:
     [olookup] returns the first binding, [oset] replaces the first binding or appends, [odel] removes
     every binding.
   Generic on purpose (shared by C13 and C16): nothing here knows about flows. *)
From Coq Require Import List NArith ZArith Bool Lia.
Import ListNotations.

Definition str := list N.

Fixpoint str_eqb (a b : str) : bool :=
  match a, b with
  | [], [] => true
  | x :: a', y :: b' => N.eqb x y && str_eqb a' b'
  | _, _ => false
  end.

Lemma str_eqb_eq : forall a b, str_eqb a b = true <-> a = b.
Proof.
  induction a as [|x a IH]; destruct b as [|y b]; cbn [str_eqb]; split; intro H; try easy.
  - apply andb_true_iff in H. destruct H as [H1 H2]. apply N.eqb_eq in H1. apply IH in H2. now subst.
  - inversion H; subst. apply andb_true_iff. split; [apply N.eqb_refl | now apply IH].
Qed.

Lemma str_eqb_refl : forall a, str_eqb a a = true.
Proof. intro a. now apply str_eqb_eq. Qed.

Lemma str_eqb_neq : forall a b, str_eqb a b = false <-> a <> b.
Proof.
  intros a b. split.
  - intros H E. apply str_eqb_eq in E. congruence.
  - intro H. destruct (str_eqb a b) eqn:E; [apply str_eqb_eq in E; contradiction | reflexivity].
Qed.

Lemma str_eqb_sym : forall a b, str_eqb a b = str_eqb b a.
Proof.
  intros a b. destruct (str_eqb a b) eqn:E.
  - apply str_eqb_eq in E. subst. symmetry. apply str_eqb_refl.
  - symmetry. apply str_eqb_neq. apply str_eqb_neq in E. congruence.
Qed.

Inductive json : Type :=
| JNull
| JBool (b : bool)
| JNum (mantissa exp : Z)
| JStr (s : str)
| JArr (l : list json)
| JObj (kv : list (str * json)).

(* ---- induction principle that reaches inside arrays and objects ------------------------------- *)

Section JsonInd.
  Variable P : json -> Prop.
  Hypothesis Hnull : P JNull.
  Hypothesis Hbool : forall b, P (JBool b).
  Hypothesis Hnum : forall m e, P (JNum m e).
  Hypothesis Hstr : forall s, P (JStr s).
  Hypothesis Harr : forall l, Forall P l -> P (JArr l).
  Hypothesis Hobj : forall kv, Forall (fun p => P (snd p)) kv -> P (JObj kv).

  Fixpoint json_ind' (j : json) : P j :=
    match j with
    | JNull => Hnull
    | JBool b => Hbool b
    | JNum m e => Hnum m e
    | JStr s => Hstr s
    | JArr l => Harr l ((fix go (l : list json) : Forall P l :=
                           match l with
                           | [] => Forall_nil _
                           | x :: xs => Forall_cons x (json_ind' x) (go xs)
                           end) l)
    | JObj kv => Hobj kv ((fix go (l : list (str * json)) : Forall (fun p => P (snd p)) l :=
                             match l with
                             | [] => Forall_nil _
                             | p :: xs => Forall_cons p (json_ind' (snd p)) (go xs)
                             end) kv)
    end.
End JsonInd.

(* ---- objects as maps ------------------------------------------------------------------------ *)

Definition obj := list (str * json).

Fixpoint olookup (k : str) (o : obj) : option json :=
  match o with
  | [] => None
  | (k', v) :: o' => if str_eqb k k' then Some v else olookup k o'
  end.

Definition ohas (k : str) (o : obj) : bool :=
  match olookup k o with Some _ => true | None => false end.

(* replace the first binding of k, or append one *)
Fixpoint oset (k : str) (v : json) (o : obj) : obj :=
  match o with
  | [] => [(k, v)]
  | (k', v') :: o' => if str_eqb k k' then (k', v) :: o' else (k', v') :: oset k v o'
  end.

(* remove every binding of k *)
Fixpoint odel (k : str) (o : obj) : obj :=
  match o with
  | [] => []
  | (k', v') :: o' => if str_eqb k k' then odel k o' else (k', v') :: odel k o'
  end.

Definition okeys (o : obj) : list str := map fst o.

Lemma olookup_oset_same : forall k v o, olookup k (oset k v o) = Some v.
Proof.
  intros k v o. induction o as [|[k' v'] o IH]; cbn [oset olookup].
  - now rewrite str_eqb_refl.
  - destruct (str_eqb k k') eqn:E; cbn [olookup]; rewrite E; [reflexivity | exact IH].
Qed.

Lemma olookup_oset_other : forall k k' v o, k <> k' -> olookup k' (oset k v o) = olookup k' o.
Proof.
  intros k k' v o Hne. induction o as [|[k2 v2] o IH]; cbn [oset olookup].
  - assert (E : str_eqb k' k = false) by (apply str_eqb_neq; congruence). now rewrite E.
  - destruct (str_eqb k k2) eqn:E; cbn [olookup].
    + apply str_eqb_eq in E. subst k2.
      assert (E' : str_eqb k' k = false) by (apply str_eqb_neq; congruence). now rewrite E'.
    + now rewrite IH.
Qed.

Lemma olookup_odel_same : forall k o, olookup k (odel k o) = None.
Proof.
  intros k o. induction o as [|[k' v'] o IH]; cbn [odel olookup]; [reflexivity|].
  destruct (str_eqb k k') eqn:E; [exact IH | cbn [olookup]; now rewrite E].
Qed.

Lemma olookup_odel_other : forall k k' o, k <> k' -> olookup k' (odel k o) = olookup k' o.
Proof.
  intros k k' o Hne. induction o as [|[k2 v2] o IH]; cbn [odel olookup]; [reflexivity|].
  destruct (str_eqb k k2) eqn:E.
  - apply str_eqb_eq in E. subst k2.
    assert (E' : str_eqb k' k = false) by (apply str_eqb_neq; congruence). now rewrite E'.
  - cbn [olookup]. now rewrite IH.
Qed.

Lemma olookup_In : forall k o v, olookup k o = Some v -> In (k, v) o.
Proof.
  intros k o v. induction o as [|[k' v'] o IH]; cbn [olookup]; [discriminate|].
  destruct (str_eqb k k') eqn:E.
  - intro H. inversion H; subst. apply str_eqb_eq in E. subst. now left.
  - intro H. right. now apply IH.
Qed.

(* ---- typed accessors (Go's comma-ok assertions: a wrong type reads as absent) ---------------- *)

Definition as_obj (j : json) : option obj := match j with JObj o => Some o | _ => None end.
Definition as_arr (j : json) : option (list json) := match j with JArr l => Some l | _ => None end.
Definition as_str (j : json) : option str := match j with JStr s => Some s | _ => None end.

Definition get_obj (k : str) (o : obj) : option obj :=
  match olookup k o with Some (JObj x) => Some x | _ => None end.
Definition get_arr (k : str) (o : obj) : option (list json) :=
  match olookup k o with Some (JArr x) => Some x | _ => None end.
Definition get_str (k : str) (o : obj) : option str :=
  match olookup k o with Some (JStr x) => Some x | _ => None end.

(* ---- equality ------------------------------------------------------------------------------- *)

(* structural, order-sensitive *)
Fixpoint json_eqb (a b : json) : bool :=
  match a, b with
  | JNull, JNull => true
  | JBool x, JBool y => Bool.eqb x y
  | JNum m e, JNum m' e' => Z.eqb m m' && Z.eqb e e'
  | JStr s, JStr t => str_eqb s t
  | JArr l, JArr l' =>
      (fix go (l l' : list json) : bool :=
         match l, l' with
         | [], [] => true
         | x :: xs, y :: ys => json_eqb x y && go xs ys
         | _, _ => false
         end) l l'
  | JObj kv, JObj kv' =>
      (fix go (l l' : list (str * json)) : bool :=
         match l, l' with
         | [], [] => true
         | (k, x) :: xs, (k', y) :: ys => str_eqb k k' && json_eqb x y && go xs ys
         | _, _ => false
         end) kv kv'
  | _, _ => false
  end.

(* equality of the denoted Go values when object keys are unique on both sides: members are compared
   by key, not by position *)
Fixpoint json_sim (a b : json) : bool :=
  match a, b with
  | JNull, JNull => true
  | JBool x, JBool y => Bool.eqb x y
  | JNum m e, JNum m' e' => Z.eqb m m' && Z.eqb e e'
  | JStr s, JStr t => str_eqb s t
  | JArr l, JArr l' =>
      (fix go (l l' : list json) : bool :=
         match l, l' with
         | [], [] => true
         | x :: xs, y :: ys => json_sim x y && go xs ys
         | _, _ => false
         end) l l'
  | JObj kv, JObj kv' =>
      Nat.eqb (length kv) (length kv') &&
      (fix go (l : list (str * json)) : bool :=
         match l with
         | [] => true
         | (k, x) :: xs =>
             match olookup k kv' with
             | Some y => json_sim x y && go xs
             | None => false
             end
         end) kv
  | _, _ => false
  end.

Lemma json_eqb_refl : forall j, json_eqb j j = true.
Proof.
  induction j as [| b | m e | s | l IH | kv IH] using json_ind'; cbn [json_eqb].
  - reflexivity.
  - apply Bool.eqb_reflx.
  - now rewrite !Z.eqb_refl.
  - apply str_eqb_refl.
  - induction IH as [|x l Hx _ IHl]; [reflexivity | now rewrite Hx, IHl].
  - induction IH as [|[k x] l Hx _ IHl]; [reflexivity|]. cbn [snd] in Hx.
    now rewrite str_eqb_refl, Hx, IHl.
Qed.

Lemma json_eqb_eq : forall a b, json_eqb a b = true -> a = b.
Proof.
  induction a as [| x | m e | s | l IH | kv IH] using json_ind'; destruct b; cbn [json_eqb]; intro H; try discriminate.
  - reflexivity.
  - apply Bool.eqb_prop in H. now subst.
  - apply andb_true_iff in H. destruct H as [H1 H2]. apply Z.eqb_eq in H1, H2. now subst.
  - apply str_eqb_eq in H. now subst.
  - f_equal. revert l0 H. induction IH as [|x l Hx _ IHl]; intros [|y ys] H; try discriminate; [reflexivity|].
    apply andb_true_iff in H. destruct H as [H1 H2]. f_equal; [now apply Hx | now apply IHl].
  - f_equal. revert kv0 H. induction IH as [|[k x] l Hx _ IHl]; intros [|[k' y] ys] H; try discriminate; [reflexivity|].
    apply andb_true_iff in H. destruct H as [H12 H3]. apply andb_true_iff in H12. destruct H12 as [H1 H2].
    apply str_eqb_eq in H1. cbn [snd] in Hx. apply Hx in H2. subst. f_equal. now apply IHl.
Qed.

(* ---- size (for fuel-free termination arguments of clients) ---------------------------------- *)

Fixpoint json_size (j : json) : nat :=
  match j with
  | JArr l => S (fold_right (fun x n => json_size x + n) 0 l)
  | JObj kv => S (fold_right (fun p n => json_size (snd p) + n) 0 kv)
  | _ => 1
  end.
