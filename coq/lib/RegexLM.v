(* lib/RegexLM.v — regular expressions over code points with character classes, Brzozowski derivatives with
   simplifying constructors, longest-prefix match, and an ANTLR-style maximal-munch tokenizer
   (longest match over all rules; among rules matching the same length the first one in grammar order
   wins; a rule never matches the empty string).  Definitions only.

   This is the semantics of an ANTLR4 lexer for grammars WITHOUT lexer modes, semantic predicates, actions
   other than `-> skip`, and without non-greedy operators (the translators refuse such grammars).  The
   ANTLR runtime itself (ATN simulation, DFA cache) is not verified: the model is validated against it
   differentially by the drivers. *)
From Coq Require Import List NArith Bool.
Import ListNotations.
Open Scope N_scope.

(* character sets *)
Inductive cset :=
| CRanges (rs : list (N * N))    (* union of inclusive ranges *)
| CNot (s : cset)                (* ~set : any character not in the set *)
| CAny.                          (* . *)

Fixpoint in_ranges (c : N) (rs : list (N * N)) : bool :=
  match rs with
  | [] => false
  | (lo, hi) :: rest => ((lo <=? c) && (c <=? hi)) || in_ranges c rest
  end.

Fixpoint in_cset (c : N) (s : cset) : bool :=
  match s with
  | CRanges rs => in_ranges c rs
  | CNot s' => negb (in_cset c s')
  | CAny => true
  end.

Inductive re :=
| Empty                 (* no string *)
| Eps                   (* the empty string *)
| Chr (s : cset)
| Cat (a b : re)
| Alt (a b : re)
| Star (a : re).

Definition Plus (a : re) : re := Cat a (Star a).
Definition Opt (a : re) : re := Alt a Eps.
Definition Lit1 (c : N) : re := Chr (CRanges [(c, c)]).
Fixpoint Lit (s : list N) : re :=
  match s with
  | [] => Eps
  | [c] => Lit1 c
  | c :: r => Cat (Lit1 c) (Lit r)
  end.

Fixpoint nullable (r : re) : bool :=
  match r with
  | Empty => false
  | Eps => true
  | Chr _ => false
  | Cat a b => nullable a && nullable b
  | Alt a b => nullable a || nullable b
  | Star _ => true
  end.

(* simplifying constructors *)
Definition cat (a b : re) : re :=
  match a, b with
  | Empty, _ => Empty
  | _, Empty => Empty
  | Eps, _ => b
  | _, Eps => a
  | _, _ => Cat a b
  end.

Definition alt (a b : re) : re :=
  match a, b with
  | Empty, _ => b
  | _, Empty => a
  | _, _ => Alt a b
  end.

Fixpoint deriv (c : N) (r : re) : re :=
  match r with
  | Empty => Empty
  | Eps => Empty
  | Chr s => if in_cset c s then Eps else Empty
  | Cat a b => if nullable a then alt (cat (deriv c a) b) (deriv c b) else cat (deriv c a) b
  | Alt a b => alt (deriv c a) (deriv c b)
  | Star a => cat (deriv c a) (Star a)
  end.

Definition is_Empty (r : re) : bool := match r with Empty => true | _ => false end.

(* length of the longest prefix of s matched by r, given that i characters were consumed to reach r and
   [best] is the longest match seen so far *)
Fixpoint lm (r : re) (s : list N) (i : nat) (best : option nat) : option nat :=
  let best' := if nullable r then Some i else best in
  match s with
  | [] => best'
  | c :: s' =>
    let r' := deriv c r in
    if is_Empty r' then best' else lm r' s' (S i) best'
  end.

Definition longest (r : re) (s : list N) : option nat := lm r s O None.

(* ---------------------------------------------------------------------------------------------- *)
(* tokenizer *)

Section Lexer.
  Variable kind : Type.

  Record rule := { r_kind : kind; r_re : re; r_skip : bool }.

  (* best rule for the input: longest match, first rule on ties; only non-empty matches count *)
  Fixpoint pick (rules : list rule) (s : list N) (cur : option (rule * nat)) : option (rule * nat) :=
    match rules with
    | [] => cur
    | ru :: rest =>
      let cur' :=
        match longest (r_re ru) s with
        | Some (S n) =>
          match cur with
          | Some (_, m) => if Nat.ltb m (S n) then Some (ru, S n) else cur
          | None => Some (ru, S n)
          end
        | _ => cur
        end in
      pick rest s cur'
    end.

  Inductive lexres :=
  | LexOk (ts : list (kind * list N))
  | LexStuck            (* no rule matches a non-empty prefix: ANTLR reports a token recognition error *)
  | LexFuel.            (* unreachable: every token consumes at least one character *)

  Fixpoint lex_loop (fuel : nat) (rules : list rule) (s : list N) (acc : list (kind * list N)) : lexres :=
    match s with
    | [] => LexOk (rev acc)
    | _ :: _ =>
      match fuel with
      | O => LexFuel
      | S f =>
        match pick rules s None with
        | None => LexStuck
        | Some (ru, n) =>
          let text := firstn n s in
          let rest := skipn n s in
          lex_loop f rules rest (if r_skip ru then acc else (r_kind ru, text) :: acc)
        end
      end
    end.

  Definition lex (rules : list rule) (s : list N) : lexres := lex_loop (length s) rules s [].
End Lexer.

Arguments r_kind {kind}.
Arguments r_re {kind}.
Arguments r_skip {kind}.
Arguments Build_rule {kind}.
Arguments LexOk {kind}.
Arguments LexStuck {kind}.
Arguments LexFuel {kind}.
Arguments pick {kind}.
Arguments lex_loop {kind}.
Arguments lex {kind}.
