(* lib/Quote.v — model of Go's strconv.Quote and strconv.Unquote (Go 1.23, strconv/quote.go) over
   strings represented as lists of Unicode code points (list N).  Definitions only; the lemmas are in
   proofs/QuoteProofs.v.  Shared by C11, C12, C14, C17.

   Transcribed functions: appendQuotedWith / appendEscapedRune (quote = DQUOTE, ASCIIonly = graphicOnly =
   false), UnquoteChar (quote = DQUOTE), unquote / Unquote (double-quoted form).

   What is modelled and what is not
   * A Go string is a byte sequence; here it is the list of code points of a VALID UTF-8 string.  For such
     strings the branch of appendQuotedWith that emits \xHH for an undecodable byte is unreachable and is
     not modelled.  (A code point that is not a valid rune — a surrogate or > 0x10FFFF — cannot come from
     a Go string either; [esc] nevertheless follows appendEscapedRune and prints it as �.)
   * unicode.IsPrint is a table of the Go runtime; it enters as the argument [printable].
   * Unquote can produce strings that are not valid UTF-8: the escapes \xHH and \ooo denote single BYTES.
     When such a byte is >= 0x80 the result is not a code point list (or only by accident: the bytes
     of \xc3\xa9 combine to one code point); the model then answers [UOutside]
     (Go accepts the input, the model does not describe the result).  Inputs quoted with ' or ` are
     [UOutside] as well.  Every other outcome is exact: [UOk s] = Go returns s, [USyntax] = Go returns
     ErrSyntax.
   * Go's fast path of unquote (no backslash and no newline before the first quote, valid UTF-8: return
     the text between the quotes) gives the same result as the general loop on valid UTF-8 and is not
     modelled separately.
   * The loop has fuel = length of the input; [UFuel] is proved unreachable (unquote_no_fuel). *)
From Coq Require Import List NArith Bool.
Import ListNotations.
Open Scope N_scope.

(* utf8.ValidRune *)
Definition valid_cp (c : N) : bool :=
  (c <? 0x110000) && negb ((0xD800 <=? c) && (c <=? 0xDFFF)).

Definition valid_codepoints (s : list N) : Prop := Forall (fun c => valid_cp c = true) s.

(* lowerhex[d] for d < 16 *)
Definition hexdig (d : N) : N := if d <? 10 then 48 + d else 87 + d.

(* for s := 4*(n-1); s >= 0; s -= 4 { lowerhex[r>>s & 0xF] } *)
Fixpoint hexdigits (n : nat) (c : N) : list N :=
  match n with
  | O => []
  | S n' => hexdig ((c / 16 ^ N.of_nat n') mod 16) :: hexdigits n' c
  end.

Section Quote.
  Variable printable : N -> bool.   (* unicode.IsPrint *)

  (* appendEscapedRune(buf, r, DQUOTE, false, false) *)
  Definition esc (c : N) : list N :=
    if (c =? 34) || (c =? 92) then [92; c]
    else if printable c then [c]
    else if c =? 7 then [92; 97]          (* \a *)
    else if c =? 8 then [92; 98]          (* \b *)
    else if c =? 12 then [92; 102]        (* \f *)
    else if c =? 10 then [92; 110]        (* \n *)
    else if c =? 13 then [92; 114]        (* \r *)
    else if c =? 9 then [92; 116]         (* \t *)
    else if c =? 11 then [92; 118]        (* \v *)
    else if (c <? 32) || (c =? 127) then 92 :: 120 :: hexdigits 2 c        (* \xHH *)
    else if negb (valid_cp c) then 92 :: 117 :: hexdigits 4 0xFFFD          (* r = 0xFFFD; fallthrough *)
    else if c <? 0x10000 then 92 :: 117 :: hexdigits 4 c                    (* \uHHHH *)
    else 92 :: 85 :: hexdigits 8 c.                                         (* \UHHHHHHHH *)

  Definition quote_body (s : list N) : list N := flat_map esc s.

  (* strconv.Quote *)
  Definition quote (s : list N) : list N := 34 :: quote_body s ++ [34].
End Quote.

(* ---------------------------------------------------------------------------------------------- *)
(* Unquote *)

Inductive uresult :=
| UOk (s : list N)   (* Go returns s, nil *)
| USyntax            (* Go returns ErrSyntax *)
| UOutside           (* Go accepts, but the result contains a raw byte >= 0x80 / other quote style *)
| UFuel.             (* unreachable *)

(* strconv.unhex *)
Definition unhex (c : N) : option N :=
  if (48 <=? c) && (c <=? 57) then Some (c - 48)
  else if (97 <=? c) && (c <=? 102) then Some (c - 87)
  else if (65 <=? c) && (c <=? 70) then Some (c - 55)
  else None.

(* the loop  for j := 0; j < n; j++ { x, ok := unhex(s[j]); v = v<<4 | x }  with the length test *)
Fixpoint read_hex (n : nat) (v : N) (s : list N) : option (N * list N) :=
  match n with
  | O => Some (v, s)
  | S n' => match s with
            | [] => None
            | c :: s' => match unhex c with
                         | None => None
                         | Some x => read_hex n' (v * 16 + x) s'
                         end
            end
  end.

Definition octdig (c : N) : option N :=
  if (48 <=? c) && (c <=? 55) then Some (c - 48) else None.

Inductive uchar :=
| UC (value : N) (multibyte : bool) (tail : list N)
| UCErr.

(* strconv.UnquoteChar(s, DQUOTE) *)
Definition unquote_char (s : list N) : uchar :=
  match s with
  | [] => UCErr
  | c :: s1 =>
    if c =? 34 then UCErr
    else if 128 <=? c then UC c true s1
    else if negb (c =? 92) then UC c false s1
    else
      match s1 with
      | [] => UCErr
      | e :: s2 =>
        if e =? 97 then UC 7 false s2
        else if e =? 98 then UC 8 false s2
        else if e =? 102 then UC 12 false s2
        else if e =? 110 then UC 10 false s2
        else if e =? 114 then UC 13 false s2
        else if e =? 116 then UC 9 false s2
        else if e =? 118 then UC 11 false s2
        else if e =? 120 then                                   (* \x: a single byte *)
          match read_hex 2 0 s2 with
          | Some (v, t) => UC v false t
          | None => UCErr
          end
        else if e =? 117 then                                   (* \u *)
          match read_hex 4 0 s2 with
          | Some (v, t) => if valid_cp v then UC v true t else UCErr
          | None => UCErr
          end
        else if e =? 85 then                                    (* \U *)
          match read_hex 8 0 s2 with
          | Some (v, t) => if valid_cp v then UC v true t else UCErr
          | None => UCErr
          end
        else
          match octdig e with
          | Some d0 =>                                          (* \ooo: a single byte *)
            match s2 with
            | c1 :: c2 :: t =>
              match octdig c1, octdig c2 with
              | Some d1, Some d2 =>
                let v := (d0 * 8 + d1) * 8 + d2 in
                if 255 <? v then UCErr else UC v false t
              | _, _ => UCErr
              end
            | _ => UCErr
            end
          | None =>
            if e =? 92 then UC 92 false s2
            else if e =? 34 then UC 34 false s2                 (* backslash-dquote; backslash-apostrophe is rejected: c != quote *)
            else UCErr
          end
      end
  end.

(* the loop of strconv.unquote for a double-quoted string, after the opening quote; [raw] records
   that a byte >= 0x80 was appended (result outside the code-point model) *)
Fixpoint unquote_loop (fuel : nat) (inp : list N) (acc : list N) (raw : bool) : uresult :=
  match fuel with
  | O => UFuel
  | S f =>
    match inp with
    | [] => USyntax                                             (* no terminating quote *)
    | c :: rest =>
      if c =? 34 then
        match rest with
        | [] => if raw then UOutside else UOk (rev acc)
        | _ :: _ => USyntax                                     (* Unquote: len(rem) > 0 *)
        end
      else if c =? 10 then USyntax                              (* raw newline *)
      else
        match unquote_char inp with
        | UCErr => USyntax
        | UC v mb tail =>
          if (v <? 128) || mb then unquote_loop f tail (v :: acc) raw
          else unquote_loop f tail acc true
        end
    end
  end.

(* strconv.Unquote *)
Definition unquote (s : list N) : uresult :=
  match s with
  | [] => USyntax
  | [_] => USyntax
  | q :: rest =>
    if q =? 34 then unquote_loop (S (length rest)) rest [] false
    else if (q =? 39) || (q =? 96) then
      (* single-quoted rune / raw string: Go may accept; not modelled *)
      UOutside
    else USyntax
  end.

Definition unquote_opt (s : list N) : option (list N) :=
  match unquote s with UOk r => Some r | _ => None end.

(* ---------------------------------------------------------------------------------------------- *)
(* Scanners used to state structural facts about quoted text *)

(* the usual two-state reading of a string body: a backslash protects the next character.
   true iff the body contains no unprotected DQUOTE, no raw newline, and does not end inside an escape *)
Fixpoint body_scan (escaped : bool) (l : list N) : bool :=
  match l with
  | [] => negb escaped
  | c :: r =>
    if escaped then body_scan false r
    else if c =? 92 then body_scan true r
    else if (c =? 34) || (c =? 10) then false
    else body_scan false r
  end.

(* every DQUOTE in l is immediately preceded by a backslash; [prev] is the character before l *)
Fixpoint quotes_preceded (prev : N) (l : list N) : bool :=
  match l with
  | [] => true
  | c :: r => (negb (c =? 34) || (prev =? 92)) && quotes_preceded c r
  end.
