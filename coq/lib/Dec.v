(* Dec.v — exact decimals as shopspring/decimal keeps them: value = mant * 10^dexp (mant : big.Int, dexp : int32),
   their comparison (Decimal.Cmp via RescalePair), and decimal digit strings of naturals (strings are lists
   of code points, [list N]).  Library file: definitions and their basic facts.  Used by model/NumText.v,
   model/JsonText.v (C13). *)
From Coq Require Import ZArith NArith List Lia Bool.
Import ListNotations.

Ltac dlia := zify; Z.to_euclidean_division_equations; lia.

(* ------------------------------------------------------------------------------------------------ *)
(* digit strings *)

Definition is_digit (c : N) : bool := ((48 <=? c) && (c <=? 57))%N.

Fixpoint digits_fuel (f : nat) (n : N) (acc : list N) : list N :=
  match f with
  | O => acc
  | S f' => if (n <? 10)%N then (48 + n)%N :: acc
            else digits_fuel f' (n / 10)%N ((48 + n mod 10)%N :: acc)
  end.

(* big.Int.String() of a non-negative value: no leading zeros, "0" for zero *)
Definition digits (n : N) : list N := digits_fuel (S (N.to_nat (N.size n))) n [].

(* value of a digit string, leading zeros allowed (strconv.ParseInt / big.Int.SetString base 10) *)
Definition undigits (l : list N) : N := fold_left (fun a c => (10 * a + (c - 48))%N) l 0%N.

Lemma digits_fuel_acc : forall f n acc, digits_fuel f n acc = digits_fuel f n [] ++ acc.
Proof.
  induction f as [|f IH]; intros n acc; simpl; [reflexivity|].
  destruct (n <? 10)%N; [reflexivity|].
  rewrite (IH _ (_ :: acc)), (IH _ [_]), <- app_assoc. reflexivity.
Qed.

Lemma digits_fuel_S : forall f n acc,
  digits_fuel (S f) n acc = if (n <? 10)%N then (48 + n)%N :: acc
                            else digits_fuel f (n / 10)%N ((48 + n mod 10)%N :: acc).
Proof. reflexivity. Qed.

Lemma pow2_S : forall f, (2 ^ N.of_nat (S f) = 2 * 2 ^ N.of_nat f)%N.
Proof. intros f. rewrite Nat2N.inj_succ, N.pow_succ_r'. reflexivity. Qed.

Lemma digits_fuel_indep : forall f1 n f2,
  (n < 2 ^ N.of_nat f1)%N -> (n < 2 ^ N.of_nat f2)%N ->
  digits_fuel (S f1) n [] = digits_fuel (S f2) n [].
Proof.
  induction f1 as [|f1 IH]; intros n f2 H1 H2.
  - simpl in H1. assert (n = 0%N) by lia. subst. reflexivity.
  - rewrite (digits_fuel_S (S f1)), (digits_fuel_S f2).
    destruct (n <? 10)%N eqn:E; [reflexivity|].
    apply N.ltb_ge in E.
    destruct f2 as [|f2]; [simpl in H2; lia|].
    rewrite pow2_S in H1, H2.
    assert (n / 10 < 2 ^ N.of_nat f1)%N by (apply N.div_lt_upper_bound; lia).
    assert (n / 10 < 2 ^ N.of_nat f2)%N by (apply N.div_lt_upper_bound; lia).
    rewrite (digits_fuel_acc (S f1)), (digits_fuel_acc (S f2)).
    rewrite (IH _ f2); auto.
Qed.

Lemma size_bound : forall n, (n < 2 ^ N.of_nat (N.to_nat (N.size n)))%N.
Proof. intros n. rewrite N2Nat.id. apply N.size_gt. Qed.

Lemma digits_eqn : forall n,
  digits n = if (n <? 10)%N then [(48 + n)%N] else digits (n / 10) ++ [(48 + n mod 10)%N].
Proof.
  intros n. unfold digits at 1. rewrite digits_fuel_S.
  destruct (n <? 10)%N eqn:E; [reflexivity|]. apply N.ltb_ge in E.
  pose proof (size_bound n) as Hb.
  destruct (N.to_nat (N.size n)) as [|g] eqn:Eg; [simpl in Hb; lia|].
  rewrite pow2_S in Hb.
  rewrite digits_fuel_acc. f_equal. unfold digits.
  apply digits_fuel_indep.
  - apply N.div_lt_upper_bound; lia.
  - apply size_bound.
Qed.

Lemma N_strong_ind : forall P : N -> Prop,
  (forall n, (forall m, (m < n)%N -> P m) -> P n) -> forall n, P n.
Proof.
  intros P H n. induction n as [n IH] using (well_founded_induction N.lt_wf_0). apply H, IH.
Qed.

Lemma undigits_snoc : forall a c, undigits (a ++ [c]) = (10 * undigits a + (c - 48))%N.
Proof. intros. unfold undigits. rewrite fold_left_app. reflexivity. Qed.

Lemma undigits_app : forall a b,
  undigits (a ++ b) = (undigits a * 10 ^ N.of_nat (length b) + undigits b)%N.
Proof.
  intros a b. induction b as [|c b IH] using rev_ind.
  - rewrite app_nil_r. change (undigits []) with 0%N. change (N.of_nat (length (@nil N))) with 0%N.
    rewrite N.pow_0_r. lia.
  - rewrite app_assoc, !undigits_snoc, IH, app_length. cbn [length].
    replace (N.of_nat (length b + 1)) with (N.succ (N.of_nat (length b))) by lia.
    rewrite N.pow_succ_r'. lia.
Qed.

Lemma undigits_digits : forall n, undigits (digits n) = n.
Proof.
  induction n as [n IH] using N_strong_ind. rewrite digits_eqn.
  destruct (n <? 10)%N eqn:E.
  - apply N.ltb_lt in E. unfold undigits. cbn [fold_left]. lia.
  - apply N.ltb_ge in E. rewrite undigits_snoc, IH by (apply N.div_lt; lia).
    clear IH. dlia.
Qed.

Lemma digits_all_digit : forall n, Forall (fun c => is_digit c = true) (digits n).
Proof.
  induction n as [n IH] using N_strong_ind. rewrite digits_eqn.
  destruct (n <? 10)%N eqn:E.
  - apply N.ltb_lt in E. constructor; [|constructor]. unfold is_digit.
    apply andb_true_intro; split; apply N.leb_le; lia.
  - apply N.ltb_ge in E. apply Forall_app. split; [apply IH, N.div_lt; lia|].
    constructor; [|constructor]. unfold is_digit.
    apply andb_true_intro; split; apply N.leb_le; dlia.
Qed.

Lemma digits_nonempty : forall n, digits n <> [].
Proof.
  intros n. rewrite digits_eqn. destruct (n <? 10)%N; [discriminate|].
  intros H. apply app_eq_nil in H. destruct H; discriminate.
Qed.

Lemma digits_tenfold : forall n, (0 < n)%N -> digits (10 * n) = digits n ++ [48%N].
Proof.
  intros n Hn. rewrite digits_eqn. destruct (10 * n <? 10)%N eqn:E.
  - apply N.ltb_lt in E. lia.
  - rewrite N.mul_comm, N.div_mul, N.mod_mul by lia. reflexivity.
Qed.

Lemma digits_pow10 : forall n j, (0 < n)%N -> digits (n * 10 ^ N.of_nat j) = digits n ++ repeat 48%N j.
Proof.
  intros n j Hn. induction j as [|j IH].
  - simpl. rewrite N.mul_1_r, app_nil_r. reflexivity.
  - rewrite Nat2N.inj_succ, N.pow_succ_r'.
    replace (n * (10 * 10 ^ N.of_nat j))%N with (10 * (n * 10 ^ N.of_nat j))%N by lia.
    rewrite digits_tenfold, IH.
    + rewrite <- app_assoc. f_equal. change [48%N] with (repeat 48%N 1). rewrite <- repeat_app.
      f_equal. lia.
    + assert (0 < 10 ^ N.of_nat j)%N by (apply N.neq_0_lt_0, N.pow_nonzero; lia). lia.
Qed.

Lemma digits_zero : digits 0 = [48%N].
Proof. reflexivity. Qed.

Lemma undigits_repeat0 : forall j, undigits (repeat 48%N j) = 0%N.
Proof.
  induction j as [|j IH]; [reflexivity|].
  replace (S j) with (j + 1)%nat by lia. rewrite repeat_app. simpl repeat.
  rewrite undigits_snoc, IH. reflexivity.
Qed.

(* first digit of a positive number is not '0' *)
Lemma digits_head_nonzero : forall n, (0 < n)%N -> exists c r, digits n = c :: r /\ c <> 48%N.
Proof.
  induction n as [n IH] using N_strong_ind. intros Hn. rewrite digits_eqn.
  destruct (n <? 10)%N eqn:E.
  - exists (48 + n)%N, []. split; [reflexivity|lia].
  - apply N.ltb_ge in E.
    destruct (IH (n / 10)%N) as (c & r & Hd & Hc).
    + apply N.div_lt; lia.
    + apply N.div_str_pos; lia.
    + exists c, (r ++ [(48 + n mod 10)%N]). rewrite Hd. split; [reflexivity|assumption].
Qed.

(* ------------------------------------------------------------------------------------------------ *)
(* decimals *)

Record dec := Dec { mant : Z; dexp : Z }.

(* decimal.RescalePair: bring both to the smaller exponent (exact: only multiplies) *)
Definition rescale_pair (a b : dec) : Z * Z :=
  let m := Z.min (dexp a) (dexp b) in
  ((mant a * 10 ^ (dexp a - m))%Z, (mant b * 10 ^ (dexp b - m))%Z).

(* Decimal.Cmp *)
Definition dec_cmp (a b : dec) : comparison :=
  let (x, y) := rescale_pair a b in (x ?= y)%Z.

(* Decimal.Equal *)
Definition dec_eqb (a b : dec) : bool := match dec_cmp a b with Eq => true | _ => false end.
Definition dec_eq (a b : dec) : Prop := dec_eqb a b = true.

(* exponent within the type (int32) *)
Definition int32_min : Z := (- 2147483648)%Z.
Definition int32_max : Z := 2147483647%Z.
Definition in_int32 (e : Z) : bool := ((int32_min <=? e) && (e <=? int32_max))%Z.

(* canonical representative: no trailing zero in the mantissa; zero is (0,0) *)
Fixpoint strip_fuel (f : nat) (m e : Z) : dec :=
  match f with
  | O => Dec m e
  | S f' => if ((m mod 10 =? 0) && negb (m =? 0))%Z then strip_fuel f' (m / 10)%Z (e + 1)%Z else Dec m e
  end.
Definition dec_norm (d : dec) : dec :=
  if (mant d =? 0)%Z then Dec 0 0 else strip_fuel (S (Z.to_nat (Z.log2 (Z.abs (mant d))))) (mant d) (dexp d).

Lemma pow10_pos : forall k, (0 < 10 ^ k)%Z \/ (k < 0)%Z.
Proof. intros k. destruct (Z_lt_le_dec k 0); [right; assumption|left; apply Z.pow_pos_nonneg; lia]. Qed.

Lemma pow10_pos' : forall k, (0 <= k)%Z -> (0 < 10 ^ k)%Z.
Proof. intros. apply Z.pow_pos_nonneg; lia. Qed.

(* comparing at any common exponent k below both gives the same answer *)
Lemma dec_eq_at : forall a b k, (k <= dexp a)%Z -> (k <= dexp b)%Z ->
  (dec_eq a b <-> (mant a * 10 ^ (dexp a - k) = mant b * 10 ^ (dexp b - k))%Z).
Proof.
  intros [ma ea] [mb eb] k Ha Hb. cbn [dexp mant] in *.
  unfold dec_eq, dec_eqb, dec_cmp, rescale_pair. cbn [dexp mant].
  set (m := Z.min ea eb).
  assert (Hk : (k <= m)%Z) by (unfold m; lia).
  assert (Hma : (m <= ea)%Z) by (unfold m; lia).
  assert (Hmb : (m <= eb)%Z) by (unfold m; lia).
  replace (ea - k)%Z with ((ea - m) + (m - k))%Z by lia.
  replace (eb - k)%Z with ((eb - m) + (m - k))%Z by lia.
  rewrite !Z.pow_add_r by lia. rewrite !Z.mul_assoc.
  pose proof (pow10_pos' (m - k)%Z ltac:(lia)) as Hp.
  destruct (Z.compare_spec (ma * 10 ^ (ea - m)) (mb * 10 ^ (eb - m)))%Z as [E|E|E].
  - split; [intros _; rewrite E; reflexivity|reflexivity].
  - split; [discriminate|]. intros H. apply Z.mul_cancel_r in H; lia.
  - split; [discriminate|]. intros H. apply Z.mul_cancel_r in H; lia.
Qed.

Lemma dec_eq_refl : forall a, dec_eq a a.
Proof. intros a. apply (dec_eq_at a a (dexp a)); lia. Qed.

Lemma dec_eq_sym : forall a b, dec_eq a b -> dec_eq b a.
Proof.
  intros a b H. apply (dec_eq_at b a (Z.min (dexp a) (dexp b))); try lia.
  symmetry. apply (dec_eq_at a b (Z.min (dexp a) (dexp b))); try lia. assumption.
Qed.

Lemma dec_eq_trans : forall a b c, dec_eq a b -> dec_eq b c -> dec_eq a c.
Proof.
  intros a b c H1 H2. set (k := Z.min (dexp a) (Z.min (dexp b) (dexp c))).
  apply (dec_eq_at a b k) in H1; try (unfold k; lia).
  apply (dec_eq_at b c k) in H2; try (unfold k; lia).
  apply (dec_eq_at a c k); try (unfold k; lia). congruence.
Qed.

(* the same value written with j more trailing zeros in the mantissa *)
Lemma dec_eq_scale : forall m e j, (0 <= j)%Z -> dec_eq (Dec (m * 10 ^ j) (e - j)) (Dec m e).
Proof.
  intros m e j Hj. apply (dec_eq_at _ _ (e - j)%Z); cbn [dexp mant]; try lia.
  rewrite Z.sub_diag, Z.pow_0_r, Z.mul_1_r. f_equal. f_equal. lia.
Qed.

Lemma dec_eq_inv : forall a b, dec_eq a b -> (dexp a <= dexp b)%Z ->
  mant a = (mant b * 10 ^ (dexp b - dexp a))%Z.
Proof.
  intros a b H Hle. apply (dec_eq_at a b (dexp a)) in H; try lia.
  rewrite Z.sub_diag, Z.pow_0_r, Z.mul_1_r in H. assumption.
Qed.

Lemma dec_eqb_spec : forall a b, dec_eqb a b = true <-> dec_eq a b.
Proof. intros; reflexivity. Qed.
