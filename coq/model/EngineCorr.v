(* EngineCorr.v — runs the engine model on a history and renders what it did as the token stream that
   harness/cmd/engine/exec.go produces from the real engine (enc_* there and here must stay in step).
   No proofs. *)

From Coq Require Import List NArith ZArith Bool.
From Verif Require Import model.Lang model.Engine.
Import ListNotations.
Open Scope N_scope.

Definition nn (n : nat) : N := N.of_nat n.

Definition enc_text (t : text) : list N := nn (length t) :: t.
Definition enc_onat (o : option nat) : list N := match o with None => [0] | Some n => [1; nn n] end.
Definition enc_oid (o : option id) : list N := match o with None => [0] | Some n => [1; n] end.
Definition enc_stepref (o : option stepref) : list N :=
  match o with None => [0] | Some (r, p) => [1; nn r; nn p] end.

Definition fail_code_n (c : fail_code) : N :=
  match c with
  | FStepLimit => 0 | FNoCategory => 1 | FChildFailed => 2 | FMissingFlow => 3 | FParentMissingFlow => 3
  | FMaxResumes => 4 | FNoLocation => 5 | FNoWait => 6 | FRouteError => 7 | FParentNodeGone => 8
  | FEnterMissingFlow => 10 | FEnterFlowType => 11 | FVoiceNoCall => 12
  end.

Definition b2n (b : bool) : N := if b then 1 else 0.

Definition enc_ekind (k : ekind) : list N :=
  match k with
  | EMsgReceived t => 1 :: enc_text t
  | EMsgCreated t => 2 :: enc_text t
  | EResultChanged n v c => 3 :: enc_text n ++ enc_text v ++ enc_text c
  | EFlowEntered f t => [4; f; b2n t]
  | EMsgWait o => 5 :: match o with None => [0] | Some s => [1; s] end
  | EWaitTimedOut => [6]
  | ERunExpired => [7]
  | EDialEnded => [8]
  | EFailure c => [9; fail_code_n c]
  | EDialWait => [10]
  end.

Definition enc_event (e : event) : list N := enc_stepref (ev_step e) ++ enc_ekind (ev_kind e).

Definition rstatus_n (x : rstatus) : N :=
  match x with RActive => 0 | RWaiting => 1 | RCompleted => 2 | RFailed => 3 | RExpired => 4 end.
Definition sstatus_n (x : sstatus) : N :=
  match x with SActive => 0 | SWaiting => 1 | SCompleted => 2 | SFailed => 3 end.

Definition enc_list {A} (f : A -> list N) (l : list A) : list N := nn (length l) :: flat_map f l.

(* results are a Go map: compared sorted by name *)
Fixpoint text_leb (a b : text) : bool :=
  match a, b with
  | [], _ => true
  | _ :: _, [] => false
  | x :: a', y :: b' => if N.ltb x y then true else if N.ltb y x then false else text_leb a' b'
  end.

Fixpoint insert_result (x : result) (l : list result) : list result :=
  match l with
  | [] => [x]
  | y :: rest => if text_leb (res_name x) (res_name y) then x :: l else y :: insert_result x rest
  end.
Definition sort_results (l : list result) : list result := fold_right insert_result [] l.

Definition enc_result (r : result) : list N :=
  enc_text (res_name r) ++ enc_text (res_value r) ++ enc_text (res_cat r) ++ [res_node r] ++ enc_text (res_input r).

Definition enc_step (s : step) : list N := st_node s :: enc_oid (st_exit s).

Definition enc_run (r : run) : list N :=
  [r_flow r] ++ enc_onat (r_parent r) ++ [rstatus_n (r_status r); b2n (r_exited r)]
  ++ enc_list enc_step (r_path r) ++ enc_list enc_event (r_events r)
  ++ enc_list enc_result (sort_results (r_results r)).

Definition enc_session (s : session) : list N :=
  [sstatus_n (s_status s)] ++ enc_list enc_run (s_runs s)
  ++ match s_input s with None => [0] | Some t => 1 :: enc_text t end.

Definition enc_segment (g : segment) : list N :=
  [sg_flow g; sg_node g; sg_exit g] ++ enc_text (sg_operand g) ++ [sg_dest g].

Definition enc_sprint (sp : sprint) : list N :=
  enc_list (fun '(ri, e) => enc_onat ri ++ enc_event e) (sp_events sp) ++ enc_list enc_segment (sp_segments sp).

Definition enc_result_ (r : result_) : list N :=
  match r with
  | ROk x => 0 :: enc_session (session_ x) ++ enc_sprint (sprint_ x)
  | RGoError _ => [2]
  | RPanic => [3]
  | ROutOfFuel => [4]
  end.

(* ---- validity of definitions (what the loader guarantees and the engine relies on; proofs/EngineNoErr.v
        proves that this boolean implies the predicate the theorems assume).  Every asset store the harness
        generates was accepted by the real loader, and [check] requires this boolean of it: the predicate is
        therefore not stronger than what the loader accepts, on everything generated. ------------------------ *)

Definition valid_router_b (rt : router) : bool :=
  forallb (fun c => Nat.ltb (snd c) (length (rt_cats rt))) (rt_cases rt) &&
  match rt_default rt with Some ci => Nat.ltb ci (length (rt_cats rt)) | None => true end &&
  match rt_wait rt with
  | Some {| w_timeout := Some (_, ci) |} => Nat.ltb ci (length (rt_cats rt))
  | _ => true
  end.

Definition valid_node_b (f : flow) (n : node) : bool :=
  forallb (fun e => match e_dest e with Some d => match get_node f d with Some _ => true | None => false end | None => true end) (n_exits n) &&
  match n_router n with Some rt => valid_router_b rt | None => true end.

Definition valid_assets_b (a : assets) : bool :=
  forallb (fun f => forallb (valid_node_b f) (f_nodes f)) (a_flows a).


Definition valid_cat_exits_b (a : assets) : bool :=
  forallb (fun f => forallb (fun n => match n_router n with
                                     | Some rt => forallb (fun c => match find_exit (n_exits n) (cat_exit c) with Some _ => true | None => false end) (rt_cats rt)
                                     | None => true end) (f_nodes f)) (a_flows a).


(* ---- histories ------------------------------------------------------------------------------------- *)

Inductive op :=
| OResume (r : resume)
| OFault (a : assets) (r : resume)          (* the asset store changed before this resume *)
| OTamper (r : resume).                     (* every waiting run made active before this resume *)

Record hcase := {
  hc_assets : assets; hc_trigger : trigger; hc_flow : id; hc_ops : list op;
  hc_obs : list (list N)                    (* one token stream per engine call, from the implementation *)
}.

Definition timeout_text : text := [84].     (* the canonical value of results saved by a timeout route *)

Definition tamper (s : session) : session :=
  set_runs s (map (fun r => match r_status r with RWaiting => run_set_status RActive r | _ => r end) (s_runs s)).

(* run the ops; returns the token streams of the calls made (the history stops after a Go error / panic) *)
Fixpoint run_ops (a : assets) (s : session) (ops : list op) : list (list N) :=
  match ops with
  | [] => []
  | o :: rest =>
      let '(a, s, r) := match o with
                        | OResume r => (a, s, r)
                        | OFault a' r => (a', s, r)
                        | OTamper r => (a, tamper s, r)
                        end in
      (* the state-passing form: after an engine error the history goes on with the session the method left
         behind (proved to be the caller's session, proofs/EngineProofs.v), and that session and the (empty)
         sprint are compared with the real ones *)
      match resume_m a s r timeout_text with
      | (x', OErr code) => ([1; code] ++ enc_session (session_ x') ++ enc_sprint (sprint_ x')) :: run_ops a (session_ x') rest
      | (_, ORes res) =>
          enc_result_ res ::
          match res with
          | ROk x => run_ops a (session_ x) rest
          | _ => []
          end
      end
  end.

Definition run_history (h : hcase) : list (list N) :=
  let res := start (hc_assets h) (hc_trigger h) (hc_flow h) in
  enc_result_ res ::
  match res with
  | ROk x => run_ops (hc_assets h) (session_ x) (hc_ops h)
  | _ => []
  end.

(* [wildcard]: the harness writes this token where the implementation said something the projection does not
   recognise (a failure text that is none of the known phrases, an engine error code other than 101/102/103):
   wording and new codes are not part of any property.  It matches any single model token; everything around it
   (that there is a failure event / an engine error, its run, step, position) is still compared. *)
Definition wildcard : N := 4000000007.

Fixpoint tokens_eqb (a b : list N) : bool :=     (* a: model, b: implementation *)
  match a, b with
  | [], [] => true
  | x :: a', y :: b' => (N.eqb x y || N.eqb y wildcard) && tokens_eqb a' b'
  | _, _ => false
  end.

Fixpoint streams_eqb (a b : list (list N)) : bool :=
  match a, b with
  | [], [] => true
  | x :: a', y :: b' => tokens_eqb x y && streams_eqb a' b'
  | _, _ => false
  end.

Definition op_assets_valid (o : op) : bool :=
  match o with OFault a _ => valid_assets_b a && valid_cat_exits_b a | _ => true end.

Definition check (h : hcase) : bool :=
  valid_assets_b (hc_assets h) && valid_cat_exits_b (hc_assets h) && forallb op_assets_valid (hc_ops h)
  && streams_eqb (run_history h) (hc_obs h).

Fixpoint mismatches_from (i : N) (hs : list hcase) : list N :=
  match hs with
  | [] => []
  | h :: rest => (if check h then [] else [i]) ++ mismatches_from (i + 1) rest
  end.
Definition mismatches (hs : list hcase) : list N := mismatches_from 0 hs.

(* debugging aid: first differing call and token position *)
Fixpoint first_diff (i : nat) (a b : list N) : option (nat * option N * option N) :=
  match a, b with
  | [], [] => None
  | x :: a', y :: b' => if N.eqb x y || N.eqb y wildcard then first_diff (S i) a' b' else Some (i, Some x, Some y)
  | x :: _, [] => Some (i, Some x, None)
  | [], y :: _ => Some (i, None, Some y)
  end.
