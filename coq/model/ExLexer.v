(* ExLexer.v — model of the ANTLR4 lexer generated from /repo/antlr/Excellent3.g4: at every position
   the rule with the LONGEST match wins, ties go to the rule written first (rule order and rule shapes
   come from gen/GrammarE3.v, regenerated from the .g4 on every run), tokens of a `-> skip` rule are
   dropped, and since the last rule ERROR matches any single character the lexer itself never fails.
   The generated Go lexer (antlr/gen/excellent3) and the ANTLR runtime are not verified: this model is
   validated against them differentially (harness/cmd/c11).  No proofs here. *)
From Coq Require Import List NArith Bool.
From Verif Require Import model.ExSyntax gen.GrammarE3.
Import ListNotations.
Open Scope N_scope.

Fixpoint in_ranges (c : N) (rs : list (N * N)) : bool :=
  match rs with
  | [] => false
  | (lo, hi) :: r => ((lo <=? c) && (c <=? hi)) || in_ranges c r
  end.

Definition is_letter (c : N) : bool := in_ranges c unicode_letter.   (* fragment UnicodeLetter *)
Definition is_udigit (c : N) : bool := in_ranges c unicode_digit.    (* fragment UnicodeDigit *)
Definition name_start (c : N) : bool := is_letter c || (c =? 95).
Definition name_char (c : N) : bool := is_letter c || is_udigit c || (c =? 95).
Definition is_digit (c : N) : bool := (48 <=? c) && (c <=? 57).

(* number of leading elements satisfying f *)
Fixpoint span_len (f : N -> bool) (l : text) : nat :=
  match l with
  | c :: r => if f c then S (span_len f r) else O
  | [] => O
  end.

(* 'xyz' *)
Fixpoint m_lit (s inp : text) : option nat :=
  match s, inp with
  | [], _ => Some O
  | a :: s', c :: r => if a =? c then option_map S (m_lit s' r) else None
  | _ :: _, [] => None
  end.

(* [Xx][Yy]...: s is the word in lower case (ASCII letters) *)
Fixpoint m_ci (s inp : text) : option nat :=
  match s, inp with
  | [], _ => Some O
  | a :: s', c :: r => if (a =? c) || (a =? c + 32) then option_map S (m_ci s' r) else None
  | _ :: _, [] => None
  end.

(* TEXT: DQUOTE (~[DQUOTE] | BACKSLASH DQUOTE)* DQUOTE.  The words of this language are: a DQUOTE, then
   characters among which every DQUOTE is immediately preceded by a backslash, then a DQUOTE.  Hence, reading
   on from the opening quote: a DQUOTE whose predecessor is not a backslash MUST be the end; one whose
   predecessor is a backslash MAY be the end (longest match: it is the end only if no later DQUOTE is).
   n = characters consumed so far, best = longest match seen so far. *)
Fixpoint text_scan (prev : N) (n : nat) (best : option nat) (l : text) : option nat :=
  match l with
  | [] => best
  | c :: r =>
      if c =? 34 then
        if prev =? 92 then text_scan c (S n) (Some (S n)) r
        else Some (S n)
      else text_scan c (S n) best r
  end.

Definition m_text (inp : text) : option nat :=
  match inp with
  | c :: r => if c =? 34 then text_scan c 1 None r else None
  | [] => None
  end.

Definition m_digits (inp : text) : option nat :=
  match span_len is_digit inp with O => None | n => Some n end.

Definition m_decimal (inp : text) : option nat :=
  match span_len is_digit inp with
  | O => None
  | n =>
      match skipn n inp with
      | c :: r => if c =? 46 then
                    match span_len is_digit r with O => None | m => Some (n + 1 + m)%nat end
                  else None
      | [] => None
      end
  end.

Definition m_name (inp : text) : option nat :=
  match inp with
  | c :: r => if name_start c then Some (S (span_len name_char r)) else None
  | [] => None
  end.

Definition m_ws (cs inp : text) : option nat :=
  match span_len (fun c => existsb (N.eqb c) cs) inp with O => None | n => Some n end.

Definition m_any (inp : text) : option nat :=
  match inp with _ :: _ => Some 1%nat | [] => None end.

Definition match_shape (sh : shape) (inp : text) : option nat :=
  match sh with
  | SLit s => m_lit s inp
  | SCi s => m_ci s inp
  | SText => m_text inp
  | SDigits => m_digits inp
  | SDecimal => m_decimal inp
  | SName => m_name inp
  | SWs cs => m_ws cs inp
  | SAny => m_any inp
  end.

Definition is_skip (sh : shape) : bool := match sh with SWs _ => true | _ => false end.

(* longest match, first rule wins ties; empty matches do not count *)
Fixpoint best_rule (rules : list (kind * shape)) (inp : text) (best : option (kind * shape * nat))
  : option (kind * shape * nat) :=
  match rules with
  | [] => best
  | (k, sh) :: r =>
      let best' :=
        match match_shape sh inp with
        | Some (S n) =>
            match best with
            | Some (_, _, m) => if Nat.ltb m (S n) then Some (k, sh, S n) else best
            | None => Some (k, sh, S n)
            end
        | _ => best
        end in
      best_rule r inp best'
  end.

(* next token: (kind, skipped?, lexeme, rest) *)
Definition lex_one_with (rules : list (kind * shape)) (inp : text) : option (kind * bool * text * text) :=
  match best_rule rules inp None with
  | Some (k, sh, n) => Some (k, is_skip sh, firstn n inp, skipn n inp)
  | None => None
  end.

Definition lex_one (inp : text) : option (kind * bool * text * text) := lex_one_with lexer_rules inp.

Inductive lresult := LOk (ts : list token) | LNoRule | LFuel.

Fixpoint lex_loop (fuel : nat) (inp : text) : lresult :=
  match inp with
  | [] => LOk []
  | _ :: _ =>
      match fuel with
      | O => LFuel
      | S f =>
          match lex_one inp with
          | None => LNoRule            (* token recognition error; impossible while rule ERROR exists *)
          | Some (k, skip, lexeme, rest) =>
              match lex_loop f rest with
              | LOk ts => LOk (if skip then ts else {| tk := k; tx := lexeme |} :: ts)
              | r => r
              end
          end
      end
  end.

(* every token consumes at least one character *)
Definition lex (inp : text) : lresult := lex_loop (length inp) inp.
