(* ConcCorr.v -- property C09: comparison of the concurrency model's predictions with what the -race driver
   (harness/cmd/c09) observed on the real code.  No proofs.
   `code_discipline` is the access discipline of the CURRENT goflow tree: computed from gen/SharedState.v
   (regenerated on every run) and the committed lists of model/SharedStateAllow.v. *)
From Coq Require Import List String NArith Bool.
From Verif Require Import model.Conc model.SharedStateAllow gen.SharedState.
From Verif Require model.FlowCache.
Import ListNotations.
Open Scope N_scope.

Definition code_discipline : discipline :=
  discipline_of shared_state_allow mutex_methods global_writes shared_field_writes global_shared_vars.

(* one round of the driver: for every goroutine, for every flow of the scenario, the identity of the flow object
   that Flows().Get returned (numbered by first appearance, 0 = the call failed) *)
Definition cache_obs := list (list N).

Fixpoint column (j : nat) (rows : cache_obs) : list N :=
  match rows with
  | [] => []
  | r :: t => nth j r 0 :: column j t
  end.

(* all goroutines that obtained flow j obtained the same object *)
Definition single_object (ids : list N) : bool :=
  match filter (fun x => negb (N.eqb x 0)) ids with
  | [] => true
  | x :: t => forallb (N.eqb x) t
  end.

Definition width (rows : cache_obs) : nat := match rows with [] => O | r :: _ => List.length r end.

Definition round_ok (rows : cache_obs) : bool :=
  forallb (fun j => single_object (column j rows)) (seq 0 (width rows)).

Fixpoint bad_rounds (i : N) (cs : list cache_obs) : list N :=
  match cs with
  | [] => []
  | c :: t => (if round_ok c then [] else [i]) ++ bad_rounds (i + 1) t
  end.

(* when the extracted discipline satisfies the hypotheses of c09_race_free / c09_solo_equiv the model predicts: no
   race report, and one definition object per flow and round (one load per cold cache).  When it does not, the
   model predicts nothing about the run. *)
Definition mismatches (d : discipline) (observed_races : N) (cs : list cache_obs) : list N :=
  if discipline_ok d
  then (if N.eqb observed_races 0 then [] else [1000000 + observed_races]) ++ bad_rounds 0 cs
  else [].

(* ---- the flow cache model against flowAssets over the static source (review round 2, finding 2) ----
   One case: a source (in list order; names case-folded to numbers; d_body = position of the asset in the source, which
   the driver reads back from the revision of the flow it got), the look-ups performed before on the SAME flowAssets,
   the look-up observed, and what came back: 0 = error, p + 1 = the definition of the asset at position p.  Sources with
   clashing names, inner uuids / names that differ from the asset's and (some) duplicate asset uuids. *)
Record lookup_case := { lc_src : FlowCache.source; lc_ops : list FlowCache.lookup_op; lc_op : FlowCache.lookup_op; lc_impl : N }.

Definition lookup_model (c : lookup_case) : N :=
  match snd (FlowCache.do_op (lc_src c) (FlowCache.after (lc_src c) (lc_ops c)) (lc_op c)) with
  | None => 0
  | Some d => N.of_nat (S (FlowCache.d_body d))
  end.

Fixpoint bad_lookups (i : N) (cs : list lookup_case) : list N :=
  match cs with
  | [] => []
  | c :: t => (if N.eqb (lookup_model c) (lc_impl c) then [] else [2000000 + i]) ++ bad_lookups (i + 1) t
  end.
