(* ExEval.v — model of the Excellent evaluator core with its PARTIAL primitives made explicit (C04).
   No proofs here.

   Transcribed, statement by statement, from
     excellent/functions/wrappers.go   MinAndMaxArgsCheck, NumArgsCheck, MinArgsCheck, OneArgFunction, TwoArgFunction,
                                       ThreeArgFunction, OneTextFunction, TwoTextFunction, OneArrayFunction,
                                       TwoArrayFunction, OneNumberFunction,
                                       TwoNumberFunction, TextAndIntegerFunction, InitialTextFunction,
                                       OneNumberAndOptionalIntegerFunction, ThreeIntegerFunction
     excellent/functions/builtin.go    Word, WordSlice, Field, TextSlice, Char, Repeat, Replace, Round, RoundUp,
                                       RoundDown, checkRoundingPlaces, Mod, Mean, Max, Min, Percent, FormatNumber,
                                       DateFromParts, TimeFromParts, DateTimeAdd, Array, Object, ExtractObject,
                                       RegexMatch, ForEach, Text, Number, Boolean, And, Or, If, Abs, Count, Default,
                                       Join, Reverse, Sum, Concat, IsError, TextLength, TextCompare
                                       (+ the registrations in init())
     excellent/functions/utils.go      extractWords;  utils/text.go TokenizeString, TokenizeStringByChars
     flows/routers/cases/tests.go      HasGroup
     excellent/operators/builtin.go    all operators (+ wrappers.go textualBinary, numericalBinary, numericalUnary)
     excellent/tree.go                 ContextReference, DotLookup, ArrayLookup, FunctionCall, the operator nodes,
                                       resolveLookup
     excellent/types/function.go       XFunction.Call

   Every Go operation that can panic is a partial primitive of ExValues.v (go_index, go_slice, go_slice_from,
   dec_mul, dec_quorem, ...) or the argument access [with_arg] below; where the primitive is undefined the model
   returns [Panic c] (c = the class of the Go panic).  Nothing is totalised: the guards of the Go code are transcribed as they are and it is the
   THEOREMS (proofs/ExEvalProofs.v) that show the guards keep every primitive inside its domain.

   Not modelled (enter as Section variables, the theorems hold for every instantiation):
     wclass          Unicode classes of wordTokenRegex  [\pM\pL\pN_']+|\pS  (1 = word character, 2 = symbol)
     regex_submatch  regexp.Compile("(?mi)"+pattern) + FindStringSubmatch (None = does not compile)
     ext_call        every registered function outside the modelled set (may return Panic: nothing is assumed)
     frac_pow        the series part of Decimal.Pow on a non-integral power (Ln, ExpTaylor, final Mul); may return a
                     panic class: nothing is assumed in the model, the theorems state their hypothesis
   Values of date/time kind are opaque (kind only); strings.Replace is re-implemented (str_replace);
   FormatCustom's digit grouping is not reproduced (format_number is compared on the kind of its result). *)
From Coq Require Import ZArith NArith List Bool.
From Verif Require Import lib.Dec model.NumText model.ExValues.
Import ListNotations.

Notation "'do' x <- c ; k" := (match c with Ok x => k | Bad => Ret VErr end)
  (at level 200, x name, c at level 100, k at level 200, only parsing).

Definition zlen {A} (l : list A) : Z := Z.of_nat (length l).

(* args[k] *)
Definition with_arg (args : list value) (k : nat) (f : value -> res) : res :=
  match nth_error args k with Some v => f v | None => Panic PBounds end.

(* args[k:] *)
Definition with_rest (args : list value) (k : nat) (f : list value -> res) : res :=
  match go_slice_from args (Z.of_nat k) with Some r => f r | None => Panic PBounds end.

(* ------------------------------------------------------------------------------------------------ *)
(* wrappers.go *)

(* MinAndMaxArgsCheck(min, max, f); max < 0 = no maximum *)
Definition min_max_args (min : nat) (max : Z) (f : list value -> res) (args : list value) : res :=
  let n := length args in
  let reject :=
    if (Z.of_nat min =? max)%Z then negb (Nat.eqb n min)
    else if (max <? 0)%Z then Nat.ltb n min
    else Nat.ltb n min || (max <? Z.of_nat n)%Z in
  if reject then Ret VErr else f args.

Definition num_args (n : nat) := min_max_args n (Z.of_nat n).
Definition min_args (n : nat) := min_max_args n (-1)%Z.

Definition one_arg_function (f : value -> res) : list value -> res :=
  num_args 1 (fun args => with_arg args 0 f).

Definition two_arg_function (f : value -> value -> res) : list value -> res :=
  num_args 2 (fun args => with_arg args 0 (fun a0 => with_arg args 1 (fun a1 => f a0 a1))).

Definition three_arg_function (f : value -> value -> value -> res) : list value -> res :=
  num_args 3 (fun args => with_arg args 0 (fun a0 => with_arg args 1 (fun a1 => with_arg args 2 (fun a2 => f a0 a1 a2)))).

Definition one_text_function (f : text -> res) : list value -> res :=
  num_args 1 (fun args => with_arg args 0 (fun a0 => do s <- to_text a0; f s)).

Definition two_text_function (f : text -> text -> res) : list value -> res :=
  num_args 2 (fun args => with_arg args 0 (fun a0 => do s1 <- to_text a0;
                          with_arg args 1 (fun a1 => do s2 <- to_text a1; f s1 s2))).

Definition one_array_function (f : list value -> res) : list value -> res :=
  num_args 1 (fun args => with_arg args 0 (fun a0 => do items <- to_array a0; f items)).

Definition two_array_function (f : list value -> list value -> res) : list value -> res :=
  num_args 2 (fun args => with_arg args 0 (fun a0 => do x <- to_array a0;
                          with_arg args 1 (fun a1 => do y <- to_array a1; f x y))).

Definition one_number_function (f : dec -> res) : list value -> res :=
  num_args 1 (fun args => with_arg args 0 (fun a0 => do n <- to_number a0; f n)).

Definition two_number_function (f : dec -> dec -> res) : list value -> res :=
  num_args 2 (fun args => with_arg args 0 (fun a0 => do n1 <- to_number a0;
                          with_arg args 1 (fun a1 => do n2 <- to_number a1; f n1 n2))).

Definition text_and_integer_function (f : text -> Z -> res) : list value -> res :=
  num_args 2 (fun args => with_arg args 0 (fun a0 => do s <- to_text a0;
                          with_arg args 1 (fun a1 => do n <- to_integer a1; f s n))).

Definition initial_text_function (min_other max_other : nat) (f : text -> list value -> res) : list value -> res :=
  min_max_args (min_other + 1) (Z.of_nat (max_other + 1))
    (fun args => with_arg args 0 (fun a0 => do s <- to_text a0; with_rest args 1 (fun r => f s r))).

Definition one_number_and_optional_integer_function (f : dec -> Z -> res) (default : Z) : list value -> res :=
  min_max_args 1 2 (fun args => with_arg args 0 (fun a0 => do n <- to_number a0;
    if Nat.eqb (length args) 2 then with_arg args 1 (fun a1 => do i <- to_integer a1; f n i)
    else f n default)).

Definition three_integer_function (f : Z -> Z -> Z -> res) : list value -> res :=
  num_args 3 (fun args => with_arg args 0 (fun a0 => do n1 <- to_integer a0;
                          with_arg args 1 (fun a1 => do n2 <- to_integer a1;
                          with_arg args 2 (fun a2 => do n3 <- to_integer a2; f n1 n2 n3)))).

(* ------------------------------------------------------------------------------------------------ *)
(* text primitives of the Go standard library, re-implemented *)

Fixpoint is_prefix (p s : text) : bool :=
  match p, s with
  | [], _ => true
  | _ :: _, [] => false
  | x :: p', y :: s' => N.eqb x y && is_prefix p' s'
  end.

Definition flush (cur : text) : list text := match cur with [] => [] | _ => [rev cur] end.

(* strings.Split(s, sep), sep non-empty; [skip] counts the characters of a matched separator still to pass *)
Fixpoint split_go (s sep : text) (skip : nat) (cur : text) : list text :=
  match s with
  | [] => [rev cur]
  | c :: r => match skip with
              | S k => split_go r sep k cur
              | O => if is_prefix sep s then rev cur :: split_go r sep (length sep - 1) []
                     else split_go r sep 0 (c :: cur)
              end
  end.

Definition str_split (s sep : text) : list text :=
  match sep with
  | [] => map (fun c => [c]) s                   (* explode *)
  | _ => split_go s sep 0 []
  end.

(* strings.Replace(s, old, new, n): n < 0 = all *)
Fixpoint replace_go (s old new : text) (n : Z) (skip : nat) : text :=
  match s with
  | [] => []
  | c :: r => match skip with
              | S k => replace_go r old new n k
              | O => if ((n =? 0)%Z) then s
                     else if is_prefix old s then new ++ replace_go r old new (n - 1) (length old - 1)
                     else c :: replace_go r old new n 0
              end
  end.

Fixpoint replace_empty (s new : text) (n : Z) : text :=       (* old = "": before every rune and at the end *)
  if (n =? 0)%Z then s
  else match s with
       | [] => new
       | c :: r => new ++ c :: replace_empty r new (n - 1)
       end.

Definition str_replace (s old new : text) (n : Z) : text :=
  match old with
  | [] => replace_empty s new n
  | _ => replace_go s old new n 0
  end.

(* strings.Join(words, " ") *)
Definition join_sp (l : list text) : text := join [32%N] l.

(* the loop of Repeat: for j < count { output.WriteString(text) }, INSTRUMENTED: the second component counts the
   code points written, i.e. the steps the loop itself takes *)
Fixpoint repeat_loop (s : text) (n : nat) (out : text) (cells : N) : text * N :=
  match n with
  | O => (out, cells)
  | S k => repeat_loop s k (out ++ s) (cells + N.of_nat (length s))%N
  end.

Section Ext.

Variable wclass : N -> N.
Variable regex_submatch : text -> text -> option (list text).
Variable ext_call : N -> list value -> res.

(* utils.TokenizeString: wordTokenRegex.FindAllString *)
Fixpoint tokenize_go (s cur : text) : list text :=
  match s with
  | [] => flush cur
  | c :: r => if (wclass c =? 1)%N then tokenize_go r (c :: cur)
              else flush cur ++ (if (wclass c =? 2)%N then [[c]] else []) ++ tokenize_go r []
  end.

(* utils.TokenizeStringByChars: strings.FieldsFunc *)
Fixpoint fields_go (delims s cur : text) : list text :=
  match s with
  | [] => flush cur
  | c :: r => if existsb (N.eqb c) delims then flush cur ++ fields_go delims r []
              else fields_go delims r (c :: cur)
  end.

Definition extract_words (s delims : text) : list text :=
  match delims with
  | [] => tokenize_go s []
  | _ => fields_go delims s []
  end.

(* ------------------------------------------------------------------------------------------------ *)
(* builtin.go: function bodies *)

(* Word(env, text, args...) *)
Definition word_finish (t : text) (index : Z) (delims : text) : res :=
  let words := extract_words t delims in
  let offset := if (index <? 0)%Z then (index + zlen words)%Z else index in
  if negb ((0 <=? offset)%Z && (offset <? zlen words)%Z) then Ret VErr
  else match go_index words offset with Some w => Ret (VText w) | None => Panic PBounds end.

Definition word_body (t : text) (args : list value) : res :=
  with_arg args 0 (fun a0 =>
  do index <- to_integer a0;
  if Nat.eqb (length args) 2 then
    with_arg args 1 (fun a1 => if is_nil a1 then word_finish t index []
                               else do d <- to_text a1; word_finish t index d)
  else word_finish t index []).

(* WordSlice(env, text, args...) *)
Definition word_slice_finish (t : text) (start end_ : Z) (delims : text) : res :=
  let words := extract_words t delims in
  if (zlen words <=? start)%Z then Ret (VText []) else
  let end_ := if (zlen words <=? end_)%Z then zlen words else end_ in
  if (0 <? end_)%Z then
    match go_slice words start end_ with Some ws => Ret (VText (join_sp ws)) | None => Panic PBounds end
  else
    match go_slice_from words start with Some ws => Ret (VText (join_sp ws)) | None => Panic PBounds end.

Definition word_slice_after_end (t : text) (args : list value) (start end_ : Z) : res :=
  if ((0 <? end_)%Z && (end_ <=? start)%Z) then Ret VErr else
  if Nat.leb 3 (length args) then
    with_arg args 2 (fun a2 => if is_nil a2 then word_slice_finish t start end_ []
                               else do d <- to_text a2; word_slice_finish t start end_ d)
  else word_slice_finish t start end_ [].

Definition word_slice_body (t : text) (args : list value) : res :=
  with_arg args 0 (fun a0 =>
  do start <- to_integer a0;
  if (start <? 0)%Z then Ret VErr else
  if Nat.leb 2 (length args) then
    with_arg args 1 (fun a1 => do e <- to_integer a1; word_slice_after_end t args start e)
  else word_slice_after_end t args start (-1)%Z).

(* Field(env, text, args...) *)
Definition field_body (t : text) (args : list value) : res :=
  with_arg args 0 (fun a0 =>
  do field <- to_integer a0;
  if (field <? 0)%Z then Ret VErr else
  with_arg args 1 (fun a1 =>
  do sep <- to_text a1;
  let fields := str_split t sep in
  let fields := if text_eqb sep [32%N] then filter (fun f => negb (text_eqb f [])) fields else fields in
  if (zlen fields <=? field)%Z then Ret (VText [])
  else match go_index fields field with Some f => Ret (VText (trim_space f)) | None => Panic PBounds end)).

(* TextSlice(env, text, args...) *)
Definition text_slice_finish (t : text) (start end_ : Z) : res :=
  let length_ := zlen t in
  let end_ := if (end_ <? 0)%Z then (length_ + end_)%Z else end_ in
  (* the loop writes rune i when start <= i < end *)
  let lo := Z.max 0 start in
  let hi := Z.min length_ end_ in
  Ret (VText (if (hi <=? lo)%Z then [] else firstn (Z.to_nat (hi - lo)) (skipn (Z.to_nat lo) t))).

Definition text_slice_body (t : text) (args : list value) : res :=
  let length_ := zlen t in
  with_arg args 0 (fun a0 =>
  do start <- to_integer a0;
  let start := if (start <? 0)%Z then (length_ + start)%Z else start in
  if Nat.eqb (length args) 2 then with_arg args 1 (fun a1 => do e <- to_integer a1; text_slice_finish t start e)
  else text_slice_finish t start length_).

(* Char(env, num): ToInteger again on the number; string(rune(code)).  Go's conversion of an invalid code
   point (negative, surrogate, > 0x10FFFF) gives U+FFFD *)
Definition char_body (d : dec) : res :=
  do code <- to_integer (VNum d);
  let valid := ((0 <=? code) && (code <=? 1114111) && negb ((55296 <=? code) && (code <=? 57343)))%Z in
  Ret (VText [if valid then Z.to_N code else 65533%N]).

(* Repeat(env, text, count) *)
Definition max_repeat_length : Z := 100000%Z.

Definition repeat_body (t : text) (count : Z) : res :=
  if (count <? 0)%Z then Ret VErr
  else match t with
       | [] => Ret (VText [])
       | _ => if (max_repeat_length <? zlen t * count)%Z then Ret VErr
              else Ret (VText (fst (repeat_loop t (Z.to_nat count) [] 0%N)))
       end.

(* A text built by replace or join is refused beyond types.MaxTextLength.  Replace computes the length beforehand, as
   len(text) + replacements * (len(replacement) - len(needle)) where replacements is strings.Count(text, needle) or
   the count argument if that is smaller, which is the length of what strings.Replace returns; Join checks its buffer
   after every item, and the buffer only grows: both are "the result is longer than the limit". *)
Definition limited_text (t : text) : res := if (max_text_length <? byte_len t)%Z then Ret VErr else Ret (VText t).

(* Replace(env, args...) *)
Definition replace_body (args : list value) : res :=
  with_arg args 0 (fun a0 => do t <- to_text a0;
  with_arg args 1 (fun a1 => do needle <- to_text a1;
  with_arg args 2 (fun a2 => do replacement <- to_text a2;
  if Nat.eqb (length args) 4 then
    with_arg args 3 (fun a3 => do count <- to_integer a3; limited_text (str_replace t needle replacement count))
  else limited_text (str_replace t needle replacement (-1)%Z)))).

(* checkRoundingPlaces *)
Definition max_rounding_places : Z := 100%Z.
Definition bad_places (places : Z) : bool := ((places <? - max_rounding_places) || (max_rounding_places <? places))%Z.

Definition round_body (d : dec) (places : Z) : res :=
  if bad_places places then Ret VErr else Ret (VNum (dec_round d places)).

Definition round_up_body (d : dec) (places : Z) : res :=
  if bad_places places then Ret VErr
  else if dec_eqb (dec_round d places) d then Ret (VNum d)
  else Ret (VNum (dec_round (dec_add d (Dec 5 (- places - 1))) places)).

Definition round_down_body (d : dec) (places : Z) : res :=
  if bad_places places then Ret VErr
  else if dec_eqb (dec_round d places) d then Ret (VNum d)
  else Ret (VNum (dec_round (dec_sub d (Dec 5 (- places - 1))) places)).

(* Mod(env, num1, num2) *)
Definition mod_body (a b : dec) : res :=
  if dec_eqb b (Dec 0 0) then Ret VErr
  else match dec_mod a b with inr r => Ret (VNum r) | inl c => Panic c end.

(* decimal.Zero is New(0, 1) *)
Definition decimal_zero : dec := Dec 0 1.

(* Mean(env, args...) *)
Fixpoint sum_numbers (args : list value) (acc : dec) : conv dec :=
  match args with
  | [] => Ok acc
  | v :: r => match to_number v with Ok n => sum_numbers r (dec_add acc n) | Bad => Bad end
  end.

Definition mean_body (args : list value) : res :=
  do sum <- sum_numbers args decimal_zero;
  match dec_div sum (dec_of_Z (zlen args)) with inr q => Ret (VNum q) | inl c => Panic c end.

(* Max / Min (env, values...) *)
Fixpoint fold_extreme (pick_new : dec -> dec -> bool) (vs : list value) (cur : dec) : res :=
  match vs with
  | [] => Ret (VNum cur)
  | v :: r => do n <- to_number v; fold_extreme pick_new r (if pick_new n cur then n else cur)
  end.

Definition extreme_body (pick_new : dec -> dec -> bool) (values : list value) : res :=
  with_arg values 0 (fun v0 => do m <- to_number v0;
  with_rest values 1 (fun r => fold_extreme pick_new r m)).

Definition dec_gtb (a b : dec) : bool := match dec_cmp a b with Gt => true | _ => false end.
Definition dec_ltb (a b : dec) : bool := match dec_cmp a b with Lt => true | _ => false end.

(* Percent(env, num): decimal.NewFromFloat(100) is 1 * 10^2 *)
Definition render_Z (z : Z) : text := (if (z <? 0)%Z then [45%N] else []) ++ digits (Z.abs_N z).

Definition percent_body (d : dec) : res :=
  match dec_mul d (Dec 1 2) with
  | None => Panic PExponent
  | Some p => Ret (VText (render_Z (int_part (dec_round p 0)) ++ [37%N]))
  end.

(* FormatNumber(env, args...); the formatted text itself is not reproduced *)
Definition format_number_finish (args : list value) (num : dec) (places : Z) : res :=
  if Nat.ltb 2 (length args) then with_arg args 2 (fun a2 => do human <- to_bool a2; Ret (VText []))
  else Ret (VText []).

Definition format_number_body (args : list value) : res :=
  with_arg args 0 (fun a0 => do num <- to_number a0;
  if Nat.ltb 1 (length args) then
    with_arg args 1 (fun a1 => do places <- to_integer a1;
      if ((places <? 0) || (9 <? places))%Z then Ret VErr else format_number_finish args num places)
  else format_number_finish args num (-1)%Z).

(* DateFromParts / TimeFromParts: dates.NewDate / NewTimeOfDay normalise, the value is opaque *)
(* the proleptic Gregorian calendar as time.Date normalises it (days since 1970-01-01 and back; floor division) *)
Definition days_from_civil (y m d : Z) : Z :=
  (let y' := if m <=? 2 then y - 1 else y in
   let era := y' / 400 in
   let yoe := y' - era * 400 in
   let mp := if 2 <? m then m - 3 else m + 9 in
   let doy := (153 * mp + 2) / 5 + d - 1 in
   let doe := yoe * 365 + yoe / 4 - yoe / 100 + doy in
   era * 146097 + doe - 719468)%Z.

Definition year_of_days (z0 : Z) : Z :=
  (let z := z0 + 719468 in
   let era := z / 146097 in
   let doe := z - era * 146097 in
   let yoe := (doe - doe / 1460 + doe / 36524 - doe / 146096) / 365 in
   let doy := doe - (365 * yoe + yoe / 4 - yoe / 100) in
   let mp := (5 * doy + 2) / 153 in
   let m := if mp <? 10 then mp + 3 else mp - 9 in
   yoe + era * 400 + (if m <=? 2 then 1 else 0))%Z.

(* 0bc2a28: the month is 1-12; a day beyond the end of the month (or before its start) counts on into the neighbouring
   months (time.Date(year, month, day)), and the year of THAT date has to be 1-9999 *)
Definition date_from_parts_body (year month day : Z) : res :=
  if ((month <? 1) || (12 <? month))%Z then Ret VErr
  else let y := year_of_days (days_from_civil year month 1 + (day - 1)) in
       if ((y <? 1) || (9999 <? y))%Z then Ret VErr else Ret (VOpaque KDate []).

Definition time_from_parts_body (hour minute second : Z) : res :=
  if ((hour <? 0) || (23 <? hour))%Z then Ret VErr
  else if ((minute <? 0) || (59 <? minute))%Z then Ret VErr
  else if ((second <? 0) || (59 <? second))%Z then Ret VErr
  else Ret (VOpaque KTime []).

(* DateTimeAdd(env, args...): registered WITHOUT a wrapper, checks len(args) itself *)
Definition to_datetime (v : value) : conv unit :=
  match v with VOpaque KDateTime _ => Ok tt | _ => Bad end.       (* texts that parse as dates: outside the compared inputs *)

Definition datetime_add_fn (args : list value) : res :=
  if negb (Nat.eqb (length args) 3) then Ret VErr else
  with_arg args 0 (fun a0 => do dt <- to_datetime a0;
  with_arg args 1 (fun a1 => do duration <- to_integer a1;
  with_arg args 2 (fun a2 => do unit_ <- to_text a2;
  match unit_ with
  | [c] => if existsb (N.eqb c) [115; 109; 104; 68; 87; 77; 89]%N then Ret (VOpaque KDateTime []) else Ret VErr
  | _ => Ret VErr
  end))).

(* Array(env, values...) *)
Definition array_fn (values : list value) : res :=
  match find is_err values with Some e => Ret e | None => Ret (VArray values) end.

(* Object(env, pairs...): pairs[i], pairs[i+1] for i = 0, 2, .. < len *)
Fixpoint object_pairs (fuel : nat) (pairs : list value) (i : nat) (acc : list (text * value)) : res :=
  match fuel with
  | O => NoFuel
  | S fuel' =>
    if Nat.leb (length pairs) i then Ret (new_object acc)
    else with_arg pairs i (fun key => with_arg pairs (i + 1) (fun val =>
         do k <- to_text key; object_pairs fuel' pairs (i + 2) (obj_set acc k val)))
  end.

Definition object_fn (pairs : list value) : res :=
  match find is_err pairs with
  | Some e => Ret e
  | None => if negb (Nat.eqb (Nat.modulo (length pairs) 2) 0) then Ret VErr
            else object_pairs (S (length pairs)) pairs 0 []
  end.

(* ExtractObject(env, args...) *)
Fixpoint texts_of (vs : list value) : conv (list text) :=
  match vs with
  | [] => Ok []
  | v :: r => match to_text v with
              | Bad => Bad
              | Ok s => match texts_of r with Ok l => Ok (s :: l) | Bad => Bad end
              end
  end.

Definition extract_object_body (args : list value) : res :=
  with_arg args 0 (fun a0 => do obj <- to_object a0;
  with_rest args 1 (fun r => do properties <- texts_of r;
  Ret (new_object (fold_left (fun acc p => obj_set acc p (match obj_get (snd obj) p with Some v => v | None => VNil end))
                             properties [])))).

(* RegexMatch(env, text, args...) *)
Definition regex_match_finish (t pattern : text) (group_num : Z) : res :=
  match regex_submatch pattern t with
  | None => Ret VErr
  | Some groups =>
      if ((group_num <? 0) || (zlen groups <=? group_num))%Z then Ret VErr
      else match go_index groups group_num with Some g => Ret (VText g) | None => Panic PBounds end
  end.

Definition regex_match_body (t : text) (args : list value) : res :=
  with_arg args 0 (fun a0 => do pattern <- to_text a0;
  if Nat.eqb (length args) 2 then with_arg args 1 (fun a1 => do g <- to_integer a1; regex_match_finish t pattern g)
  else regex_match_finish t pattern 0%Z).

(* HasGroup(env, args...): array.Get(i) for i < array.Count() *)
Definition t_uuid : text := [117; 117; 105; 100]%N.
Definition t_match : text := [109; 97; 116; 99; 104]%N.

Fixpoint has_group_loop (fuel : nat) (items : list value) (i : Z) (group_uuid : text) : res :=
  match fuel with
  | O => NoFuel
  | S fuel' =>
    if negb (i <? zlen items)%Z then Ret (VObject (Some (VBool false)) [(t_match, VText [])])     (* FalseResult *)
    else match go_index items i with
         | None => Panic PBounds
         | Some item =>
             do group <- to_object item;
             do uuid <- to_text (match obj_get (snd group) t_uuid with Some v => v | None => VNil end);
             if text_eqb uuid group_uuid then Ret (VObject (Some (VBool true)) [(t_match, VObject (fst group) (snd group))])  (* NewTrueResult(group) *)
             else has_group_loop fuel' items (i + 1) group_uuid
         end
  end.

Definition has_group_body (args : list value) : res :=
  with_arg args 0 (fun a0 => do items <- to_array a0;
  with_arg args 1 (fun a1 => do group_uuid <- to_text a1;
  has_group_loop (S (length items)) items 0 group_uuid)).

(* Text / Number / Boolean / IsError / Abs / Count / Default / If *)
Definition text_fn (v : value) : res := do s <- to_text v; Ret (VText s).
Definition number_fn (v : value) : res := do n <- to_number v; Ret (VNum n).
Definition boolean_fn (v : value) : res := do b <- to_bool v; Ret (VBool b).
Definition is_error_fn (v : value) : res := Ret (VBool (is_err v)).
Definition abs_body (d : dec) : res := Ret (VNum (Dec (Z.abs (mant d)) (dexp d))).

Definition count_fn (v : value) : res :=
  match v with
  | VNil => Ret (VNum decimal_zero)              (* XNumberZero = NewXNumber(decimal.Zero) *)
  | VArray items => Ret (VNum (Dec (zlen items) 0))
  | VObject _ props => Ret (VNum (Dec (zlen props) 0))
  | _ => Ret VErr
  end.

Definition default_fn (v d : value) : res :=
  match to_text v with
  | Bad => Ret d
  | Ok [] => Ret d
  | Ok _ => Ret v
  end.

Definition if_fn (test v1 v2 : value) : res := do b <- to_bool test; Ret (if b then v1 else v2).

(* And / Or (env, values...) *)
Fixpoint and_fn (values : list value) : res :=
  match values with
  | [] => Ret (VBool true)
  | v :: r => do b <- to_bool v; if b then and_fn r else Ret (VBool false)
  end.

Fixpoint or_fn (values : list value) : res :=
  match values with
  | [] => Ret (VBool false)
  | v :: r => do b <- to_bool v; if b then Ret (VBool true) else or_fn r
  end.

(* Join(env, array, separator): array.Get(i) for i < Count *)
Definition join_fn (a0 a1 : value) : res :=
  do items <- to_array a0; do sep <- to_text a1; do parts <- texts_of items; limited_text (join sep parts).

Definition reverse_body (items : list value) : res := Ret (VArray (rev items)).
(* Concat refuses more than types.MaxRenderSize items *)
Definition concat_body (x y : list value) : res :=
  if (max_render_size <? zlen x + zlen y)%Z then Ret VErr else Ret (VArray (x ++ y)).
Definition sum_body (items : list value) : res := do total <- sum_numbers items decimal_zero; Ret (VNum total).

(* TextLength (runes), TextCompare (strings.Compare: byte order = code point order) *)
Definition text_length_body (s : text) : res := Ret (VNum (Dec (zlen s) 0)).
Definition text_compare_body (a b : text) : res :=
  Ret (VNum (Dec (if text_eqb a b then 0 else if text_ltb a b then (-1) else 1)%Z 0)).

(* ------------------------------------------------------------------------------------------------ *)
(* the registry (init() of builtin.go / tests.go) and XFunction.Call *)

Definition call_simple (f : fname) : list value -> res :=
  match f with
  | FWord => initial_text_function 1 2 word_body
  | FWordSlice => initial_text_function 1 3 word_slice_body
  | FField => initial_text_function 2 2 field_body
  | FTextSlice => initial_text_function 1 3 text_slice_body
  | FChar => one_number_function char_body
  | FRepeat => text_and_integer_function repeat_body
  | FReplace => min_max_args 3 4 replace_body
  | FRound => one_number_and_optional_integer_function round_body 0
  | FRoundUp => one_number_and_optional_integer_function round_up_body 0
  | FRoundDown => one_number_and_optional_integer_function round_down_body 0
  | FMod => two_number_function mod_body
  | FMean => min_args 1 mean_body
  | FMax => min_args 1 (extreme_body dec_gtb)
  | FMin => min_args 1 (extreme_body dec_ltb)
  | FPercent => one_number_function percent_body
  | FFormatNumber => min_max_args 1 3 format_number_body
  | FDateFromParts => three_integer_function date_from_parts_body
  | FTimeFromParts => three_integer_function time_from_parts_body
  | FDateTimeAdd => datetime_add_fn
  | FArray => array_fn
  | FObject => object_fn
  | FExtractObject => min_args 2 extract_object_body
  | FRegexMatch => initial_text_function 1 2 regex_match_body
  | FHasGroup => min_max_args 2 3 has_group_body
  | FText => one_arg_function text_fn
  | FNumber => one_arg_function number_fn
  | FBoolean => one_arg_function boolean_fn
  | FAnd => min_args 1 and_fn
  | FOr => min_args 1 or_fn
  | FIf => three_arg_function if_fn
  | FAbs => one_number_function abs_body
  | FCount => one_arg_function count_fn
  | FDefault => two_arg_function default_fn
  | FJoin => two_arg_function join_fn
  | FReverse => one_array_function reverse_body
  | FSum => one_array_function sum_body
  | FConcat => two_array_function concat_body
  | FIsError => one_arg_function is_error_fn
  | FTextLength => one_text_function text_length_body
  | FTextCompare => two_text_function text_compare_body
  | FForEach => fun _ => NoFuel                    (* handled by [call] *)
  | FOther id => ext_call id
  end.

(* ForEach(env, args...): function.Call(env, [item] ++ args[2:]) for every item; an error item ends the loop.
   The nested call has one argument fewer than this one, so [length args] bounds the nesting. *)
Fixpoint foreach_items (call_f : list value -> res) (items other : list value) (acc : list value) (budget : Z) : res :=
  match items with
  | [] => Ret (VArray (rev acc))
  | item :: r => match call_f (item :: other) with
                 | Ret v => if is_err v then Ret v
                            else let budget' := (budget - value_cost true 0 v)%Z in      (* types.SpendRenderSize *)
                                 if (budget' <? 0)%Z then Ret VErr else foreach_items call_f r other (v :: acc) budget'
                 | other_res => other_res
                 end
  end.

Fixpoint call (fuel : nat) (f : fname) (args : list value) : res :=
  match f with
  | FForEach =>
      min_args 2 (fun args =>
        with_arg args 0 (fun a0 => do items <- to_array a0;
        with_arg args 1 (fun a1 => do g <- to_function a1;
        with_rest args 2 (fun other =>
        match fuel with
        | O => NoFuel
        | S fuel' => foreach_items (call fuel' g) items other [] max_render_size
        end)))) args
  | _ => call_simple f args
  end.

(* XFunction.Call wraps an error result into a new error: still an error value *)
Definition call_function (f : fname) (args : list value) : res := call (length args) f args.

(* ------------------------------------------------------------------------------------------------ *)
(* operators *)

(* operators.canonical: the form of a number that does not depend on how it was written or calculated — a whole
   number has exponent 0, any other has no trailing zero after the decimal point
   (fast paths, else decimal.RequireFromString(d.String())) *)
Fixpoint strip_frac_zeros (fuel : nat) (m e : Z) : dec :=
  match fuel with
  | O => Dec m e
  | S f => if ((e <? 0) && (Z.rem m 10 =? 0))%Z then strip_frac_zeros f (Z.quot m 10) (e + 1)%Z else Dec m e
  end.

Definition dec_canonical (d : dec) : dec :=
  if (mant d =? 0)%Z then Dec 0 0
  else if (0 <=? dexp d)%Z then Dec (mant d * 10 ^ dexp d) 0
  else strip_frac_zeros (Z.to_nat (- dexp d)) (mant d) (dexp d).

(* operators/builtin.go: maxNumberExponent, exponentOutOfRange (Multiply adds the decimal exponents) *)
Definition max_number_exponent : Z := 100000%Z.
Definition exponent_out_of_range (e : Z) : bool := ((e <? - max_number_exponent) || (max_number_exponent <? e))%Z.

(* Decimal.Pow on a non-integral power, after the whole part of the power has been computed: Ln, Mul by the
   fractional part, ExpTaylor and the final Mul with the whole-part power (arguments: base, power, whole-part power).
   Not modelled, and NOT assumed total: it may return a panic class. *)
Variable frac_pow : dec -> dec -> dec -> pclass + dec.

(* Decimal.NumDigits (exact digit count; the library's float fast path can be off by one next to powers of ten),
   Decimal.IsInteger, operators.numberMagnitude *)
Definition num_digits (d : dec) : Z := zlen (digits (Z.abs_N (mant d))).
Definition dec_is_integer (d : dec) : bool :=
  if (0 <=? dexp d)%Z then true else (Z.rem (mant d) (10 ^ (- dexp d)) =? 0)%Z.
Definition number_magnitude (d : dec) : Z := (num_digits d + Z.abs (dexp d))%Z.
Definition max_fractional_power_digits : Z := 64%Z.
Definition pow_precision_negative_exponent : Z := 16%Z.

(* Decimal.PowBigInt for n >= 0: square-and-multiply with Decimal.Mul; the coefficients multiply and the exponents
   add, so the result is (mant^n, dexp*n) and no intermediate exponent exceeds the final one in magnitude:
   the library's Mul panics iff the final exponent leaves int32 *)
Definition dec_pow_nat (a : dec) (n : Z) : option dec :=
  if in_int32 (dexp a * n) then Some (Dec (mant a ^ n) (dexp a * n)) else None.

(* Decimal.Pow: the whole part of the power by PowBigInt (and DivRound(1, _, 16) when it is negative), for
   integral and non-integral powers alike; then, for a non-integral power, the series *)
Definition dec_pow (a b : dec) : res :=
  if (mant a =? 0)%Z then Ret (VNum (Dec 0 0))                  (* 0 ^ anything: 0, or the zero value *)
  else if (mant b =? 0)%Z then Ret (VNum (Dec 1 0))
  else
    let n := dec_trunc b in                                       (* d2.QuoRem(one, 0): whole part, toward zero *)
    let integral := dec_is_integer b in
    if negb integral && (mant a <? 0)%Z then Ret (VNum (Dec 0 0))
    else
      match dec_pow_nat a (Z.abs n) with
      | None => Panic PExponent
      | Some p =>
          match (if (0 <=? n)%Z then inr p else dec_div_round (Dec 1 0) p pow_precision_negative_exponent) with
          | inl c => Panic c
          | inr whole =>
              if integral then Ret (VNum whole)
              else match frac_pow a b whole with inr r => Ret (VNum r) | inl c => Panic c end
          end
      end.

(* operators.Exponent: guards and power on the canonical base and power *)
Definition pow_body (x y : dec) : res :=
  let a := dec_canonical x in
  let b := dec_canonical y in
  if exponent_out_of_range (dexp a * dec_trunc b) then Ret VErr
  else if (1 <? Z.abs (mant a))%Z && exponent_out_of_range (num_digits a * dec_trunc b) then Ret VErr
  else if negb (dec_is_integer b)
          && ((max_fractional_power_digits <? number_magnitude a)%Z || (max_fractional_power_digits <? number_magnitude b)%Z)
       then Ret VErr
  else dec_pow a b.

(* operators.Multiply: limit and product on the canonical factors *)
Definition mul_body (x y : dec) : res :=
  let a := dec_canonical x in
  let b := dec_canonical y in
  if exponent_out_of_range (dexp a + dexp b) then Ret VErr
  else if exponent_out_of_range (num_digits a + num_digits b) then Ret VErr     (* the digits of the product *)
  else match dec_mul a b with Some p => Ret (VNum p) | None => Panic PExponent end.

Inductive binop := OConcat | OEq | ONeq | OAdd | OSub | OMul | ODiv | OPow | OLt | OLte | OGt | OGte.

Definition textual_binary (f : text -> text -> res) (a b : value) : res :=
  do t1 <- to_text a; do t2 <- to_text b; f t1 t2.

Definition numerical_binary (f : dec -> dec -> res) (a b : value) : res :=
  do n1 <- to_number a; do n2 <- to_number b; f n1 n2.

Definition cmp_is (want : comparison -> bool) (a b : dec) : res := Ret (VBool (want (dec_cmp a b))).

Definition eval_binop (op : binop) : value -> value -> res :=
  match op with
  | OConcat => textual_binary (fun a b => if (max_text_length <? byte_len a + byte_len b)%Z then Ret VErr
                                         else Ret (VText (a ++ b)))
  | OEq => textual_binary (fun a b => Ret (VBool (text_eqb a b)))
  | ONeq => textual_binary (fun a b => Ret (VBool (negb (text_eqb a b))))
  | OAdd => numerical_binary (fun a b => Ret (VNum (dec_add a b)))
  | OSub => numerical_binary (fun a b => Ret (VNum (dec_sub a b)))
  | OMul => numerical_binary mul_body
  | ODiv => numerical_binary (fun a b =>
              if dec_eqb b (Dec 0 0) then Ret VErr
              else match dec_div a b with inr q => Ret (VNum q) | inl c => Panic c end)
  | OPow => numerical_binary pow_body
  | OLt => numerical_binary (cmp_is (fun c => match c with Lt => true | _ => false end))
  | OLte => numerical_binary (cmp_is (fun c => match c with Gt => false | _ => true end))
  | OGt => numerical_binary (cmp_is (fun c => match c with Gt => true | _ => false end))
  | OGte => numerical_binary (cmp_is (fun c => match c with Lt => false | _ => true end))
  end.

Definition eval_neg (a : value) : res := do n <- to_number a; Ret (VNum (dec_neg n)).

(* ------------------------------------------------------------------------------------------------ *)
(* tree.go *)

(* resolveLookup(env, container, lookup, dotNotation, warnings) *)
Definition resolve_lookup (container lookup : value) (dot : bool) : res :=
  match container with
  | VArray items =>
      do index <- to_integer lookup;
      if ((zlen items <=? index) || (index <? - zlen items))%Z then Ret VErr
      else let index := if (index <? 0)%Z then (index + zlen items)%Z else index in
           match go_index items index with Some v => Ret v | None => Panic PBounds end
  | VObject _ props =>
      do property <- to_text lookup;
      match obj_get props property with
      | Some v => Ret v
      | None => if dot then Ret VErr else Ret VNil
      end
  | _ => Ret VErr
  end.

Inductive expr :=
| ELit (v : value)                         (* text, number, boolean and null literals *)
| ERef (name : text)                       (* ContextReference *)
| EDot (container : expr) (lookup : text)
| EIdx (container lookup : expr)
| ECall (fn : expr) (params : list expr)
| ENeg (e : expr)
| EBin (op : binop) (a b : expr).

(* Scope.Get on the root scope: a case-insensitive property of the context object, else a registered function *)
Variable lookup_function : text -> option fname.

Definition scope_get (ctx : list (text * value)) (name : text) : option value :=
  match obj_get ctx name with
  | Some v => Some v
  | None => match lookup_function (lower name) with Some f => Some (VFunc f (lower name)) | None => None end
  end.

Definition bind (r : res) (k : value -> res) : res := match r with Ret v => k v | other => other end.

Fixpoint eval (ctx : list (text * value)) (e : expr) : res :=
  match e with
  | ELit v => Ret v
  | ERef name => match scope_get ctx name with Some v => Ret v | None => Ret VErr end
  | EDot c l => bind (eval ctx c) (fun cv => if is_err cv then Ret cv else resolve_lookup cv (VText l) true)
  | EIdx c l => bind (eval ctx c) (fun cv => if is_err cv then Ret cv else
                bind (eval ctx l) (fun lv => if is_err lv then Ret lv else resolve_lookup cv lv false))
  | ECall fn ps =>
      bind (eval ctx fn) (fun fv => if is_err fv then Ret fv else
      match fv with
      | VFunc f _ =>
          (fix eval_params (l : list expr) (acc : list value) : res :=
             match l with
             | [] => call_function f (rev acc)
             | p :: r => bind (eval ctx p) (fun pv => eval_params r (pv :: acc))
             end) ps []
      | _ => Ret VErr
      end)
  | ENeg a => bind (eval ctx a) eval_neg
  | EBin op a b => bind (eval ctx a) (fun av => bind (eval ctx b) (fun bv => eval_binop op av bv))
  end.

(* ------------------------------------------------------------------------------------------------ *)
(* the same evaluator with an EXPONENT BUDGET: every value that flows from one node to the next (literal, context
   value, container, lookup key, parameter, operand, result) must denote only numbers whose decimal exponent is
   within +-B — as a number, as a numeric text, through an object default, or inside an array/object.  [None] =
   the budget was exceeded somewhere.  Used to state where the one remaining panic class can come from. *)

Fixpoint vbound (B : Z) (v : value) : bool :=
  match v with
  | VNum d => (Z.abs (dexp d) <=? B)%Z
  | VText s => match parse_number s with Some d => (Z.abs (dexp d) <=? B)%Z | None => true end
  | VArray items => (fix all (l : list value) : bool := match l with [] => true | x :: r => vbound B x && all r end) items
  | VObject def props =>
      (match def with Some d => vbound B d | None => true end)
      && (fix all (l : list (text * value)) : bool :=
            match l with [] => true | (_, x) :: r => vbound B x && all r end) props
  | _ => true
  end.

Definition within (B : Z) (r : res) : option res :=
  match r with
  | Ret v => if vbound B v then Some r else None
  | other => Some other
  end.

Definition bind_b (B : Z) (r : option res) (k : value -> option res) : option res :=
  match r with
  | None => None
  | Some (Ret v) => k v
  | Some other => Some other
  end.

Fixpoint eval_b (B : Z) (ctx : list (text * value)) (e : expr) : option res :=
  match e with
  | ELit v => within B (Ret v)
  | ERef name => within B (match scope_get ctx name with Some v => Ret v | None => Ret VErr end)
  | EDot c l => bind_b B (eval_b B ctx c) (fun cv => within B (if is_err cv then Ret cv else resolve_lookup cv (VText l) true))
  | EIdx c l => bind_b B (eval_b B ctx c) (fun cv => if is_err cv then Some (Ret cv) else
                bind_b B (eval_b B ctx l) (fun lv => within B (if is_err lv then Ret lv else resolve_lookup cv lv false)))
  | ECall fn ps =>
      bind_b B (eval_b B ctx fn) (fun fv => if is_err fv then Some (Ret fv) else
      match fv with
      | VFunc f _ =>
          (fix eval_params (l : list expr) (acc : list value) : option res :=
             match l with
             | [] => within B (call_function f (rev acc))
             | p :: r => bind_b B (eval_b B ctx p) (fun pv => eval_params r (pv :: acc))
             end) ps []
      | _ => Some (Ret VErr)
      end)
  | ENeg a => bind_b B (eval_b B ctx a) (fun v => within B (eval_neg v))
  | EBin op a b => bind_b B (eval_b B ctx a) (fun av => bind_b B (eval_b B ctx b) (fun bv => within B (eval_binop op av bv)))
  end.

(* ------------------------------------------------------------------------------------------------ *)
(* work.  Loops of the MODEL are counted by the loops themselves (repeat_loop returns its own step count).
   Big-integer primitives are atomic in Gallina (Z.mul, Z.quot, Z.pow); their cost is DECLARED next to each use as
   the number of digit cells of the operands plus the length of the power-of-ten scale factor they build:
     rescale d e      (Decimal.rescale: 10^|dexp d - e| times or into the coefficient)   dec_size d + |dexp d - e|
     rescale_pair a b (Add, Sub, Cmp: both brought to the smaller exponent)              the two rescales
     trunc d          (IntPart / BigInt: rescale to 0)                                    dec_size d + |dexp d|
   This is a count of cells, not of machine time (multiplying n-digit numbers is super-linear in n). *)

Definition value_size (v : value) : N :=
  match v with
  | VNum d => dec_size d
  | _ => N.of_nat (length (render_value v))
  end.

Definition args_size (args : list value) : N := fold_right (fun v a => (value_size v + a)%N) 0%N args.
Definition res_size (r : res) : N := match r with Ret v => value_size v | _ => 0%N end.

Definition rescale_cost (d : dec) (e : Z) : N := (dec_size d + Z.abs_N (dexp d - e))%N.
Definition rescale_pair_cost (a b : dec) : N :=
  let m := Z.min (dexp a) (dexp b) in (rescale_cost a m + rescale_cost b m)%N.
Definition trunc_cost (d : dec) : N := rescale_cost d 0.

(* Decimal.Round(places): rescale to -places-1, then one quotient by ten *)
Definition round_work (d : dec) (places : Z) : N := (rescale_cost d (- places - 1) + 1)%N.

(* ToInteger: IntPart *)
Definition to_integer_work (v : value) : N := match to_number v with Ok d => trunc_cost d | Bad => 0%N end.

Definition work (f : fname) (args : list value) : N :=
  match f, args with
  | FRepeat, [a0; a1] =>
      (to_integer_work a1 +
       match to_text a0, to_integer a1 with
       | Ok t, Ok count => if (count <? 0)%Z then 0%N
                           else match t with
                                | [] => 0%N
                                | _ => if (max_repeat_length <? zlen t * count)%Z then 0%N
                                       else snd (repeat_loop t (Z.to_nat count) [] 0%N)
                                end
       | _, _ => 0%N
       end)%N
  | (FRound | FRoundUp | FRoundDown), a0 :: r =>
      match to_number a0 with
      | Ok d => match r with
                | [] => round_work d 0
                | a1 :: _ => (to_integer_work a1 +
                              match to_integer a1 with
                              | Ok places => if bad_places places then 0%N else (2 * round_work d places + 2)%N
                              | Bad => 0%N
                              end)%N
                end
      | Bad => 0%N
      end
  | FChar, [a0] => to_integer_work a0
  | _, _ => 0%N
  end.

(* + - and the comparisons: both operands brought to the smaller exponent *)
Definition binop_work (op : binop) (x y : value) : N :=
  match op with
  | OAdd | OSub | OLt | OLte | OGt | OGte =>
      match to_number x, to_number y with
      | Ok a, Ok b => rescale_pair_cost a b
      | _, _ => 0%N
      end
  | _ => 0%N
  end.

End Ext.
