(* CqlPrinter.v — model of the formatting side of contactql (property C14).

   Transcribed from /repo contactql/parser.go:
     isNumberRegex  ^\d+(\.\d+)?$           [is_number]   (the translator pins the regex text)
     QuoteValue                              [quote_value] (strconv.Quote is lib/Quote.v)
     Condition.String                        [print_cond]
     BoolCombination.String                  [print]
     Stringify / ContactQuery.String         [stringify]
     Condition.Simplify, BoolCombination.Simplify   [simplify]
   and flows/expressions.go ContactQueryEscaping = QuoteValue.

   unicode.IsPrint (used by strconv.Quote) is the argument [printable].  No proofs in this file. *)
From Coq Require Import List NArith Bool.
From Verif Require Import lib.Quote model.CqlSyntax gen.GrammarCQL.
Import ListNotations.
Open Scope N_scope.

(* ---- isNumberRegex -------------------------------------------------------------------------------- *)

(* \d of Go's regexp (RE2): ASCII digits only *)
Definition is_digit (c : N) : bool := (48 <=? c) && (c <=? 57).

Fixpoint span_digits (s : text) : text * text :=
  match s with
  | [] => ([], [])
  | c :: r => if is_digit c then let '(a, b) := span_digits r in (c :: a, b) else ([], s)
  end.

Definition all_digits1 (s : text) : bool :=
  match s with [] => false | _ => forallb is_digit s end.

Definition is_number (s : text) : bool :=
  let '(a, b) := span_digits s in
  match a with
  | [] => false
  | _ => match b with
         | [] => true
         | c :: d => (c =? 46) && all_digits1 d
         end
  end.

(* ---- QuoteValue ------------------------------------------------------------------------------------ *)

Fixpoint is_prefix (p s : text) : bool :=
  match p, s with
  | [], _ => true
  | x :: p', y :: s' => N.eqb x y && is_prefix p' s'
  | _ :: _, [] => false
  end.

(* strings.HasSuffix *)
Definition has_suffix (s suf : text) : bool := is_prefix (rev suf) (rev s).

Section Printer.
  Variable printable : N -> bool.     (* unicode.IsPrint *)

  (* quoted := strconv.Quote(value); if HasSuffix(quoted, `\\"`) { quoted = quoted[:len-3] + `\x5c"` } *)
  Definition quote_value (v : text) : text :=
    let q := quote printable v in
    if has_suffix q [92; 92; 34] then firstn (length q - 3) q ++ [92; 120; 53; 99; 34] else q.

  (* ---- Condition.String ------------------------------------------------------------------------- *)

  (* string(c.operator): the Operator constants (table from parser.go) *)
  Definition oper_text (o : oper) : text :=
    match o with
    | OpOther t => t
    | _ => match find (fun p => oper_eqb (fst p) o) operator_texts with
           | Some (_, t) => t
           | None => []
           end
    end.

  Definition prefix_fields : text := [102; 105; 101; 108; 100; 115; 46].   (* "fields." *)
  Definition prefix_urns : text := [117; 114; 110; 115; 46].                (* "urns." *)

  Definition prop_prefix (pt : ptype) : text :=
    match pt with
    | PField => prefix_fields
    | PURN => prefix_urns
    | _ => []
    end.

  Definition print_value (v : text) : text := if is_number v then v else quote_value v.

  Definition print_cond (pt : ptype) (key : text) (o : oper) (v : text) : text :=
    prop_prefix pt ++ key ++ [32] ++ oper_text o ++ [32] ++ print_value v.

  (* ---- BoolCombination.String -------------------------------------------------------------------- *)

  (* " " + strings.ToUpper(string(b.op)) + " " *)
  Definition bool_word (b : boolop) : text :=
    match b with
    | BAnd => [32; 65; 78; 68; 32]
    | BOr => [32; 79; 82; 32]
    end.

  (* strings.Join *)
  Fixpoint join (sep : text) (l : list text) : text :=
    match l with
    | [] => []
    | [x] => x
    | x :: r => x ++ sep ++ join sep r
    end.

  Fixpoint print (n : node) : text :=
    match n with
    | Cond pt key o v => print_cond pt key o v
    | Comb b ch => [40] ++ join (bool_word b) (map print ch) ++ [41]
    end.

  (* ---- Stringify ---------------------------------------------------------------------------------- *)

  Definition first_is (c : N) (s : text) : bool := match s with x :: _ => x =? c | [] => false end.
  Definition last_is (c : N) (s : text) : bool := first_is c (rev s).

  (* None = the nil node *)
  Definition stringify (n : option node) : text :=
    match n with
    | None => []
    | Some q =>
        let s := print q in
        if first_is 40 s && last_is 41 s then removelast (tl s) else s
    end.
End Printer.

(* ---- Simplify ---------------------------------------------------------------------------------------- *)

Fixpoint keep_some {A} (l : list (option A)) : list A :=
  match l with
  | [] => []
  | Some x :: r => x :: keep_some r
  | None :: r => keep_some r
  end.

Definition promote (b : boolop) (c : node) : list node :=
  match c with
  | Comb b' gc => if boolop_eqb b' b then gc else [c]
  | Cond _ _ _ _ => [c]
  end.

Definition finish (b : boolop) (nc : list node) : option node :=
  match nc with
  | [] => None
  | [x] => Some x
  | _ => Some (Comb b nc)
  end.

Fixpoint simplify (q : node) : option node :=
  match q with
  | Cond _ _ _ _ => Some q
  | Comb b ch => finish b (flat_map (promote b) (keep_some (map simplify ch)))
  end.
