(* CqlEvalCorr.v — comparison of model/CqlEval.v with observations of the real contactql package
   (written by harness/cmd/c15).  No proofs.

   A [world] carries the tables with which the external functions of the model's [env]/[resolver] are
   instantiated; the harness fills them by calling the real functions (unicode.ToLower,
   utils.TokenizeStringByUnicodeSeg, Condition.ValueAsDate + dates.DayToUTCRange, i18n.ParseLanguage,
   Resolver.ResolveGroup/ResolveFlow) on exactly the strings that occur in the world's queries and contacts.
   Two tables are redundant with the model and are cross-checked here: w_days carries the real utcDayEnd
   (the model computes start + 24h) and w_nums the real Condition.ValueAsNumber result (the model has
   [value_number] = [parse_dec] + the exponent bound), and w_stored compares the bound on STORED contact numbers
   ([stored_number_ok]) with what flows.ReadContact really accepts. *)
(* Note: trees built with NewCondition (the column k_raw) have no remembered date format, parsed ones (k_parsed) have the
   parsing environment's (fix 6978ee3); both are compared against the same e_day_start table, which is right because
   the harness evaluates in the environment it parses in. *)
From Coq Require Import List NArith ZArith Bool.
From Verif Require Import model.CqlEval.
Import ListNotations.

Record world := {
  w_lower : list (N * N);
  w_tokens : list (text * list text);
  w_days : list (text * (Z * Z));
  w_nums : list (text * option (Z * Z));
  w_langs : list text;
  w_fields : list (text * ftype);
  w_groups : list text;      (* condition values that ResolveGroup resolves *)
  w_flows : list text;       (* condition values that ResolveFlow resolves *)
  w_stored : list (N * Z * bool)  (* stored contact numbers: length of the JSON text, exponent of the real decimal parse,
                                     whether flows.ReadContact accepted the contact *)
}.

Fixpoint assocN (k : N) (l : list (N * N)) : option N :=
  match l with
  | [] => None
  | (k', x) :: r => if N.eqb k k' then Some x else assocN k r
  end.

Definition env_of (w : world) : env := {|
  e_lower := fun c => match assocN c (w_lower w) with Some x => x | None => c end;
  e_tokens := fun s => match assoc s (w_tokens w) with Some l => l | None => [] end;
  e_day_start := fun s => option_map fst (assoc s (w_days w));
  e_valid_lang := fun s => text_in s (w_langs w)
|}.

Definition resolver_of (w : world) : resolver := {|
  r_field := fun k => assoc k (w_fields w);
  r_group := fun s => text_in s (w_groups w);
  r_flow := fun s => text_in s (w_flows w)
|}.

Inductive pobs := PErr (e : verr) | POk (root : node) | PSkip.

Record ccase := {
  k_world : world;
  k_contact : contact;
  k_query : node;                 (* the tree as built with NewCondition / NewBoolCombination *)
  k_parse : pobs;                 (* ParseQuery(Stringify(tree)): error code, or the parsed root *)
  k_raw : res;                    (* EvaluateQuery on the tree as built *)
  k_parsed : option res;          (* EvaluateQuery on the parsed query, when it parsed *)
  k_simpl : option node * res     (* tree.Simplify() (None = nil) and EvaluateQuery on it *)
}.

Definition ptype_eqb (a b : ptype) : bool :=
  match a, b with PAttr, PAttr | PUrn, PUrn | PField, PField => true | _, _ => false end.

Definition cop_eqb (a b : cop) : bool :=
  match a, b with
  | OpEq, OpEq | OpNe, OpNe | OpContains, OpContains | OpGt, OpGt | OpLt, OpLt | OpGe, OpGe
  | OpLe, OpLe => true
  | _, _ => false
  end.

Definition verr_eqb (a b : verr) : bool :=
  match a, b with
  | EUnknownProperty, EUnknownProperty | EInvalidPartialName, EInvalidPartialName
  | EInvalidPartialURN, EInvalidPartialURN | EUnsupportedContains, EUnsupportedContains
  | EUnsupportedComparison, EUnsupportedComparison | EUnsupportedSetCheck, EUnsupportedSetCheck
  | EInvalidNumber, EInvalidNumber | EInvalidDate, EInvalidDate | EInvalidGroup, EInvalidGroup
  | EInvalidFlow, EInvalidFlow | EInvalidStatus, EInvalidStatus | EInvalidLanguage, EInvalidLanguage => true
  | _, _ => false
  end.

Fixpoint node_eqb (a b : node) : bool :=
  match a, b with
  | Cond p k o v, Cond p' k' o' v' => ptype_eqb p p' && text_eqb k k' && cop_eqb o o' && text_eqb v v'
  | Comb x ch, Comb x' ch' =>
      bop_eqb x x' &&
      (fix go (l l' : list node) : bool :=
         match l, l' with
         | [], [] => true
         | n :: r, n' :: r' => node_eqb n n' && go r r'
         | _, _ => false
         end) ch ch'
  | _, _ => false
  end.

Definition onode_eqb (a b : option node) : bool :=
  match a, b with
  | None, None => true
  | Some x, Some y => node_eqb x y
  | _, _ => false
  end.

Definition res_eqb (a b : res) : bool :=
  match a, b with
  | Panic, Panic => true
  | RBool x, RBool y => Bool.eqb x y
  | _, _ => false
  end.

Definition odec_eqb (a : option dec) (b : option (Z * Z)) : bool :=
  match a, b with
  | None, None => true
  | Some d, Some (m, e) => (d_m d =? m)%Z && (d_e d =? e)%Z
  | _, _ => false
  end.

(* the two redundant tables agree with the model *)
Definition world_ok (w : world) : bool :=
  forallb (fun x => let '(s, e) := snd x in (e =? s + day_ns)%Z) (w_days w)
  && forallb (fun x => odec_eqb (value_number (fst x)) (snd x)) (w_nums w)
  && forallb (fun x => let '(len, ex, accepted) := x in Bool.eqb (stored_number_ok len ex) accepted) (w_stored w).

Definition check (k : ccase) : bool :=
  let e := env_of (k_world k) in
  let r := resolver_of (k_world k) in
  let q := k_query k in
  let qp := query_property (k_contact k) in
  world_ok (k_world k)
  && match k_parse k with
     | PSkip => true
     | PErr er => match validate e r q with Some er' => verr_eqb er er' | None => false end
     | POk root => match validate e r q with Some _ => false | None => onode_eqb (simplify q) (Some root) end
     end
  && res_eqb (eval e r qp q) (k_raw k)
  && match k_parsed k with
     | None => true
     | Some x => res_eqb (eval_root e r qp (simplify q)) x
     end
  && onode_eqb (simplify q) (fst (k_simpl k))
  && res_eqb (eval_root e r qp (simplify q)) (snd (k_simpl k)).

Fixpoint mismatches_from (i : N) (ks : list ccase) : list N :=
  match ks with
  | [] => []
  | k :: rest => (if check k then [] else [i]) ++ mismatches_from (i + 1) rest
  end.

Definition mismatches (ks : list ccase) : list N := mismatches_from 0 ks.
