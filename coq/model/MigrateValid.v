(* MigrateValid.v -- which definitions count as valid at a 13.x version, as boolean predicates.  No proofs.

   [valid_current] restates the checks of definition.ReadFlow (flowEnvelope, node/action/router envelopes and their
   validate tags) ON THE MEMBERS A MIGRATION WRITES:
     header (uuid, name, spec_version)                 migrations.Header13, IsVersionSupported
     language                                          flowEnvelope: required,language (= len=3, counted in characters)
     localization                                      map[language]map[uuid]map[property][]string
     set_run_result  name / category                   required,result_name / omitempty,result_category
     result_name of call_classifier, open_ticket, transfer_airtime (required) and call_resthook, call_webhook (omitempty)
     send_msg  template / template_variables           *assets.TemplateReference (uuid: required,uuid) / []string
     router  result_name / categories[*].name          omitempty,result_name / max=36
   with  result_name = ^[a-zA-Z0-9\-_\s]{1,64}$  and  result_category = ^.{1,36}$  (flows/results.go).
   Everything else the reader checks (required members of the other actions, UUID uniqueness, destinations, flow type)
   is on members no migration writes; it is not restated here.

   [valid_at v] is the same predicate with the requirements a later migration establishes left out:
     before 13.2  any language;   before 13.5  the template may still sit in a `templating` object;
     before 13.6  no length limit on result and category names.
   The old readers are not in the repository: this is the reading of "valid at an older version" the theorems use. *)
From Coq Require Import List NArith ZArith Bool String.
From Verif Require Import lib.Json gen.MigrationTable model.Migrate.
Import ListNotations.
Open Scope N_scope.

Definition rune_len (x : str) : N := N.of_nat (List.length x).

(* [a-zA-Z0-9\-_\s]  (RE2: \s = [\t\n\f\r ]) *)
Definition result_name_char (c : N) : bool :=
  ((97 <=? c) && (c <=? 122)) || ((65 <=? c) && (c <=? 90)) || ((48 <=? c) && (c <=? 57))
  || (c =? 45) || (c =? 95) || (c =? 9) || (c =? 10) || (c =? 12) || (c =? 13) || (c =? 32).

(* limited: the 64 character limit of 13.6 applies *)
Definition result_name_ok (limited : bool) (x : str) : bool :=
  nonempty x && forallb result_name_char x && (negb limited || (rune_len x <=? max_result_name)).

(* ^.{1,36}$ : no newline *)
Definition category_chars_ok (x : str) : bool := forallb (fun c => negb (c =? 10)) x.
Definition result_category_ok (limited : bool) (x : str) : bool :=
  nonempty x && category_chars_ok x && (negb limited || (rune_len x <=? max_category_name)).

(* a string member read into a Go string field: absent and null read as "" *)
Inductive field := FBad | FText (x : str).
Definition string_field (k : str) (o : obj) : field :=
  match olookup k o with
  | None | Some JNull => FText []
  | Some (JStr x) => FText x
  | Some _ => FBad
  end.

(* validate:"required,<p>" / validate:"omitempty,<p>" on a string field *)
Definition required_field (p : str -> bool) (k : str) (o : obj) : bool :=
  match string_field k o with FText x => p x | FBad => false end.
Definition optional_field (p : str -> bool) (k : str) (o : obj) : bool :=
  match string_field k o with FText [] => true | FText x => p x | FBad => false end.

(* validator tag uuid *)
Definition is_uuid (u : str) : bool :=
  Nat.eqb (List.length u) 36 &&
  (fix go (i : N) (u : str) : bool :=
     match u with
     | [] => true
     | c :: r => (if (i =? 8) || (i =? 13) || (i =? 18) || (i =? 23) then c =? 45 else hex_lower c) && go (i + 1) r
     end) 0 u.

(* *assets.TemplateReference *)
Definition template_ref_ok (v : option json) : bool :=
  match v with
  | None | Some JNull => true
  | Some (JObj t) =>
      required_field is_uuid k_uuid t
      && match string_field k_name t with FBad => false | _ => true end
  | Some _ => false
  end.

(* []string *)
Definition string_array_ok (v : option json) : bool :=
  match v with
  | None | Some JNull => true
  | Some (JArr l) => forallb (fun x => match x with JStr _ | JNull => true | _ => false end) l
  | Some _ => false
  end.

(* localization: map[language]map[uuid]map[property][]string *)
Definition item_translation_ok (v : json) : bool :=
  match v with
  | JNull => true
  | JObj it => forallb (fun kv : str * json => string_array_ok (Some (snd kv))) it
  | _ => false
  end.
Definition language_translation_ok (v : json) : bool :=
  match v with
  | JNull => true
  | JObj lt => forallb (fun kv : str * json => item_translation_ok (snd kv)) lt
  | _ => false
  end.
Definition localization_ok (v : option json) : bool :=
  match v with
  | None | Some JNull => true
  | Some (JObj l) => forallb (fun kv : str * json => language_translation_ok (snd kv)) l
  | Some _ => false
  end.

Definition is_any_type (ts : list string) (o : obj) : bool := existsb (fun t => is_type t o) ts.

Section Flags.
  (* lang: 13.2 applied; merged: 13.5 applied; limited: 13.6 applied; others_limited: also the result_name of the
     actions Migrate13_6 does not look at respects the limit *)
  Variables (lang merged limited others_limited : bool).

  Definition send_msg_ok (a : obj) : bool :=
    match (if merged then None else get_obj k_templating a) with
    | Some t => template_ref_ok (olookup k_template t)
    | None => template_ref_ok (olookup k_template a) && string_array_ok (olookup k_template_variables a)
    end.

  Definition action_ok (a : obj) : bool :=
    if is_type "set_run_result" a then
      required_field (result_name_ok limited) k_name a && optional_field (result_category_ok limited) k_category a
    else if is_any_type ["call_classifier"; "open_ticket"; "transfer_airtime"]%string a then
      required_field (result_name_ok others_limited) k_result_name a
    else if is_any_type ["call_resthook"; "call_webhook"]%string a then
      optional_field (result_name_ok others_limited) k_result_name a
    else if is_type "send_msg" a then send_msg_ok a
    else true.

  Definition category_ok (c : json) : bool :=
    match c with
    | JObj o => match string_field k_name o with
                | FText x => negb limited || (rune_len x <=? max_category_name)
                | FBad => false
                end
    | _ => true
    end.

  Definition router_ok (r : obj) : bool :=
    optional_field (result_name_ok limited) k_result_name r
    && match olookup k_categories r with Some (JArr cs) => forallb category_ok cs | _ => true end.

  Definition node_ok (n : json) : bool :=
    match n with
    | JObj o =>
        (match olookup k_actions o with
         | Some (JArr l) => forallb (fun a => match a with JObj a => action_ok a | _ => true end) l
         | _ => true
         end)
        && (match olookup k_router o with Some (JObj r) => router_ok r | _ => true end)
    | _ => true
    end.

  Definition language_ok (f : obj) : bool :=
    negb lang || match olookup k_language f with Some (JStr l) => Nat.eqb (List.length l) 3 | _ => false end.

  Definition body_ok (f : obj) : bool :=
    language_ok f && localization_ok (olookup k_localization f)
    && match olookup k_nodes f with Some (JArr l) => forallb node_ok l | _ => true end.
End Flags.

Definition v13_2 : version := (13, 2, 0).
Definition v13_5 : version := (13, 5, 0).
Definition v13_6 : version := (13, 6, 0).

(* valid as a definition in the format of version [v]; strict: also the result names Migrate13_6 leaves alone are
   within the limit that came with 13.6 *)
Definition valid_body_at (strict : bool) (v : version) (f : obj) : bool :=
  body_ok (vle v13_2 v) (vle v13_5 v) (vle v13_6 v) (strict || vle v13_6 v) f.

(* valid at the version its header names *)
Definition valid_source_with (strict : bool) (j : json) : bool :=
  match header_version j, j with
  | Some v, JObj f => valid_body_at strict v f
  | _, _ => false
  end.
Definition valid_source (j : json) : bool := valid_source_with false j.

Definition major (v : version) : N := fst (fst v).

(* loads at the current version without a further migration *)
Definition valid_current (j : json) : bool :=
  match header_version j, j with
  | Some v, JObj f =>
      vle current_spec_version v && (major v <=? major current_spec_version) && body_ok true true true true f
  | _, _ => false
  end.

(* ---- legacy (11.x) definitions: the graph skeleton only ------------------------------------------------------------ *)

Definition k_action_sets := s "action_sets".
Definition k_rule_sets := s "rule_sets".
Definition k_rules := s "rules".
Definition k_destination := s "destination".
Definition k_exit_uuid := s "exit_uuid".
Definition k_metadata := s "metadata".
Definition k_entry := s "entry".

Definition mem_str (x : str) (l : list str) : bool := existsb (str_eqb x) l.
Definition subset_str (a b : list str) : bool := forallb (fun x => mem_str x b) a.
Definition edge_eqb (a b : str * str) : bool := str_eqb (fst a) (fst b) && str_eqb (snd a) (snd b).
Definition subset_edges (a b : list (str * str)) : bool := forallb (fun x => existsb (edge_eqb x) b) a.

Definition objects_of (k : str) (o : obj) : list obj :=
  match get_arr k o with
  | Some l => flat_map (fun x => match x with JObj y => [y] | _ => [] end) l
  | None => []
  end.

Definition text_member (k : str) (o : obj) : str := match get_str k o with Some x => x | None => [] end.

Definition legacy_nodes (f : obj) : list str :=
  map (text_member k_uuid) (objects_of k_action_sets f ++ objects_of k_rule_sets f).

(* (node, destination) for destinations that are nodes of the flow *)
Definition legacy_edges (f : obj) : list (str * str) :=
  let ns := legacy_nodes f in
  filter (fun e => nonempty (snd e) && mem_str (snd e) ns)
    (map (fun a => (text_member k_uuid a, text_member k_destination a)) (objects_of k_action_sets f)
     ++ flat_map (fun r => map (fun ru => (text_member k_uuid r, text_member k_destination ru)) (objects_of k_rules r))
                 (objects_of k_rule_sets f)).

(* what may become an exit: an action set's exit_uuid, a rule's uuid *)
Definition legacy_exits (f : obj) : list str :=
  map (text_member k_exit_uuid) (objects_of k_action_sets f)
  ++ flat_map (fun r => map (text_member k_uuid) (objects_of k_rules r)) (objects_of k_rule_sets f).

Definition legacy_uuid (f : obj) : str :=
  match get_obj k_metadata f with
  | Some m => match text_member k_uuid m with [] => text_member k_uuid f | u => u end
  | None => text_member k_uuid f
  end.

(* the migrated flow [u, g] has the legacy flow's uuid, exactly its nodes, exactly its connections (rules of one
   category sharing a destination may have collapsed into one exit), only exits that were there, entry node first *)
Definition legacy_graph_ok (j : json) (u : str) (g : list (str * list (str * str))) : bool :=
  match j with
  | JObj f =>
      let ns := map fst g in
      let es := flat_map (fun n => flat_map (fun e => if nonempty (snd e) then [(fst n, snd e)] else []) (snd n)) g in
      (negb (nonempty (legacy_uuid f)) || str_eqb (legacy_uuid f) u)
      && subset_str ns (legacy_nodes f) && subset_str (legacy_nodes f) ns
      && Nat.eqb (List.length ns) (List.length (legacy_nodes f))
      && subset_edges es (legacy_edges f) && subset_edges (legacy_edges f) es
      && forallb (fun n => forallb (fun e => mem_str (fst e) (legacy_exits f)) (snd n)) g
      && (let entry := text_member k_entry f in
          negb (mem_str entry (legacy_nodes f)) || match ns with n :: _ => str_eqb n entry | [] => false end)
  | _ => false
  end.

(* ---- the reader's checks on members that Migrate13_3 writes through the refactoring function ----------------------------
   These depend on the TEXT of a template member (not only on its shape), so a migration that rewrites templates must
   keep them:  `required` on add_contact_urn.path, send_msg/send_broadcast.text, call_classifier.input, call_webhook.url,
   play_audio.audio_url, say_msg.text, send_email.subject/body, switch router operand;  `attachment` on every element of
   send_msg/send_broadcast.attachments;  "exactly one of id and matcher" on group / label / user references
   (assets.GroupReferenceValidation etc.: uuid xor name_match, email xor email_match). *)

Definition k_attachments := s "attachments".
Definition k_groups := s "groups".
Definition k_labels := s "labels".
Definition k_assignee := s "assignee".
Definition k_operand := s "operand".
Definition k_name_match := s "name_match".
Definition k_email := s "email".
Definition k_email_match := s "email_match".

(* strings.ToLower, as far as it can produce a character the content type expression admits *)
Definition lower_rune (c : N) : N :=
  if (65 <=? c) && (c <=? 90) then c + 32 else if c =? 8490 then 107 else if c =? 304 then 105 else c.

Definition word_char (c : N) : bool :=
  ((97 <=? c) && (c <=? 122)) || ((65 <=? c) && (c <=? 90)) || ((48 <=? c) && (c <=? 57)) || (c =? 95).
Definition subtype_char (c : N) : bool := word_char c || (c =? 45) || (c =? 43) || (c =? 46).

(* text before the first occurrence of a character, and after it; None: no occurrence *)
Fixpoint split_at (sep : N) (x : str) : option (str * str) :=
  match x with
  | [] => None
  | c :: r => if c =? sep then Some ([], r)
              else match split_at sep r with Some (a, b) => Some (c :: a, b) | None => None end
  end.

(* ^(image|audio|video|application|geo|unavailable|(\w+/[-+.\w]+))$ *)
Definition content_type_ok (t : str) : bool :=
  existsb (fun w => str_eqb t (s w)) ["image"; "audio"; "video"; "application"; "geo"; "unavailable"]%string
  || match split_at 47 t with
     | Some (a, b) => nonempty a && forallb word_char a && nonempty b && forallb subtype_char b
     | None => false
     end.

(* utils.IsValidAttachment *)
Definition attachment_ok (x : str) : bool :=
  match split_at 58 x with
  | Some (t, url) => content_type_ok (map lower_rune t) && nonempty url
  | None => false
  end.

Definition attachments_ok (a : obj) : bool :=
  match olookup k_attachments a with
  | None | Some JNull => true
  | Some (JArr l) => forallb (fun v => match v with JStr x => attachment_ok x | JNull => false | _ => false end) l
  | Some _ => false
  end.

(* a reference with an id member and a matcher member: exactly one of them is set (a null reference is an absent one;
   inside a list of references the reader wants every element: validate:"dive,required") *)
Definition reference_ok (id matcher : str) (v : json) : bool :=
  match v with
  | JNull => true
  | JObj r =>
      match string_field id r, string_field matcher r with
      | FText a, FText b => xorb (nonempty a) (nonempty b)
      | _, _ => false
      end
  | _ => false
  end.

Definition references_ok (required : bool) (k id matcher : str) (a : obj) : bool :=
  match olookup k a with
  | None | Some JNull => negb required
  | Some (JArr l) => forallb (fun v => match v with JNull => false | _ => reference_ok id matcher v end) l
  | Some _ => false
  end.

Definition required_texts : list (string * list str) :=
  [("add_contact_urn", [s "path"]); ("send_msg", [s "text"]); ("send_broadcast", [s "text"]);
   ("call_classifier", [s "input"]); ("call_webhook", [s "url"]); ("play_audio", [s "audio_url"]);
   ("say_msg", [s "text"]); ("send_email", [s "subject"; s "body"])]%string.

Definition action_texts_ok (a : obj) : bool :=
  forallb (fun row : string * list str =>
             negb (is_type (fst row) a) || forallb (fun k => required_field nonempty k a) (snd row)) required_texts
  && (negb (is_any_type ["send_msg"; "send_broadcast"]%string a) || attachments_ok a)
  && (negb (is_type "add_contact_groups" a) || references_ok true k_groups k_uuid k_name_match a)
  && (negb (is_any_type ["remove_contact_groups"; "send_broadcast"; "start_session"]%string a)
      || references_ok false k_groups k_uuid k_name_match a)
  && (negb (is_type "add_input_labels" a) || references_ok true k_labels k_uuid k_name_match a)
  && (negb (is_type "open_ticket" a)
      || match olookup k_assignee a with None => true | Some v => reference_ok k_email k_email_match v end).

Definition router_texts_ok (r : obj) : bool :=
  negb (is_type "switch" r) || required_field nonempty k_operand r.

Definition node_texts_ok (n : json) : bool :=
  match n with
  | JObj o =>
      (match olookup k_actions o with
       | Some (JArr l) => forallb (fun a => match a with JObj a => action_texts_ok a | _ => true end) l
       | _ => true
       end)
      && (match olookup k_router o with Some (JObj r) => router_texts_ok r | _ => true end)
  | _ => true
  end.

Definition texts_ok (f : obj) : bool :=
  match olookup k_nodes f with Some (JArr l) => forallb node_texts_ok l | _ => true end.

(* valid at the version of its header, template members included *)
Definition valid_source_full (strict : bool) (j : json) : bool :=
  valid_source_with strict j && match j with JObj f => texts_ok f | _ => false end.

(* loads at the current version, template members included *)
Definition valid_current_full (j : json) : bool :=
  valid_current j && match j with JObj f => texts_ok f | _ => false end.

(* what the validity argument needs of the refactoring function: it keeps empty texts empty and non-empty ones
   non-empty, and it does not change whether a text is an acceptable attachment *)
Definition tx_keeps_on (tx : str -> str) (x : str) : bool :=
  Bool.eqb (nonempty (tx x)) (nonempty x) && Bool.eqb (attachment_ok (tx x)) (attachment_ok x).
