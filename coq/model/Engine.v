(* Engine.v — model of goflow's session state machine over a core flow language (CFL).

   Transcribed, statement by statement, from
     flows/engine/session.go   start, Resume, tryToResume (failSession), findResumeExit,
                               continueUntilWait, visitNode, pickNodeExit, countWaits, failRun
     flows/engine/engine.go    NewSession, option defaults
     flows/runs/run.go         NewRun, Exit, SetStatus, LogEvent, CreateStep, PathLocation, SaveResult
     flows/runs/step.go        Leave
     flows/results.go          Results.Save
     flows/resumes/*.go        baseResume.Apply, MsgResume/WaitTimeoutResume/RunExpirationResume/DialResume.Apply
     flows/triggers/*.go       baseTrigger.Initialize, MsgTrigger.InitializeRun
     flows/routers/waits/msg.go  MsgWait.Begin, MsgWait.Accepts   (dial.go: DialWait.Accepts)
     flows/routers/switch.go, base.go   Route / matchCase / routeToCategory / RouteTimeout — restricted to CFL:
                               operand @(default(input.text, "")), test has_only_text with literal arguments
     flows/actions/send_msg.go, set_run_result.go, enter_flow.go (+ baseAction.fail) — CFL forms
     gocommon stringsx.Truncate / TruncateEllipsis, utils/truncate.go

   Conventions.  Go pointers to runs are indices into the session's run list; a step is addressed by
   (run index, position in that run's path).  The locals of continueUntilWait are kept in an explicit
   record [lstate] and updated exactly where the Go code assigns them (stale locals are observable:
   see DESIGN.md F1, O1).  The main loop is recursion on fuel with a distinct [ROutOfFuel] result; Go
   errors returned by the engine are [RGoError]; a Go panic (slice bounds in TruncateEllipsis) is
   [RPanic].  Flows are looked up in the assets at every use (this is what a restored session does;
   the in-memory session is equivalent as long as the assets do not change — C02).

   No proofs in this file. *)

From Coq Require Import List NArith ZArith Bool.
From Verif Require Import model.Lang.
Import ListNotations.
Open Scope N_scope.

Definition id := N.

(* ---- definitions (assets) ------------------------------------------------------------------- *)

Record exit := { e_id : id; e_dest : option id }.

Inductive action :=
| ASendMsg (t : text)
| ASetResult (name value category : text)
| AEnterFlow (flow : id) (terminal : bool).

Record category := { cat_name : text; cat_exit : id }.

Inductive wait_type := WMsg | WDial.
Record wait := { w_type : wait_type; w_timeout : option (N * nat) }.   (* seconds, category index *)

Record router := {
  rt_wait : option wait;
  rt_result : option text;                    (* result name, None = "" *)
  rt_cats : list category;
  rt_cases : list (text * nat);               (* has_only_text argument, category index *)
  rt_default : option nat                     (* default category index *)
}.

Record node := { n_id : id; n_actions : list action; n_router : option router; n_exits : list exit }.

Record flow := { f_id : id; f_type : N; f_nodes : list node }.   (* f_type: 0 messaging, 1 voice, … *)

Record options := { max_steps : Z; max_resumes : Z; max_template_chars : Z; max_result_chars : Z }.

Record assets := { a_flows : list flow; a_opts : options }.

Fixpoint find_flow (fs : list flow) (i : id) : option flow :=
  match fs with
  | [] => None
  | f :: rest => if N.eqb (f_id f) i then Some f else find_flow rest i
  end.

Fixpoint find_node (ns : list node) (i : id) : option node :=
  match ns with
  | [] => None
  | n :: rest => if N.eqb (n_id n) i then Some n else find_node rest i
  end.

Fixpoint find_exit (es : list exit) (i : id) : option exit :=
  match es with
  | [] => None
  | e :: rest => if N.eqb (e_id e) i then Some e else find_exit rest i
  end.

Definition get_flow (a : assets) (i : id) : option flow := find_flow (a_flows a) i.
Definition get_node (f : flow) (i : id) : option node := find_node (f_nodes f) i.

(* ---- session state ---------------------------------------------------------------------------- *)

Inductive rstatus := RActive | RWaiting | RCompleted | RFailed | RExpired.
Inductive sstatus := SActive | SWaiting | SCompleted | SFailed.

Definition rstatus_eqb (a b : rstatus) : bool :=
  match a, b with
  | RActive, RActive | RWaiting, RWaiting | RCompleted, RCompleted | RFailed, RFailed | RExpired, RExpired => true
  | _, _ => false
  end.

Definition sstatus_eqb (a b : sstatus) : bool :=
  match a, b with
  | SActive, SActive | SWaiting, SWaiting | SCompleted, SCompleted | SFailed, SFailed => true
  | _, _ => false
  end.

(* failure reasons (the harness maps the failure event's text to these) *)
Inductive fail_code :=
| FStepLimit | FNoCategory | FChildFailed | FMissingFlow | FMaxResumes | FNoLocation | FNoWait
| FRouteError | FParentNodeGone | FParentMissingFlow | FEnterMissingFlow | FEnterFlowType
| FVoiceNoCall.   (* "can't resume run in voice flow without call" (session.canContinue) *)

Inductive ekind :=
| EMsgReceived (t : text)
| EMsgCreated (t : text)
| EResultChanged (name value category : text)
| EFlowEntered (flow : id) (terminal : bool)
| EMsgWait (timeout : option N)
| EWaitTimedOut
| ERunExpired
| EDialEnded
| EFailure (c : fail_code)
| EDialWait.                      (* dial_wait: a dial wait began (voice flows) *)

Definition stepref := (nat * nat)%type.          (* run index, position in its path *)
Record event := { ev_step : option stepref; ev_kind : ekind }.

Record step := { st_node : id; st_exit : option id }.

Record result := { res_name : text; res_value : text; res_cat : text; res_node : id; res_input : text }.

Record run := {
  r_flow : id;
  r_parent : option nat;
  r_status : rstatus;
  r_exited : bool;
  r_path : list step;
  r_events : list event;
  r_results : list result
}.

Inductive trigger := TManual | TMsg (t : text) | TFlowAction.
Inductive resume := RMsg (t : text) | RTimeout | RExpiration | RDial.

Record pushed := { p_flow : id; p_terminal : bool }.

Record session := {
  s_status : sstatus;
  s_type : N;
  s_trigger : trigger;
  s_flow : id;                          (* flow named by the trigger *)
  s_runs : list run;
  s_input : option text;
  s_pushed : option pushed
}.

Record segment := { sg_flow : id; sg_node : id; sg_exit : id; sg_operand : text; sg_dest : id }.

Record sprint := { sp_events : list (option nat * event); sp_segments : list segment }.

Definition empty_sprint : sprint := {| sp_events := []; sp_segments := [] |}.

(* engine state threaded through a call *)
Record st := { session_ : session; sprint_ : sprint }.

(* ---- small helpers ------------------------------------------------------------------------------ *)

Fixpoint text_eqb (a b : text) : bool :=
  match a, b with
  | [], [] => true
  | x :: a', y :: b' => N.eqb x y && text_eqb a' b'
  | _, _ => false
  end.

Fixpoint update_nth {A} (l : list A) (i : nat) (f : A -> A) : list A :=
  match l, i with
  | [], _ => []
  | x :: rest, O => f x :: rest
  | x :: rest, S i' => x :: update_nth rest i' f
  end.

Definition set_runs (s : session) (rs : list run) : session :=
  {| s_status := s_status s; s_type := s_type s; s_trigger := s_trigger s; s_flow := s_flow s;
     s_runs := rs; s_input := s_input s; s_pushed := s_pushed s |}.
Definition set_status (s : session) (x : sstatus) : session :=
  {| s_status := x; s_type := s_type s; s_trigger := s_trigger s; s_flow := s_flow s;
     s_runs := s_runs s; s_input := s_input s; s_pushed := s_pushed s |}.
Definition set_input (s : session) (x : option text) : session :=
  {| s_status := s_status s; s_type := s_type s; s_trigger := s_trigger s; s_flow := s_flow s;
     s_runs := s_runs s; s_input := x; s_pushed := s_pushed s |}.
Definition set_pushed (s : session) (x : option pushed) : session :=
  {| s_status := s_status s; s_type := s_type s; s_trigger := s_trigger s; s_flow := s_flow s;
     s_runs := s_runs s; s_input := s_input s; s_pushed := x |}.
Definition set_type (s : session) (x : N) : session :=
  {| s_status := s_status s; s_type := x; s_trigger := s_trigger s; s_flow := s_flow s;
     s_runs := s_runs s; s_input := s_input s; s_pushed := s_pushed s |}.

Definition upd_run (s : session) (i : nat) (f : run -> run) : session :=
  set_runs s (update_nth (s_runs s) i f).

Definition get_run (s : session) (i : nat) : option run := nth_error (s_runs s) i.

Definition run_set_status (x : rstatus) (r : run) : run :=
  {| r_flow := r_flow r; r_parent := r_parent r; r_status := x; r_exited := r_exited r;
     r_path := r_path r; r_events := r_events r; r_results := r_results r |}.
(* run.Exit *)
Definition run_exit (x : rstatus) (r : run) : run :=
  {| r_flow := r_flow r; r_parent := r_parent r; r_status := x; r_exited := true;
     r_path := r_path r; r_events := r_events r; r_results := r_results r |}.
Definition run_add_event (e : event) (r : run) : run :=
  {| r_flow := r_flow r; r_parent := r_parent r; r_status := r_status r; r_exited := r_exited r;
     r_path := r_path r; r_events := r_events r ++ [e]; r_results := r_results r |}.
Definition run_add_step (x : step) (r : run) : run :=
  {| r_flow := r_flow r; r_parent := r_parent r; r_status := r_status r; r_exited := r_exited r;
     r_path := r_path r ++ [x]; r_events := r_events r; r_results := r_results r |}.
Definition run_set_path (p : list step) (r : run) : run :=
  {| r_flow := r_flow r; r_parent := r_parent r; r_status := r_status r; r_exited := r_exited r;
     r_path := p; r_events := r_events r; r_results := r_results r |}.
Definition run_set_results (x : list result) (r : run) : run :=
  {| r_flow := r_flow r; r_parent := r_parent r; r_status := r_status r; r_exited := r_exited r;
     r_path := r_path r; r_events := r_events r; r_results := x |}.

Definition new_run (flow : id) (parent : option nat) : run :=
  {| r_flow := flow; r_parent := parent; r_status := RActive; r_exited := false;
     r_path := []; r_events := []; r_results := [] |}.

(* run.LogEvent(step, e) + sprint.logEvent(e) *)
Definition log_event (x : st) (ri : nat) (sr : option stepref) (k : ekind) : st :=
  let e := {| ev_step := sr; ev_kind := k |} in
  {| session_ := upd_run (session_ x) ri (run_add_event e);
     sprint_ := {| sp_events := sp_events (sprint_ x) ++ [(Some ri, e)];
                   sp_segments := sp_segments (sprint_ x) |} |}.

Definition log_segment (x : st) (g : segment) : st :=
  {| session_ := session_ x;
     sprint_ := {| sp_events := sp_events (sprint_ x); sp_segments := sp_segments (sprint_ x) ++ [g] |} |}.

Definition with_session (x : st) (f : session -> session) : st :=
  {| session_ := f (session_ x); sprint_ := sprint_ x |}.

(* failRun *)
Definition fail_run (x : st) (ri : nat) (sr : option stepref) (c : fail_code) : st :=
  let x := with_session x (fun s => upd_run s ri (run_exit RFailed)) in
  log_event x ri sr (EFailure c).

Definition run_status (s : session) (i : nat) : option rstatus := option_map r_status (get_run s i).

(* run.PathLocation: (position of the last step, node) or an error *)
Definition path_location (a : assets) (s : session) (ri : nat) : option (nat * node) :=
  match get_run s ri with
  | None => None
  | Some r =>
      match r_path r with
      | [] => None                                   (* "run has no location as path is empty" *)
      | _ =>
          let pos := Nat.pred (length (r_path r)) in
          match nth_error (r_path r) pos with
          | None => None
          | Some stp =>
              match get_flow a (r_flow r) with
              | None => None
              | Some f => match get_node f (st_node stp) with
                          | None => None             (* "located at a flow node that no longer exists" *)
                          | Some n => Some (pos, n)
                          end
              end
          end
      end
  end.

(* stringsx.truncate; None = Go panic (negative slice bound) *)
Definition truncate (s : text) (limit : Z) (ending : text) : option text :=
  if (Z.of_nat (length s) <=? limit)%Z then Some s
  else
    let cut := (limit - Z.of_nat (length ending))%Z in
    if (cut <? 0)%Z then None
    else Some (firstn (Z.to_nat cut) s ++ ending).

Definition ellipsis : text := [46; 46; 46].

(* utils.Truncate / utils.TruncateEllipsis (utils/truncate.go): the limits are arbitrary ints; a negative
   limit counts as zero and a limit too small for the ellipsis just cuts *)
Definition trunc (s : text) (limit : Z) : option text := truncate s (Z.max limit 0) [].
Definition trunc_ellipsis (s : text) (limit : Z) : option text :=
  if (limit <? 3)%Z then trunc s limit else truncate s limit ellipsis.

(* Results.Save: keyed by (already snake-case) name; changed iff new, or value/category differ *)
Fixpoint save_result (rs : list result) (x : result) : list result * bool :=
  match rs with
  | [] => ([x], true)
  | y :: rest =>
      if text_eqb (res_name y) (res_name x)
      then (x :: rest, negb (text_eqb (res_value y) (res_value x) && text_eqb (res_cat y) (res_cat x)))
      else let '(rest', ch) := save_result rest x in (y :: rest', ch)
  end.

Inductive outcome (A : Type) := Done (x : st) (v : A) | GoErr (x : st) | Panicked.
Arguments Done {A}. Arguments GoErr {A}. Arguments Panicked {A}.

(* run.SaveResult + run_result_changed (used by set_run_result and routeToCategory) *)
Definition save_and_log (a : assets) (x : st) (ri : nat) (sr : option stepref)
           (name value catname : text) (nodeid : id) (input : text) : outcome unit :=
  match trunc value (max_result_chars (a_opts a)) with
  | None => Panicked
  | Some v =>
      (* the input kept with a result: routeVia (routers/base.go) truncates the operand it KEEPS like any other
         evaluated template (the tests saw all of it), so a router that reads back its own result cannot grow the
         session from visit to visit; set_run_result keeps no input ("" is unchanged by the truncation).  The
         truncation is written here, once, because both callers pass what they keep through this function. *)
      match trunc_ellipsis input (max_template_chars (a_opts a)) with
      | None => Panicked
      | Some kept =>
          match get_run (session_ x) ri with
          | None => Done x tt
          | Some r =>
              let res := {| res_name := name; res_value := v; res_cat := catname; res_node := nodeid; res_input := kept |} in
              let '(rs, changed) := save_result (r_results r) res in
              let x := with_session x (fun s => upd_run s ri (run_set_results rs)) in
              Done (if changed then log_event x ri sr (EResultChanged name v catname) else x) tt
          end
      end
  end.

(* ---- routers (CFL) ------------------------------------------------------------------------------ *)

Definition operand_of (s : session) : text := match s_input s with Some t => t | None => [] end.

(* matchCase: first case, in order, whose argument equals the operand *)
Fixpoint match_case (cs : list (text * nat)) (operand : text) : option nat :=
  match cs with
  | [] => None
  | (arg, c) :: rest => if text_eqb operand arg then Some c else match_case rest operand
  end.

(* routeToCategory: None = category "" (no exit picked); Some exit id *)
Definition route_to_category (a : assets) (x : st) (ri : nat) (sr : option stepref) (n : node) (rt : router)
           (cat : option nat) (mtch operand : text) : outcome (option id) :=
  match cat with
  | None => Done x None
  | Some ci =>
      match nth_error (rt_cats rt) ci with
      | None => GoErr x                                   (* "category … is not a valid category" *)
      | Some c =>
          match rt_result rt with
          | None => Done x (Some (cat_exit c))
          | Some name =>
              match save_and_log a x ri sr name mtch (cat_name c) (n_id n) operand with
              | Done x' _ => Done x' (Some (cat_exit c))
              | GoErr x' => GoErr x'
              | Panicked => Panicked
              end
          end
      end
  end.

(* SwitchRouter.Route: (exit id, operand) *)
Definition route (a : assets) (x : st) (ri : nat) (sr : option stepref) (n : node) (rt : router)
  : outcome (option id * text) :=
  let operand := operand_of (session_ x) in
  let cat := match match_case (rt_cases rt) operand with
             | Some c => Some c
             | None => rt_default rt
             end in
  match route_to_category a x ri sr n rt cat operand operand with
  | Done x' e => Done x' (e, operand)
  | GoErr x' => GoErr x'
  | Panicked => Panicked
  end.

(* baseRouter.RouteTimeout *)
Definition route_timeout (a : assets) (x : st) (ri : nat) (sr : option stepref) (n : node) (rt : router)
           (timed_out_on : text) : outcome (option id) :=
  match rt_wait rt with
  | Some {| w_timeout := Some (_, ci) |} =>
      route_to_category a x ri sr n rt (Some ci) timed_out_on []
  | _ => GoErr x                                          (* "can't call route timeout on router with no timeout" *)
  end.

Definition set_step_exit (e : option id) (pos : nat) (r : run) : run :=
  run_set_path (update_nth (r_path r) pos (fun stp => {| st_node := st_node stp; st_exit := e |})) r.

(* pickNodeExit.  [tmo] is the rendering of the time of the timeout (an opaque text supplied by the
   caller; the harness does not compare it). *)
Definition pick_node_exit (a : assets) (x : st) (ri : nat) (n : node) (pos : nat) (is_timeout : bool) (tmo : text)
  : outcome (option exit * text) :=
  let sr := Some (ri, pos) in
  let routed : outcome (option id * text) :=
    match n_router n with
    | Some rt =>
        if is_timeout
        then match route_timeout a x ri sr n rt tmo with
             | Done x' e => Done x' (e, [])
             | GoErr x' => GoErr x'
             | Panicked => Panicked
             end
        else route a x ri sr n rt
    | None =>
        match n_exits n with
        | e :: _ => Done x (Some (e_id e), [])
        | [] => Done x (None, [])
        end
    end in
  match routed with
  | GoErr x' => GoErr x'
  | Panicked => Panicked
  | Done x' (eid, operand) =>
      match n_router n, eid with
      | Some _, None =>
          (* router didn't error, but it failed to pick a category *)
          Done (fail_run x' ri sr FNoCategory) (None, [])
      | _, _ =>
          let x' := with_session x' (fun s => upd_run s ri (set_step_exit eid pos)) in
          match eid with
          | Some i => Done x' (find_exit (n_exits n) i, match find_exit (n_exits n) i with Some _ => operand | None => [] end)
          | None => Done x' (None, [])
          end
      end
  end.

(* findResumeExit: error = None in the middle component *)
Inductive fre := FreOk (x : st) (e : option exit) (operand : text) | FreErr (x : st) | FreGoErr (x : st) | FrePanic.

Definition find_resume_exit (a : assets) (x : st) (ri : nat) (is_timeout : bool) (tmo : text) : fre :=
  match run_status (session_ x) ri with
  | Some RActive =>
      match path_location a (session_ x) ri with
      | None => FreErr x
      | Some (pos, n) =>
          match pick_node_exit a x ri n pos is_timeout tmo with
          | Done x' (e, op) => FreOk x' e op
          | GoErr x' => FreErr x'                     (* pickNodeExit's error is findResumeExit's error *)
          | Panicked => FrePanic
          end
      end
  | _ => FreOk x None []
  end.

(* ---- actions ------------------------------------------------------------------------------------- *)

Definition exec_action (a : assets) (x : st) (ri : nat) (pos : nat) (n : node) (act : action) : outcome unit :=
  let sr := Some (ri, pos) in
  match act with
  | ASendMsg t =>
      match trunc_ellipsis t (max_template_chars (a_opts a)) with
      | None => Panicked
      | Some t' => Done (log_event x ri sr (EMsgCreated t')) tt
      end
  | ASetResult name value cat =>
      (* value is template-free; EvaluateTemplate truncates to MaxTemplateChars first *)
      match trunc_ellipsis value (max_template_chars (a_opts a)) with
      | None => Panicked
      | Some v => save_and_log a x ri sr name v cat (n_id n) []
      end
  | AEnterFlow fl terminal =>
      match get_flow a fl with
      | None =>
          let x := with_session x (fun s => upd_run s ri (run_exit RFailed)) in
          Done (log_event x ri sr (EFailure FEnterMissingFlow)) tt
      | Some f =>
          if negb (N.eqb (s_type (session_ x)) (f_type f))
          then let x := with_session x (fun s => upd_run s ri (run_exit RFailed)) in
               Done (log_event x ri sr (EFailure FEnterFlowType)) tt
          else
            let x := with_session x (fun s => set_pushed s (Some {| p_flow := fl; p_terminal := terminal |})) in
            Done (log_event x ri sr (EFlowEntered fl terminal)) tt
      end
  end.

(* the action loop of visitNode: stops when an action failed the run *)
Fixpoint exec_actions (a : assets) (x : st) (ri : nat) (pos : nat) (n : node) (acts : list action) : outcome bool :=
  match acts with
  | [] => Done x false
  | act :: rest =>
      match exec_action a x ri pos n act with
      | GoErr x' => GoErr x'
      | Panicked => Panicked
      | Done x' _ =>
          match run_status (session_ x') ri with
          | Some RFailed =>
              (* a failed run can't enter a flow which an earlier action on this node asked for *)
              Done (with_session x' (fun s => set_pushed s None)) true
          | _ => exec_actions a x' ri pos n rest
          end
      end
  end.

Definition is_msg_trigger (t : trigger) : bool := match t with TMsg _ => true | _ => false end.

(* visitNode: returns the step position, the exit and the operand *)
Definition visit_node (a : assets) (x : st) (ri : nat) (n : node) (with_trigger : bool)
  : outcome (nat * option exit * text) :=
  match get_run (session_ x) ri with
  | None => GoErr x
  | Some r0 =>
      let pos := length (r_path r0) in
      let x := with_session x (fun s => upd_run s ri (run_add_step {| st_node := n_id n; st_exit := None |})) in
      let sr := Some (ri, pos) in
      (* trigger.InitializeRun *)
      let x := if with_trigger
               then match s_trigger (session_ x) with
                    | TMsg t => log_event (with_session x (fun s => set_input s (Some t))) ri sr (EMsgReceived t)
                    | _ => x
                    end
               else x in
      match exec_actions a x ri pos n (n_actions n) with
      | GoErr x' => GoErr x'
      | Panicked => Panicked
      | Done x true => Done x (pos, None, [])
      | Done x false =>
          match s_pushed (session_ x) with
          | Some _ => Done x (pos, None, [])
          | None =>
              let w := match n_router n with Some rt => rt_wait rt | None => None end in
              let begin_wait : option st :=      (* Some = the wait began *)
                match w with
                | None => None
                | Some {| w_type := WMsg; w_timeout := tmo |} =>
                    let s := session_ x in
                    let path_len := match get_run s ri with Some r => length (r_path r) | None => O end in
                    if is_msg_trigger (s_trigger s) && Nat.eqb (length (s_runs s)) 1 && Nat.eqb path_len 1
                    then None
                    else Some (log_event x ri sr (EMsgWait (option_map fst tmo)))
                | Some {| w_type := WDial |} =>
                    (* DialWait.Begin: the phone number is a literal that parses, so the wait always begins *)
                    Some (log_event x ri sr EDialWait)
                end in
              match begin_wait with
              | Some x =>
                  let x := with_session x (fun s => set_status (upd_run s ri (run_set_status RWaiting)) SWaiting) in
                  Done x (pos, None, [])
              | None =>
                  match pick_node_exit a x ri n pos false [] with
                  | Done x' (e, op) => Done x' (pos, e, op)
                  | GoErr x' => GoErr x'
                  | Panicked => Panicked
                  end
              end
          end
      end
  end.

(* ---- the main loop -------------------------------------------------------------------------------- *)

Record lstate := {
  l_cur : option nat;                 (* currentRun *)
  l_node : option (id * id);          (* node: (flow id of the run it was taken from, node id) *)
  l_exit : option exit;               (* exit *)
  l_operand : text;                   (* operand *)
  l_step : option stepref;            (* step *)
  l_steps : Z;                        (* numNewSteps *)
  l_trigger : bool                    (* trigger != nil *)
}.

Inductive result_ := ROk (x : st) | RGoError (x : st) | RPanic | ROutOfFuel.

Definition exit_all_completed (s : session) : session := set_runs s (map (run_exit RCompleted) (s_runs s)).

(* The flow of run [ri] cannot be used to continue it: the flow asset is missing (`run.Flow() == nil`), or it is a
   voice flow and the session was not triggered with a call (session.canContinue - the flow may have become a voice
   flow since the session was triggered; say_msg / play_audio need the call).  The model has no call as such: a
   trigger has a call exactly when its flow is a voice flow (what the harness does, and what triggers/base.go demands
   of a voice start), and the type of the trigger's flow is kept in [s_type], so "triggered with a call" is
   [s_type = 2]. *)
Definition run_flow_unusable (a : assets) (s : session) (ri : nat) : bool :=
  match get_run s ri with
  | Some rn => match get_flow a (r_flow rn) with
               | None => true
               | Some f => N.eqb (f_type f) 2 && negb (N.eqb (s_type s) 2)
               end
  | None => true
  end.

(* the failure the engine reports for an unusable flow: the missing-flow failure, or the voice-without-call failure *)
Definition unusable_code (a : assets) (s : session) (ri : nat) (missing : fail_code) : fail_code :=
  match get_run s ri with
  | Some rn => match get_flow a (r_flow rn) with None => missing | Some _ => FVoiceNoCall end
  | None => missing
  end.

Fixpoint continue_until_wait (fuel : nat) (a : assets) (x : st) (l : lstate) : result_ :=
  match fuel with
  | O => ROutOfFuel
  | S fuel' =>
      (* 1. pick a destination *)
      let '(x, l, dest) :=
        match s_pushed (session_ x) with
        | Some p =>
            let x := if p_terminal p then with_session x exit_all_completed else x in
            let idx := length (s_runs (session_ x)) in
            let x := with_session x (fun s => set_pushed (set_runs s (s_runs s ++ [new_run (p_flow p) (l_cur l)])) None) in
            let dest := match get_flow a (p_flow p) with
                        | Some f => match f_nodes f with n :: _ => Some (n_id n) | [] => None end
                        | None => None
                        end in
            (* `step = nil`: the new run has not visited any node yet *)
            (x, {| l_cur := Some idx; l_node := l_node l; l_exit := l_exit l; l_operand := l_operand l;
                   l_step := None; l_steps := l_steps l; l_trigger := l_trigger l |}, dest)
        | None =>
            match l_exit l with
            | Some e =>
                let x :=
                  match e_dest e, l_cur l with
                  | Some d, Some ci =>
                      match get_run (session_ x) ci with
                      | Some r =>
                          match get_flow a (r_flow r) with
                          | Some f =>
                              match get_node f d, l_node l with
                              | Some _, Some (_, nid) =>
                                  log_segment x {| sg_flow := r_flow r; sg_node := nid; sg_exit := e_id e;
                                                   sg_operand := l_operand l; sg_dest := d |}
                              | _, _ => x
                              end
                          | None => x
                          end
                      | None => x
                      end
                  | _, _ => x
                  end in
                (x, {| l_cur := l_cur l; l_node := l_node l; l_exit := None; l_operand := [];
                       l_step := l_step l; l_steps := l_steps l; l_trigger := l_trigger l |}, e_dest e)
            | None => (x, l, None)
            end
        end in
      match l_cur l with
      | None => RGoError x             (* unreachable: there is always a current run here *)
      | Some ci =>
          match dest with
          | None =>
              (* 2. no destination: the current run is done *)
              let x := match get_run (session_ x) ci with
                       | Some r => if r_exited r then x else with_session x (fun s => upd_run s ci (run_exit RCompleted))
                       | None => x
                       end in
              let parent := match get_run (session_ x) ci with Some r => r_parent r | None => None end in
              let parent_active := match parent with
                                   | Some pi => match run_status (session_ x) pi with Some RActive => true | _ => false end
                                   | None => false
                                   end in
              match parent, parent_active with
              | Some pi, true =>
                  let child_failed := match run_status (session_ x) ci with Some RFailed => true | _ => false end in
                  (* `step, _, _ = currentRun.PathLocation()` *)
                  let psr := match path_location a (session_ x) pi with
                             | Some (pos, _) => Some (pi, pos)
                             | None => None
                             end in
                  let l := {| l_cur := Some pi; l_node := l_node l; l_exit := l_exit l; l_operand := l_operand l;
                              l_step := psr; l_steps := l_steps l; l_trigger := l_trigger l |} in
                  if negb child_failed then
                    let flow_missing := run_flow_unusable a (session_ x) pi in
                    if flow_missing
                    then continue_until_wait fuel' a (fail_run x pi None (unusable_code a (session_ x) pi FParentMissingFlow)) l
                    else
                      match find_resume_exit a x pi false [] with
                      | FreOk x' e op =>
                          continue_until_wait fuel' a x'
                            {| l_cur := Some pi; l_node := l_node l; l_exit := e; l_operand := op;
                               l_step := l_step l; l_steps := l_steps l; l_trigger := l_trigger l |}
                      | FreErr x' =>
                          continue_until_wait fuel' a (fail_run x' pi None FParentNodeGone)
                            {| l_cur := Some pi; l_node := l_node l; l_exit := None; l_operand := [];
                               l_step := l_step l; l_steps := l_steps l; l_trigger := l_trigger l |}
                      | FreGoErr x' => RGoError x'
                      | FrePanic => RPanic
                      end
                  else
                    continue_until_wait fuel' a (fail_run x pi psr FChildFailed) l
              | _, _ =>
                  let failed := match run_status (session_ x) ci with Some RFailed => true | _ => false end in
                  ROk (with_session x (fun s => set_status s (if failed then SFailed else SCompleted)))
              end
          | Some d =>
              (* 3. go to the destination *)
              let steps := (l_steps l + 1)%Z in
              let l := {| l_cur := l_cur l; l_node := l_node l; l_exit := l_exit l; l_operand := l_operand l;
                          l_step := l_step l; l_steps := steps; l_trigger := l_trigger l |} in
              if (steps >? max_steps (a_opts a))%Z
              then continue_until_wait fuel' a (fail_run x ci (l_step l) FStepLimit) l
              else
                match get_run (session_ x) ci with
                | None => RGoError x
                | Some r =>
                    match get_flow a (r_flow r) with
                    | None => RGoError x
                    | Some f =>
                        match get_node f d with
                        | None => RGoError x            (* "unable to find destination node" *)
                        | Some n =>
                            match visit_node a x ci n (l_trigger l) with
                            | GoErr x' => RGoError x'
                            | Panicked => RPanic
                            | Done x' (pos, e, op) =>
                                let l := {| l_cur := Some ci; l_node := Some (r_flow r, n_id n); l_exit := e;
                                            l_operand := op; l_step := Some (ci, pos); l_steps := steps;
                                            l_trigger := false |} in
                                if sstatus_eqb (s_status (session_ x')) SWaiting
                                then ROk x'
                                else continue_until_wait fuel' a x' l
                            end
                        end
                    end
                end
          end
      end
  end.

(* fuel that always suffices (proved in EngineProofs: c05_fuel_suffices) *)
Definition fuel_for (a : assets) (s : session) : nat :=
  2 * (Z.to_nat (Z.max 0 (max_steps (a_opts a))) + 2) + 2 * (length (s_runs s) + 2) + 4.

(* ---- start ------------------------------------------------------------------------------------------ *)

Definition new_session (t : trigger) (flow : id) : session :=
  {| s_status := SActive; s_type := 0; s_trigger := t; s_flow := flow; s_runs := []; s_input := None; s_pushed := None |}.

Definition init_lstate (with_trigger : bool) : lstate :=
  {| l_cur := None; l_node := None; l_exit := None; l_operand := []; l_step := None; l_steps := 0%Z;
     l_trigger := with_trigger |}.

(* Engine.NewSession + session.start: a Go error if the trigger's flow cannot be loaded *)
Definition start (a : assets) (t : trigger) (flow : id) : result_ :=
  let s := new_session t flow in
  let x := {| session_ := s; sprint_ := empty_sprint |} in
  match get_flow a flow with
  | None => RGoError x
  | Some f =>
      let s := set_pushed (set_type s (f_type f)) (Some {| p_flow := flow; p_terminal := false |}) in
      let x := {| session_ := s; sprint_ := empty_sprint |} in
      continue_until_wait (fuel_for a s) a x (init_lstate true)
  end.

(* ---- resume ------------------------------------------------------------------------------------------ *)

Inductive resume_result :=
| Rejected (code : N)                 (* engine error 101/102/103: session untouched, empty sprint *)
| Resumed (r : result_).

Fixpoint waiting_run_from (i : nat) (rs : list run) : option nat :=
  match rs with
  | [] => None
  | r :: rest => if rstatus_eqb (r_status r) RWaiting then Some i else waiting_run_from (S i) rest
  end.
Definition waiting_run (s : session) : option nat := waiting_run_from 0 (s_runs s).

Definition is_wait_event (k : ekind) : bool := match k with EMsgWait _ | EDialWait => true | _ => false end.

(* countWaits: events of all runs whose type ends in "_wait" *)
Definition count_waits (s : session) : nat :=
  fold_right (fun r acc => length (filter (fun e => is_wait_event (ev_kind e)) (r_events r)) + acc)%nat O (s_runs s).

(* Wait.Accepts *)
Definition accepts (w : wait) (r : resume) : bool :=
  match w_type w, r with
  | WMsg, RMsg _ => true
  | WMsg, RExpiration => true
  | WMsg, RTimeout => match w_timeout w with Some _ => true | None => false end
  | WMsg, RDial => false
  | WDial, RDial => true
  | WDial, _ => false
  end.

(* failSession *)
Definition fail_session (x : st) (wi : nat) (c : fail_code) : st :=
  let x := fail_run x wi None c in
  with_session x (fun s =>
    set_status (set_runs s (map (fun r => match r_status r with
                                          | RActive | RWaiting => run_exit RFailed r
                                          | _ => r
                                          end) (s_runs s))) SFailed).

(* resume.Apply for each resume type (environment/contact refresh are outside CFL: resumes carry none) *)
Definition apply_resume (x : st) (wi : nat) (sr : option stepref) (r : resume) : st :=
  let base (x : st) : st :=
    let x := with_session x (fun s =>
               match run_status s wi with
               | Some RWaiting => upd_run s wi (run_set_status RActive)
               | _ => s
               end) in
    with_session x (fun s => set_input s None) in
  match r with
  | RMsg t =>
      let x := base x in
      let x := with_session x (fun s => set_input s (Some t)) in
      log_event x wi sr (EMsgReceived t)
  | RTimeout => base (log_event x wi sr EWaitTimedOut)
  | RExpiration =>
      let x := with_session x (fun s => upd_run s wi (run_exit RExpired)) in
      base (log_event x wi sr ERunExpired)
  | RDial => base (log_event x wi sr EDialEnded)
  end.

Definition is_timeout (r : resume) : bool := match r with RTimeout => true | _ => false end.

(* session.Resume + tryToResume.  [tmo] is the opaque rendering of the timeout time. *)
Definition resume_session (a : assets) (s : session) (r : resume) (tmo : text) : resume_result :=
  if negb (sstatus_eqb (s_status s) SWaiting) then Rejected 101
  else
    match waiting_run s with
    | None => Rejected 102
    | Some wi =>
        let x := {| session_ := s; sprint_ := empty_sprint |} in
        let flow_missing := run_flow_unusable a s wi in
        if flow_missing then Resumed (ROk (fail_session x wi (unusable_code a s wi FMissingFlow)))
        else if (Z.of_nat (count_waits s) >=? max_resumes (a_opts a))%Z
        then Resumed (ROk (fail_session x wi FMaxResumes))
        else
          match path_location a s wi with
          | None => Resumed (ROk (fail_session x wi FNoLocation))
          | Some (pos, n) =>
              match n_router n with
              | Some {| rt_wait := Some w |} =>
                  if negb (accepts w r) then Rejected 103
                  else
                    let sr := Some (wi, pos) in
                    let x := with_session x (fun s => set_status s SActive) in
                    let x := apply_resume x wi sr r in
                    match find_resume_exit a x wi (is_timeout r) tmo with
                    | FreErr x' => Resumed (ROk (fail_session x' wi FRouteError))
                    | FreGoErr x' => Resumed (RGoError x')
                    | FrePanic => Resumed RPanic
                    | FreOk x' e op =>
                        Resumed (continue_until_wait (fuel_for a (session_ x')) a x'
                                   {| l_cur := Some wi; l_node := Some (match get_run s wi with Some rn => r_flow rn | None => 0 end, n_id n);
                                      l_exit := e; l_operand := op; l_step := sr; l_steps := 0%Z; l_trigger := false |})
                    end
              | _ => Resumed (ROk (fail_session x wi FNoWait))
              end
          end
    end.

(* ---- resume, in state-passing form ---------------------------------------------------------------------- *)

(* The same function written as the Go method is: the receiver's state is threaded through and returned in
   EVERY case, also when the method returns an engine error.  Every `s.x = ...` of Resume / tryToResume
   appears below at the place where the Go code has it (`s.status = active`, resume.Apply, the loop); before
   the three engine-error returns there is no assignment to the session (prepareForSprint only fills the
   transient parentRun, which is not part of the session's JSON).  proofs/EngineProofs.v proves that
   [resume_session] is this function with the state dropped, and C10's "a rejected resume leaves the session
   untouched" is a theorem about the state returned here; model/EngineCorr.v continues a history after a
   rejected resume with the session returned here and compares it with the real one. *)
Inductive resume_outcome := OErr (code : N) | ORes (r : result_).

Definition state_of (dflt : st) (r : result_) : st :=
  match r with ROk x => x | RGoError x => x | _ => dflt end.

Definition resume_m (a : assets) (s : session) (r : resume) (tmo : text) : st * resume_outcome :=
  let x := {| session_ := s; sprint_ := empty_sprint |} in          (* sprint := newEmptySprint() *)
  if negb (sstatus_eqb (s_status s) SWaiting) then (x, OErr 101)
  else
    match waiting_run s with
    | None => (x, OErr 102)
    | Some wi =>
        let failed (c : fail_code) (x : st) := let x' := fail_session x wi c in (x', ORes (ROk x')) in
        let flow_missing := run_flow_unusable a s wi in
        if flow_missing then failed (unusable_code a s wi FMissingFlow) x
        else if (Z.of_nat (count_waits s) >=? max_resumes (a_opts a))%Z then failed FMaxResumes x
        else
          match path_location a s wi with
          | None => failed FNoLocation x
          | Some (pos, n) =>
              match n_router n with
              | Some {| rt_wait := Some w |} =>
                  if negb (accepts w r) then (x, OErr 103)
                  else
                    let sr := Some (wi, pos) in
                    let x := with_session x (fun s => set_status s SActive) in      (* s.status = active *)
                    let x := apply_resume x wi sr r in                                (* resume.Apply *)
                    match find_resume_exit a x wi (is_timeout r) tmo with
                    | FreErr x' => failed FRouteError x'
                    | FreGoErr x' => (x', ORes (RGoError x'))
                    | FrePanic => (x, ORes RPanic)
                    | FreOk x' e op =>
                        let res := continue_until_wait (fuel_for a (session_ x')) a x'
                                     {| l_cur := Some wi; l_node := Some (match get_run s wi with Some rn => r_flow rn | None => 0 end, n_id n);
                                        l_exit := e; l_operand := op; l_step := sr; l_steps := 0%Z; l_trigger := false |} in
                        (state_of x' res, ORes res)
                    end
              | _ => failed FNoWait x
              end
          end
    end.

(* ---- prepareForSprint --------------------------------------------------------------------------------------- *)

(* The one thing Resume does before its three checks (session.go prepareForSprint): when the trigger carries the
   summary of a parent run (flow_action trigger) and the transient field `parentRun` is not set yet, the summary is
   read into it.  `parentRun` is not part of the session's JSON (it is recomputed from the trigger by this very
   function on every call of a restored session); reading the summary can fail with a Go error when the summary
   stored in the trigger is not well-formed - the summaries the harness uses are, and the model does not represent
   that error (an assumption listed in checks/C10.json).  [resume_mp] is [resume_m] with this transient flag
   threaded through, so that "what a rejected Resume may have touched" is stated rather than argued in a comment. *)
Definition trigger_has_run (t : trigger) : bool := match t with TFlowAction => true | _ => false end.

Definition prepare_for_sprint (s : session) (parent_loaded : bool) : bool :=
  parent_loaded || trigger_has_run (s_trigger s).

Definition resume_mp (a : assets) (s : session) (parent_loaded : bool) (r : resume) (tmo : text)
  : st * bool * resume_outcome :=
  let loaded := prepare_for_sprint s parent_loaded in              (* s.prepareForSprint() *)
  let '(x, o) := resume_m a s r tmo in
  (x, loaded, o).
