(* Civil.v — proleptic Gregorian calendar arithmetic on Z (C13): day number since 1970-01-01 <-> (year, month, day).
   This is the arithmetic behind Go's time.Date / Time.Date() (absolute-day computations in time/time.go); the
   formulation is the usual era (400-year cycle) decomposition with March-based months.  Definitions only; the
   inverse laws are in proofs/CivilProofs.v.  Coq's Z division is floor division, so no sign adjustments are needed. *)
From Coq Require Import ZArith Bool.
Open Scope Z_scope.

Definition is_leap (y : Z) : bool := (y mod 4 =? 0) && (negb (y mod 100 =? 0) || (y mod 400 =? 0)).

Definition days_in_month (y m : Z) : Z :=
  if m =? 2 then (if is_leap y then 29 else 28)
  else if (m =? 4) || (m =? 6) || (m =? 9) || (m =? 11) then 30 else 31.

Definition valid_date (y m d : Z) : bool := (1 <=? m) && (m <=? 12) && (1 <=? d) && (d <=? days_in_month y m).

(* days before the month [mp] counted from March (mp = 0) *)
Definition mdays (mp : Z) : Z := (153 * mp + 2) / 5.

Definition days_from_civil (y m d : Z) : Z :=
  let y' := if m <=? 2 then y - 1 else y in
  let era := y' / 400 in
  let yoe := y' - era * 400 in
  let mp := if m <=? 2 then m + 9 else m - 3 in
  let doy := mdays mp + d - 1 in
  let doe := yoe * 365 + yoe / 4 - yoe / 100 + doy in
  era * 146097 + doe - 719468.

(* year-of-era, month (March-based) and day of a day-of-era in [0, 146097) *)
Definition yoe_of_doe (doe : Z) : Z := (doe - doe / 1460 + doe / 36524 - doe / 146096) / 365.
Definition doy_of_doe (doe : Z) : Z := let yoe := yoe_of_doe doe in doe - (365 * yoe + yoe / 4 - yoe / 100).
Definition mp_of_doy (doy : Z) : Z := (5 * doy + 2) / 153.

Definition civil_from_days (z : Z) : Z * Z * Z :=
  let z := z + 719468 in
  let era := z / 146097 in
  let doe := z - era * 146097 in
  let yoe := yoe_of_doe doe in
  let doy := doy_of_doe doe in
  let mp := mp_of_doy doy in
  let d := doy - mdays mp + 1 in
  let m := if mp <? 10 then mp + 3 else mp - 9 in
  let y := yoe + era * 400 in
  (if m <=? 2 then y + 1 else y, m, d).
