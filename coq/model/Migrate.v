(* Migrate.v -- model of goflow's 13.x definition migrations on generic JSON trees (lib/Json.v).  No proofs.

   Transcribed from (goflow working tree, repaired code):
     flows/definition/migrations/base.go        MigrateToVersion (13.x header branch), migrate
     flows/definition/migrations/13_x.go        Migrate13_1 .. Migrate13_6
     flows/definition/migrations/primitives.go  Flow.Nodes/Localization, Node.Actions/Router, Action.Type/UUID,
                                                GetObjectUUID, ItemTranslation.Get/Set/Delete,
                                                LanguageTranslation.GetTranslation/SetTranslation/DeleteTranslation
     flows/definition/migrations/templates.go   RewriteTemplates, rewriteTemplates, rewriteOrphanTranslations, rewriteTranslations
     utils/jsonpath/path.go                     parsePath, Transform/visit
   Tables from the source (regenerated on every run): gen/MigrationTable.v -- registered (version, function),
   current_spec_version, the template catalog Migrate13_3 uses.

   Conventions
   * A Go [map[string]any] is an association list with unique keys ([olookup]/[oset]/[odel] of lib/Json.v); Go mutates
     maps in place, the model returns the updated tree and puts it back where it came from.
   * Fresh UUIDs ([uuids.NewV4()]) are drawn from a list supplied by the caller, in the order of the Go calls.
   * The expression refactoring of Migrate13_3 ([refactor.Template] with [ContextRefRename]) is a parameter [tx] of
     the model: its correctness is property C11's subject; here only WHERE it is applied is modelled.
   * The localization map is threaded as state through the node/action loops (Go: one shared map mutated in place).
   * Loops over the languages of the localization: every iteration only touches the translation of its own
     language, so the model maps over the association list.  In Migrate13_5 the Go loop nest is
     components-outside/languages-inside; the model runs languages-outside/components-inside (same effects, the
     per-language state is independent).
   * Outside the modelled fragment (explicit results, never silently totalised): version texts with pre-release or
     build metadata, or components of 2^63 and above ([parse_version] = None); documents whose 13.x header cannot be
     read (Go then tries the legacy reader, which is not transcribed) -> [MNoHeader]; a registered migration function
     the model does not know -> [MUnknown]; a jsonpath the Go parser would not terminate on -> no steps. *)
From Coq Require Import List NArith ZArith Bool String Ascii Decimal.
From Verif Require Import lib.Json gen.MigrationTable.
Import ListNotations.
Open Scope N_scope.

(* ---- text ------------------------------------------------------------------------------------------------- *)

(* ASCII literal -> code points *)
Fixpoint s (x : string) : str :=
  match x with
  | EmptyString => []
  | String a r => N_of_ascii a :: s r
  end.

Definition nonempty (x : str) : bool := match x with [] => false | _ => true end.

(* number of bytes of the UTF-8 encoding: Go's len(string) *)
Definition utf8_width (c : N) : N :=
  if c <? 128 then 1 else if c <? 2048 then 2 else if c <? 65536 then 3 else 4.
Definition utf8_len (x : str) : N := fold_right (fun c n => utf8_width c + n) 0 x.

(* unicode.IsSpace *)
Definition is_space (c : N) : bool :=
  ((9 <=? c) && (c <=? 13)) || (c =? 32) || (c =? 133) || (c =? 160) || (c =? 5760)
  || ((8192 <=? c) && (c <=? 8202)) || (c =? 8232) || (c =? 8233) || (c =? 8239) || (c =? 8287) || (c =? 12288).

Fixpoint trim_left (x : str) : str :=
  match x with
  | c :: r => if is_space c then trim_left r else x
  | [] => []
  end.
Definition trim_right (x : str) : str := List.rev (trim_left (List.rev x)).
(* strings.TrimSpace *)
Definition trim_space (x : str) : str := trim_right (trim_left x).

(* stringsx.Truncate: at most [max] runes *)
Definition truncate_runes (x : str) (max : N) : str := firstn (N.to_nat max) x.

Fixpoint has_suffix (suf x : str) : bool :=
  if str_eqb suf x then true else match x with [] => false | _ :: r => has_suffix suf r end.
(* strings.TrimSuffix *)
Definition trim_suffix (suf x : str) : str :=
  if has_suffix suf x then firstn (List.length x - List.length suf) x else x.

(* ---- versions (Masterminds/semver, numeric fragment) --------------------------------------------------------- *)

Definition version := (N * N * N)%type.

Definition vcmp (a b : version) : comparison :=
  let '(a1, a2, a3) := a in let '(b1, b2, b3) := b in
  match a1 ?= b1 with
  | Eq => match a2 ?= b2 with Eq => a3 ?= b3 | c => c end
  | c => c
  end.
Definition vlt (a b : version) : bool := match vcmp a b with Lt => true | _ => false end.
Definition vle (a b : version) : bool := match vcmp a b with Gt => false | _ => true end.
Definition veqb (a b : version) : bool := match vcmp a b with Eq => true | _ => false end.

Fixpoint digits_to_uint (x : str) : option uint :=
  match x with
  | [] => Some Nil
  | c :: r =>
      match digits_to_uint r with
      | None => None
      | Some u =>
          if c =? 48 then Some (D0 u) else if c =? 49 then Some (D1 u) else if c =? 50 then Some (D2 u)
          else if c =? 51 then Some (D3 u) else if c =? 52 then Some (D4 u) else if c =? 53 then Some (D5 u)
          else if c =? 54 then Some (D6 u) else if c =? 55 then Some (D7 u) else if c =? 56 then Some (D8 u)
          else if c =? 57 then Some (D9 u) else None
      end
  end.

Definition int63_limit : N := 9223372036854775808.

(* [0-9]+ read with strconv.ParseInt(.., 10, 64) *)
Definition parse_number (x : str) : option N :=
  match x with
  | [] => None
  | _ => match digits_to_uint x with
         | Some u => let n := N.of_uint u in if n <? int63_limit then Some n else None
         | None => None
         end
  end.

Fixpoint uint_to_digits (u : uint) : str :=
  match u with
  | Nil => []
  | D0 r => 48 :: uint_to_digits r | D1 r => 49 :: uint_to_digits r | D2 r => 50 :: uint_to_digits r
  | D3 r => 51 :: uint_to_digits r | D4 r => 52 :: uint_to_digits r | D5 r => 53 :: uint_to_digits r
  | D6 r => 54 :: uint_to_digits r | D7 r => 55 :: uint_to_digits r | D8 r => 56 :: uint_to_digits r
  | D9 r => 57 :: uint_to_digits r
  end.
Definition number_text (n : N) : str := uint_to_digits (N.to_uint n).

Fixpoint split_dot (x : str) : list str :=
  match x with
  | [] => [[]]
  | c :: r =>
      if c =? 46 then [] :: split_dot r
      else match split_dot r with h :: t => (c :: h) :: t | [] => [[c]] end
  end.

(* semver.NewVersion on  v?N(.N)?(.N)?  ; anything else (pre-release, metadata, junk) is outside the fragment *)
Definition parse_version (x : str) : option version :=
  let x := match x with c :: r => if c =? 118 then r else x | [] => x end in
  match split_dot x with
  | [a] => match parse_number a with Some a => Some (a, 0, 0) | None => None end
  | [a; b] => match parse_number a, parse_number b with Some a, Some b => Some (a, b, 0) | _, _ => None end
  | [a; b; c] => match parse_number a, parse_number b, parse_number c with
                 | Some a, Some b, Some c => Some (a, b, c) | _, _, _ => None end
  | _ => None
  end.

(* Version.String() of a version without pre-release and metadata *)
Definition version_text (v : version) : str :=
  let '(a, b, c) := v in number_text a ++ [46] ++ number_text b ++ [46] ++ number_text c.

(* ---- state-passing traversals ------------------------------------------------------------------------------- *)

Section Traverse.
  Context {S : Type}.

  Fixpoint map_st {A B : Type} (f : S -> A -> S * B) (st : S) (l : list A) : S * list B :=
    match l with
    | [] => (st, [])
    | x :: r => let '(st1, y) := f st x in let '(st2, r') := map_st f st1 r in (st2, y :: r')
    end.

  (* apply [f] to the elements that are objects, in order; everything else stays (Flow.Nodes, Node.Actions) *)
  Definition on_objects (f : S -> obj -> S * obj) (st : S) (l : list json) : S * list json :=
    map_st (fun st x => match x with JObj o => let '(st', o') := f st o in (st', JObj o') | _ => (st, x) end) st l.

  (* o[k] is an array: apply [f] to its object elements *)
  Definition on_array_member (k : str) (f : S -> obj -> S * obj) (st : S) (o : obj) : S * obj :=
    match olookup k o with
    | Some (JArr l) => let '(st', l') := on_objects f st l in (st', oset k (JArr l') o)
    | _ => (st, o)
    end.

  (* o[k] is an object: apply [f] to it *)
  Definition on_object_member (k : str) (f : S -> obj -> S * obj) (st : S) (o : obj) : S * obj :=
    match olookup k o with
    | Some (JObj x) => let '(st', x') := f st x in (st', oset k (JObj x') o)
    | _ => (st, o)
    end.
End Traverse.

Definition k_nodes := s "nodes".
Definition k_actions := s "actions".
Definition k_router := s "router".
Definition k_type := s "type".
Definition k_uuid := s "uuid".
Definition k_localization := s "localization".
Definition k_templating := s "templating".
Definition k_spec_version := s "spec_version".

(* Action.Type() / Router.Type() *)
Definition type_of (o : obj) : str := match get_str k_type o with Some t => t | None => [] end.
Definition is_type (t : string) (o : obj) : bool := str_eqb (type_of o) (s t).

(* GetObjectUUID / Action.UUID() on an object *)
Definition object_uuid (o : obj) : str := match get_str k_uuid o with Some u => u | None => [] end.

(* migration state: remaining fresh UUIDs, the flow's localization map (None: Localization() is nil) *)
Definition mstate := (list str * option obj)%type.

Definition no_uuid : str := s "<no fresh uuid left>".
Definition next_uuid (fr : list str) : str * list str :=
  match fr with u :: r => (u, r) | [] => (no_uuid, []) end.

(* run a loop body over a flow with its localization as state; afterwards the (mutated) map is where it was *)
Definition with_localization (body : mstate -> obj -> mstate * obj) (fr : list str) (f : obj) : obj * list str :=
  let '((fr', loc'), f') := body (fr, get_obj k_localization f) f in
  (match loc' with Some l => oset k_localization (JObj l) f' | None => f' end, fr').

(* for _, node := range f.Nodes() { for _, action := range node.Actions() { ... } } *)
Definition for_actions {S : Type} (step : S -> obj -> S * obj) : S -> obj -> S * obj :=
  on_array_member k_nodes (on_array_member k_actions step).

(* ---- localization primitives ---------------------------------------------------------------------------------- *)

Definition string_or_empty (v : json) : str := match v with JStr x => x | _ => [] end.
Definition strings (l : list str) : json := JArr (map JStr l).

(* ItemTranslation.Get *)
Definition item_get (prop : str) (it : obj) : option (list str) :=
  match olookup prop it with
  | Some (JArr vs) => Some (map string_or_empty vs)
  | _ => None
  end.

(* LanguageTranslation.GetTranslation *)
Definition get_translation (uuid prop : str) (lt : obj) : option (list str) :=
  match get_obj uuid lt with
  | Some it => item_get prop it
  | None => None
  end.

(* LanguageTranslation.SetTranslation *)
Definition set_translation (uuid prop : str) (trans : list str) (lt : obj) : obj :=
  match get_obj uuid lt with
  | Some it => oset uuid (JObj (oset prop (strings trans) it)) lt
  | None => oset uuid (JObj [(prop, strings trans)]) lt
  end.

(* LanguageTranslation.DeleteTranslation *)
Definition delete_translation (uuid prop : str) (lt : obj) : obj :=
  match get_obj uuid lt with
  | Some it =>
      match odel prop it with
      | [] => odel uuid lt
      | it' => oset uuid (JObj it') lt
      end
  | None => lt
  end.

(* for _, lang := range localization.Languages() { langTrans := ...; if langTrans != nil { ... } } *)
Definition for_languages (f : obj -> obj) (loc : obj) : obj :=
  map (fun kv : str * json => match kv with (k, JObj lt) => (k, JObj (f lt)) | _ => kv end) loc.

(* ---- Migrate13_1 ---------------------------------------------------------------------------------------------- *)

Definition step_13_1 (st : mstate) (a : obj) : mstate * obj :=
  if is_type "send_msg" a then
    match get_obj k_templating a with
    | Some t =>
        let '(u, fr') := next_uuid (fst st) in
        ((fr', snd st), oset k_templating (JObj (oset k_uuid (JStr u) t)) a)
    | None => (st, a)
    end
  else (st, a).

Definition migrate_13_1 (tx : str -> str) (fr : list str) (f : obj) : obj * list str :=
  with_localization (for_actions step_13_1) fr f.

(* ---- Migrate13_2 ---------------------------------------------------------------------------------------------- *)

Definition k_language := s "language".
Definition und := s "und".

Definition migrate_13_2 (tx : str -> str) (fr : list str) (f : obj) : obj * list str :=
  (* repaired code: utf8.RuneCountInString(language) != 3 *)
  let language := match get_str k_language f with Some l => l | None => [] end in
  if Nat.eqb (List.length language) 3 then (f, fr)
  else
    let f1 := oset k_language (JStr und) f in
    (match get_obj k_localization f1 with
     | Some l => oset k_localization (JObj (odel und l)) f1
     | None => f1
     end, fr).

(* ---- utils/jsonpath ------------------------------------------------------------------------------------------- *)

Inductive pmode := PIdle | PName (acc : str) | PSub (acc : str).

(* parsePath after the leading $ ; None: error, or a text the Go loop would spin on *)
Fixpoint parse_steps (m : pmode) (x : str) : option (list str) :=
  match x with
  | [] =>
      match m with
      | PIdle => Some []
      | PName acc => Some [acc]
      | PSub acc => if nonempty acc then Some [acc] else None
      end
  | c :: r =>
      match m with
      | PIdle =>
          if c =? 46 then parse_steps (PName []) r
          else if c =? 91 then parse_steps (PSub []) r
          else None
      | PName acc =>
          if c =? 46 then option_map (cons acc) (parse_steps (PName []) r)
          else if c =? 91 then option_map (cons acc) (parse_steps (PSub []) r)
          else parse_steps (PName (acc ++ [c])) r
      | PSub acc =>
          if c =? 93 then (if nonempty acc then option_map (cons acc) (parse_steps PIdle r) else None)
          else parse_steps (PSub (acc ++ [c])) r
      end
  end.

Definition parse_path (x : str) : option (list str) :=
  match x with
  | c :: r => if c =? 36 then parse_steps PIdle r else None
  | [] => None
  end.

Definition star := s "*".

(* ---- Migrate13_3 (RewriteTemplates) ------------------------------------------------------------------------- *)

Section Rewrite.
  Variable tx : str -> str.

  (* rewriteTranslations *)
  Definition rewrite_translations (uuid prop : str) (loc : obj) : obj :=
    for_languages (fun lt =>
      match get_translation uuid prop lt with
      | Some trans => set_translation uuid prop (map tx trans) lt
      | None => lt
      end) loc.

  (* the closure txl of RewriteTemplates; key = None for an array index *)
  Definition txl (loc : option obj) (container : json) (key : option str) (val : json) : option obj * json :=
    let loc' :=
      match container, key with
      | JObj c, Some prop =>
          if nonempty (object_uuid c) && nonempty prop
          then option_map (rewrite_translations (object_uuid c) prop) loc else loc
      | _, _ => loc
      end in
    (loc', match val with
           | JStr v => JStr (tx v)
           | JArr vs => JArr (map (fun v => match v with JStr x => JStr (tx x) | _ => v end) vs)
           | _ => val
           end).

  (* jsonpath.visit with a transformer.  For a wildcard over an object the container handed to txl is the object
     as it was when the loop started (Go hands over the live map; this differs only when the wildcard rewrites the
     container's own "uuid" member, where Go's outcome depends on map order) *)
  Fixpoint visit (path : list str) (loc : option obj) (j : json) : option obj * json :=
    match path with
    | [] => (loc, j)
    | sel :: rem =>
        match j with
        | JObj o =>
            let '(loc', o') :=
              map_st (fun loc (kv : str * json) =>
                        let '(k, v) := kv in
                        if str_eqb k sel || str_eqb sel star then
                          match rem with
                          | [] => let '(loc', v') := txl loc j (Some k) v in (loc', (k, v'))
                          | _ => let '(loc', v') := visit rem loc v in (loc', (k, v'))
                          end
                        else (loc, kv)) loc o in
            (loc', JObj o')
        | JArr l =>
            let index := parse_number sel in
            let '(_, loc', l') :=
              fold_left (fun (acc : N * option obj * list json) v =>
                           let '(i, loc, out) := acc in
                           if (match index with Some n => n =? i | None => false end) || str_eqb sel star then
                             match rem with
                             | [] => let '(loc', v') := txl loc j None v in (i + 1, loc', out ++ [v'])
                             | _ => let '(loc', v') := visit rem loc v in (i + 1, loc', out ++ [v'])
                             end
                           else (i + 1, loc, out ++ [v])) l (0, loc, []) in
            (loc', JArr l')
        | _ => (loc, j)
        end
    end.

  Definition dollar := s "$".
  Definition star_suffix := s "[*]".

  (* rewriteTemplates(o, path, txl) *)
  Definition rewrite_templates (loc : option obj) (o : obj) (path : string) : option obj * obj :=
    match parse_path (dollar ++ trim_suffix star_suffix (s path)) with
    | Some steps =>
        match visit steps loc (JObj o) with
        | (loc', JObj o') => (loc', o')
        | (loc', _) => (loc', o)
        end
    | None => (loc, o)
    end.

  (* jsonpath.Visit: the values a path reaches *)
  Fixpoint visit_values (path : list str) (j : json) : list json :=
    match path with
    | [] => [j]
    | sel :: rem =>
        match j with
        | JObj o =>
            flat_map (fun kv : str * json =>
                        if str_eqb (fst kv) sel || str_eqb sel star then visit_values rem (snd kv) else []) o
        | JArr l =>
            let index := parse_number sel in
            snd (fold_left (fun (acc : N * list json) v =>
                              let '(i, out) := acc in
                              if (match index with Some n => n =? i | None => false end) || str_eqb sel star
                              then (i + 1, out ++ visit_values rem v) else (i + 1, out)) l (0, []))
        | _ => []
        end
    end.

  (* text after the last dot, and before it; None: no dot (Go would slice with -1) *)
  Fixpoint split_last_dot (x : str) : option (str * str) :=
    match x with
    | [] => None
    | c :: r =>
        match split_last_dot r with
        | Some (a, b) => Some (c :: a, b)
        | None => if c =? 46 then Some ([], r) else None
        end
    end.

  (* rewriteOrphanTranslations: translations of a member that its container does not have *)
  Definition rewrite_orphans (loc : option obj) (o : obj) (path : string) : option obj :=
    match split_last_dot (trim_suffix star_suffix (s path)) with
    | None => loc
    | Some (parent, member) =>
        if str_eqb member star then loc
        else
          let containers :=
            match parent with
            | [] => [JObj o]
            | _ => match parse_path (dollar ++ parent) with Some steps => visit_values steps (JObj o) | None => [] end
            end in
          fold_left (fun loc c =>
                       match c with
                       | JObj c =>
                           if negb (ohas member c) && nonempty (object_uuid c)
                           then option_map (rewrite_translations (object_uuid c) member) loc else loc
                       | _ => loc
                       end) containers loc
    end.

  (* one catalogue path on one action / router: the transform, then the translations it could not reach *)
  Definition rewrite_path (loc : option obj) (o : obj) (path : string) : option obj * obj :=
    let '(loc1, o1) := rewrite_templates loc o path in (rewrite_orphans loc1 o1 path, o1).

  Fixpoint catalog_paths (tab : list (string * list string)) (t : str) : list string :=
    match tab with
    | [] => []
    | (k, ps) :: r => if str_eqb (s k) t then ps else catalog_paths r t
    end.

  Definition rewrite_all (tab : list (string * list string)) (st : mstate) (o : obj) : mstate * obj :=
    let '(loc', o') :=
      fold_left (fun (acc : option obj * obj) p => rewrite_path (fst acc) (snd acc) p)
                (catalog_paths tab (type_of o)) (snd st, o) in
    ((fst st, loc'), o').

  Definition node_13_3 (st : mstate) (n : obj) : mstate * obj :=
    let '(st1, n1) := on_array_member k_actions (rewrite_all catalog_actions) st n in
    on_object_member k_router (rewrite_all catalog_routers) st1 n1.

  Definition migrate_13_3 (fr : list str) (f : obj) : obj * list str :=
    with_localization (on_array_member k_nodes node_13_3) fr f.
End Rewrite.

(* ---- Migrate13_4 ---------------------------------------------------------------------------------------------- *)

Definition k_variables := s "variables".
Definition k_components := s "components".
Definition k_params := s "params".
Definition k_name := s "name".
Definition body_text := s "body".

Definition step_13_4 (st : mstate) (a : obj) : mstate * obj :=
  if is_type "send_msg" a then
    match get_obj k_templating a with
    | Some t =>
        let templating_uuid := object_uuid t in
        let '(body_uuid, fr') := next_uuid (fst st) in
        let variables := match get_arr k_variables t with Some v => v | None => [] end in
        let t1 := oset k_components
                    (JArr [JObj [(k_uuid, JStr body_uuid); (k_name, JStr body_text); (k_params, JArr variables)]]) t in
        let loc' :=
          option_map (for_languages (fun lt =>
            match get_translation templating_uuid k_variables lt with
            | Some vars => delete_translation templating_uuid k_variables (set_translation body_uuid k_params vars lt)
            | None => lt
            end)) (snd st) in
        let t2 := odel k_variables (odel k_uuid t1) in
        ((fr', loc'), oset k_templating (JObj t2) a)
    | None => (st, a)
    end
  else (st, a).

Definition migrate_13_4 (tx : str -> str) (fr : list str) (f : obj) : obj * list str :=
  with_localization (for_actions step_13_4) fr f.

(* ---- Migrate13_5 ---------------------------------------------------------------------------------------------- *)

Definition k_template := s "template".
Definition k_template_variables := s "template_variables".

(* per component: GetObjectUUID(comp), comp["params"] as strings *)
Definition component_info (c : json) : str * list str :=
  match c with
  | JObj o => (object_uuid o, match get_arr k_params o with Some ps => map string_or_empty ps | None => [] end)
  | _ => ([], [])
  end.

(* one language: the merged variables and whether any component had its params translated *)
Definition language_13_5 (comps : list (str * list str)) (action_uuid : str) (lt : obj) : obj :=
  let '(lt1, vars, localized) :=
    fold_left (fun (acc : obj * list str * bool) (c : str * list str) =>
                 let '(lt, vars, localized) := acc in
                 match get_translation (fst c) k_params lt with
                 | Some ps => (delete_translation (fst c) k_params lt, vars ++ ps, true)
                 | None => (lt, vars ++ snd c, localized)
                 end) comps (lt, [], false) in
  if localized then set_translation action_uuid k_template_variables vars lt1 else lt1.

Definition step_13_5 (st : mstate) (a : obj) : mstate * obj :=
  if is_type "send_msg" a then
    match get_obj k_templating a with
    | Some t =>
        let comps := map component_info (match get_arr k_components t with Some cs => cs | None => [] end) in
        let variables := flat_map snd comps in
        let a1 := oset k_template (match olookup k_template t with Some v => v | None => JNull end) a in
        let a2 := oset k_template_variables (strings variables) a1 in
        let a3 := odel k_templating a2 in
        ((fst st, option_map (for_languages (language_13_5 comps (object_uuid a))) (snd st)), a3)
    | None => (st, a)
    end
  else (st, a).

Definition migrate_13_5 (tx : str -> str) (fr : list str) (f : obj) : obj * list str :=
  with_localization (for_actions step_13_5) fr f.

(* ---- Migrate13_6 ---------------------------------------------------------------------------------------------- *)

Definition max_result_name : N := 64.
Definition max_category_name : N := 36.

(* the closure truncate (repaired code: trimmed before and after the cut; a name that trimming would leave empty --
   one of nothing but white space -- is only shortened) *)
Definition truncate (x : str) (max : N) : str :=
  match trim_space (truncate_runes (trim_space x) max) with
  | [] => truncate_runes x max
  | t => t
  end.

(* v, _ := o[k].(string); if len(v) > max { o[k] = truncate(v, max) } *)
Definition limit_member (k : str) (max : N) (o : obj) : obj :=
  match get_str k o with
  | Some v => if max <? utf8_len v then oset k (JStr (truncate v max)) o else o
  | None => o
  end.

Definition k_category := s "category".
Definition k_result_name := s "result_name".
Definition k_categories := s "categories".

Definition action_13_6 (st : mstate) (a : obj) : mstate * obj :=
  if is_type "set_run_result" a
  then (st, limit_member k_category max_category_name (limit_member k_name max_result_name a))
  else (st, a).

Definition router_13_6 (st : mstate) (r : obj) : mstate * obj :=
  let r1 := limit_member k_result_name max_result_name r in
  on_array_member k_categories (fun st c => (st, limit_member k_name max_category_name c)) st r1.

Definition node_13_6 (st : mstate) (n : obj) : mstate * obj :=
  let '(st1, n1) := on_array_member k_actions action_13_6 st n in
  on_object_member k_router router_13_6 st1 n1.

Definition migrate_13_6 (tx : str -> str) (fr : list str) (f : obj) : obj * list str :=
  with_localization (on_array_member k_nodes node_13_6) fr f.

(* ---- base.go: header, version selection, ordered application, stamping -------------------------------------------- *)

Definition migration := (str -> str) -> list str -> obj -> obj * list str.

Local Open Scope string_scope.
(* the hand-written models, keyed by the name of the Go function in the registration table *)
Definition migration_of_name (name : string) : option migration :=
  if String.eqb name "Migrate13_1" then Some migrate_13_1
  else if String.eqb name "Migrate13_2" then Some migrate_13_2
  else if String.eqb name "Migrate13_3" then Some migrate_13_3
  else if String.eqb name "Migrate13_4" then Some migrate_13_4
  else if String.eqb name "Migrate13_5" then Some migrate_13_5
  else if String.eqb name "Migrate13_6" then Some migrate_13_6
  else None.
Local Close Scope string_scope.

Definition hex_lower (c : N) : bool := ((48 <=? c) && (c <=? 57)) || ((97 <=? c) && (c <=? 102)).

(* validator tag uuid4: ^[0-9a-f]{8}-[0-9a-f]{4}-4[0-9a-f]{3}-[89ab][0-9a-f]{3}-[0-9a-f]{12}$ *)
Definition is_uuid4 (u : str) : bool :=
  Nat.eqb (List.length u) 36 &&
  (fix go (i : N) (u : str) : bool :=
     match u with
     | [] => true
     | c :: r =>
         (if (i =? 8) || (i =? 13) || (i =? 18) || (i =? 23) then c =? 45
          else if i =? 14 then c =? 52
          else if i =? 19 then (c =? 56) || (c =? 57) || (c =? 97) || (c =? 98)
          else hex_lower c) && go (i + 1) r
     end) 0 u.

(* Header13 through utils.UnmarshalAndValidate: uuid required,uuid4; name a string (or null/absent);
   spec_version required, a version text *)
Definition header_version (j : json) : option version :=
  match j with
  | JObj o =>
      match olookup k_uuid o, olookup k_spec_version o with
      | Some (JStr u), Some (JStr v) =>
          if is_uuid4 u && (match olookup k_name o with None | Some JNull | Some (JStr _) => true | _ => false end)
          then parse_version v else None
      | _, _ => None
      end
  | _ => None
  end.

(* insertion sort, earliest first (sort.SliceStable by LessThan; the versions are distinct) *)
Fixpoint insert_version {A : Type} (x : version * A) (l : list (version * A)) : list (version * A) :=
  match l with
  | [] => [x]
  | y :: r => if vlt (fst y) (fst x) then y :: insert_version x r else x :: l
  end.
Definition sort_versions {A : Type} (l : list (version * A)) : list (version * A) :=
  fold_right insert_version [] l.

(* the versions newer than [from] and not newer than [to], earliest first *)
Definition select_versions {A : Type} (table : list (version * A)) (from : version) (to : option version)
  : list (version * A) :=
  sort_versions (filter (fun r => vlt from (fst r) && match to with None => true | Some t => vle (fst r) t end) table).

Inductive mresult :=
| MSame                      (* the input bytes are returned *)
| MOut (j : json)            (* re-marshalled result *)
| MNoHeader                  (* no readable 13.x header: error, or the legacy reader (not modelled) *)
| MUnknown (name : string).  (* a registered migration the model has no transcription of *)

(* the loop of migrate() *)
Fixpoint apply_versions (tx : str -> str) (steps : list (version * string)) (fr : list str) (f : obj)
  : mresult * list str :=
  match steps with
  | [] => (MOut (JObj f), fr)
  | (v, name) :: rest =>
      match migration_of_name name with
      | None => (MUnknown name, fr)
      | Some m =>
          let '(f', fr') := m tx fr f in
          apply_versions tx rest fr' (oset k_spec_version (JStr (version_text v)) f')
      end
  end.

(* MigrateToVersion / migrate with an explicit registration table *)
Definition migrate_with (table : list (version * string)) (tx : str -> str) (j : json) (to : option version)
  (fr : list str) : mresult * list str :=
  match header_version j, j with
  | Some from, JObj f =>
      match select_versions table from to with
      | [] => (MSame, fr)
      | steps => apply_versions tx steps fr f
      end
  | _, _ => (MNoHeader, fr)
  end.

Definition migrate_to (tx : str -> str) (j : json) (to : option version) (fr : list str) : mresult * list str :=
  migrate_with registered tx j to fr.

(* MigrateToLatest *)
Definition migrate_to_latest (tx : str -> str) (j : json) (fr : list str) : mresult * list str :=
  migrate_to tx j None fr.

(* ---- the graph of a 13.x definition -------------------------------------------------------------------------- *)

Definition k_exits := s "exits".

(* per element of "nodes": its uuid member and its exits member, as they are (None: absent / not an object) *)
Definition node_skeleton (n : json) : option json * option json :=
  match n with
  | JObj o => (olookup k_uuid o, olookup k_exits o)
  | _ => (None, None)
  end.

(* flow uuid; nodes in order (entry node first), each with its uuid and its whole exits array
   (every exit uuid and destination) *)
Definition graph (j : json) : option json * option (list (option json * option json)) :=
  match j with
  | JObj f => (olookup k_uuid f, match olookup k_nodes f with Some (JArr l) => Some (map node_skeleton l) | _ => None end)
  | _ => (None, None)
  end.
