(* Redact.v — model of what goflow's expression context exposes of a contact's URNs (property C19).

   Transcribed from (goflow, package paths relative to the repository root)
     flows/urn.go            ContactURN.withoutQuery, ContactURN.ToXValue, URNList.ToXValue, URNList.MapContext
     flows/contact.go        Contact.Format, Contact.Context, Contact.ResolveDestinations, PreferredURN,
                             PreferredChannel, Contact.Country
     flows/channel.go        Channel.Context, ChannelAssets.GetForURN, getForSchemeAndRole
     flows/environment.go    sessionEnvironment.DefaultCountry
     flows/inputs/msg.go     MsgInput.Context
     flows/runs/run.go       run.RootContext, run.Context
     flows/runs/summary.go   relatedRunContext.Context, FormatRunSummary
     utils/text.go           PrefixOverlap
     contactql/visitor.go    visitor.VisitImplicitCondition, VisitCondition, combinations
     contactql/parser.go     Condition.validate (operator/value part), BoolCombination; ParseQuery from the parse
                             tree on (lexing, ANTLR parsing, the bare-phone-number rewrite and Simplify are outside:
                             the harness hands over the parse tree and compares the conditions in order)
     contactql/evaluator.go  evaluateCondition (existence checks and text comparison on URN values)

   The context is a tree (xv).  Everything in it that the code computes from a URN is computed here from the
   urn records; everything else (fields, groups, results, trigger, ...) is an opaque subtree of the session
   record: those are the parts the code builds without touching a URN (that claim is what the generated key
   table gen/ContextKeys.v and the twin walk of the harness check).

   Strings are byte strings (Coq string), as in Go.  No proofs in this file. *)

From Coq Require Import List String Ascii ZArith NArith Bool DecimalString.
Import ListNotations.
Open Scope string_scope.

(* ------------------------------------------------------------------------------------------------ *)
(* values of the expression context                                                                  *)

Inductive xv : Type :=
| XNil
| XLeaf (kind : string) (render : string)          (* text number boolean datetime date time error *)
| XArr (items : list xv)
| XObj (def : option xv) (props : list (string * xv)).   (* def = the __default__ value, if any *)

Definition xtext (s : string) : xv := XLeaf "text" s.

(* ------------------------------------------------------------------------------------------------ *)
(* environment, URNs, channels                                                                       *)

Record env := { redact : bool;             (* RedactionPolicy() == RedactionPolicyURNs *)
                env_country : string;      (* base environment DefaultCountry *)
                all_schemes : list string  (* urns.Schemes prefixes, in the order Properties() shows them *) }.

(* A URN.  Identifying part: path, display and what gocommon derives from them alone (plain = the printed
   scheme:path#display after Normalize/Validate, fmt = URN.Format()).  Non-identifying: scheme, the channel
   affinity of the ?channel= query, the country gocommon derives from a tel path. *)
Record urn := { u_scheme : string; u_path : string; u_display : string;
                u_affinity : string;       (* UUID of ContactURN.Channel(), the RESOLVED channel pointer the code tests
                                              (urn.Channel() == nil / == channel, GetForURN); "" if nil — also for a
                                              ?channel= query naming a channel that is not in the assets *)
                u_country : string;        (* i18n.DeriveCountryFromTel(path), "" if none *)
                u_plain : string;          (* string(withoutQuery(false)) *)
                u_fmt : string }.          (* URN().Format() *)

Record channel := { ch_uuid : string; ch_name : string; ch_address : string;
                    ch_schemes : list string; ch_roles : list string;
                    ch_country : string; ch_prefixes : list string; ch_intl : bool }.

Definition redacted_mask : string := "********".

(* ContactURN.withoutQuery(redact) / ToXValue *)
Definition urn_render (e : env) (u : urn) : string :=
  if redact e then u_scheme u ++ ":" ++ redacted_mask else u_plain u.

Definition urn_to_xvalue (e : env) (u : urn) : xv := xtext (urn_render e u).

(* URNList.ToXValue *)
Definition urns_to_xvalue (e : env) (us : list urn) : xv := XArr (map (urn_to_xvalue e) us).

(* URNList.MapContext: highest priority URN per scheme, nil for the other registered schemes.
   (Contact URNs are validated on read, so their schemes are registered ones.) *)
Fixpoint first_with_scheme (k : string) (us : list urn) : option urn :=
  match us with
  | [] => None
  | u :: rest => if String.eqb (u_scheme u) k then Some u else first_with_scheme k rest
  end.

Definition urns_map_context (e : env) (us : list urn) : xv :=
  XObj None (map (fun k => (k, match first_with_scheme k us with
                               | Some u => urn_to_xvalue e u
                               | None => XNil
                               end)) (all_schemes e)).

(* ------------------------------------------------------------------------------------------------ *)
(* channel resolution                                                                                *)

Definition str_in (s : string) (l : list string) : bool := existsb (String.eqb s) l.

Definition role_send : string := "send".
Definition tel : string := "tel".

Definition has_role (c : channel) (r : string) : bool := str_in r (ch_roles c).
Definition supports (c : channel) (s : string) : bool := str_in s (ch_schemes c).

Fixpoint channel_by_uuid (chans : list channel) (uuid : string) : option channel :=
  match chans with
  | [] => None
  | c :: rest => if String.eqb (ch_uuid c) uuid then Some c else channel_by_uuid rest uuid
  end.

(* utils.PrefixOverlap *)
Fixpoint prefix_overlap (a b : string) : nat :=
  match a, b with
  | String x a', String y b' => if Ascii.eqb x y then S (prefix_overlap a' b') else O
  | _, _ => O
  end.

(* strings.TrimPrefix(s, "+") *)
Definition trim_plus (s : string) : string :=
  match s with
  | String c r => if Ascii.eqb c "+"%char then r else s
  | EmptyString => s
  end.

(* the candidate filter of GetForURN's tel branch *)
Definition tel_candidate (role : string) (country : string) (c : channel) : bool :=
  supports c tel && has_role c role
  && negb (negb (String.eqb (ch_country c) "") && negb (String.eqb country "")
           && negb (String.eqb country (ch_country c)) && negb (ch_intl c)).

(* the overlap loop: state = (maxOverlap, channel) *)
Fixpoint overlap_prefixes (number : string) (cand : channel) (prefixes : list string)
         (st : nat * option channel) : nat * option channel :=
  match prefixes with
  | [] => st
  | p :: rest =>
      let ov := prefix_overlap p number in
      overlap_prefixes number cand rest (if Nat.leb (fst st) ov then (ov, Some cand) else st)
  end.

Fixpoint overlap_candidates (number : string) (cands : list channel) (st : nat * option channel)
  : nat * option channel :=
  match cands with
  | [] => st
  | c :: rest =>
      let prefixes := match ch_prefixes c with [] => [trim_plus (ch_address c)] | ps => ps end in
      overlap_candidates number rest (overlap_prefixes number c prefixes st)
  end.

Fixpoint first_for_scheme (chans : list channel) (scheme role : string) : option channel :=
  match chans with
  | [] => None
  | c :: rest => if has_role c role && supports c scheme then Some c else first_for_scheme rest scheme role
  end.

(* ChannelAssets.GetForURN: the part after the explicit-channel shortcut *)
Definition scheme_choice (chans : list channel) (u : urn) (role : string) : option channel :=
  if String.eqb (u_scheme u) tel then
    let cands := filter (tel_candidate role (u_country u)) chans in
    match cands with
    | [] => None
    | [c1] => Some c1
    | _ => snd (overlap_candidates (trim_plus (u_path u)) cands (O, None))
    end
  else first_for_scheme chans (u_scheme u) role.

(* the channel the caller attached to the URN (ParseRawURN: looked up by the ?channel= UUID), if it has the role *)
Definition explicit_channel (chans : list channel) (u : urn) (role : string) : option channel :=
  if String.eqb (u_affinity u) "" then None
  else match channel_by_uuid chans (u_affinity u) with
       | Some c => if has_role c role then Some c else None
       | None => None
       end.

(* ChannelAssets.GetForURN *)
Definition get_for_urn (chans : list channel) (u : urn) (role : string) : option channel :=
  match explicit_channel chans u role with
  | Some c => Some c
  | None => scheme_choice chans u role
  end.

(* Contact.ResolveDestinations(false): the first URN that has a send channel *)
Fixpoint resolve_destination (chans : list channel) (us : list urn) : option (urn * channel) :=
  match us with
  | [] => None
  | u :: rest => match get_for_urn chans u role_send with
                 | Some c => Some (u, c)
                 | None => resolve_destination chans rest
                 end
  end.

Definition preferred_urn (chans : list channel) (us : list urn) : option urn :=
  option_map fst (resolve_destination chans us).
Definition preferred_channel (chans : list channel) (us : list urn) : option channel :=
  option_map snd (resolve_destination chans us).

(* Channel.Context *)
Definition channel_context (c : channel) : xv :=
  XObj (Some (xtext (ch_name c)))
       [("address", xtext (ch_address c)); ("name", xtext (ch_name c)); ("uuid", xtext (ch_uuid c))].

(* ------------------------------------------------------------------------------------------------ *)
(* actions whose EFFECT depends on the contact's URNs (flows/contact.go HasURN, AddURN, RemoveURN,       *)
(* UpdatePreferredChannel; reached from add_contact_urn / the urns modifier / set_contact_channel)      *)

(* URN.Identity() equality: scheme and path, not display or query.  The candidate is already Normalize()d. *)
Definition urn_identity_eqb (u v : urn) : bool :=
  String.eqb (u_scheme u) (u_scheme v) && String.eqb (u_path u) (u_path v).

(* Contact.HasURN *)
Definition has_urn (us : list urn) (u : urn) : bool := existsb (urn_identity_eqb u) us.

(* Contact.AddURN: appended unless an URN with the same identity is held *)
Definition add_urn (us : list urn) (u : urn) : list urn := if has_urn us u then us else (us ++ [u])%list.

(* Contact.RemoveURN *)
Definition remove_urn (us : list urn) (u : urn) : list urn :=
  if has_urn us u then filter (fun x => negb (urn_identity_eqb x u)) us else us.

Definition set_affinity (u : urn) (a : string) : urn :=
  {| u_scheme := u_scheme u; u_path := u_path u; u_display := u_display u; u_affinity := a;
     u_country := u_country u; u_plain := u_plain u; u_fmt := u_fmt u |}.

(* the loop body of UpdatePreferredChannel for a channel c *)
Definition prefer_step (c : channel) (u : urn) : urn :=
  let u1 := if String.eqb (u_scheme u) tel && supports c tel then set_affinity u (ch_uuid c) else u in
  if String.eqb (u_affinity u1) "" && supports c (u_scheme u1) then set_affinity u1 (ch_uuid c) else u1.

(* Contact.UpdatePreferredChannel *)
Definition update_preferred_channel (ch : option channel) (us : list urn) : list urn :=
  match ch with
  | None => map (fun u => set_affinity u "") us
  | Some c =>
      if negb (has_role c role_send) then us
      else let us' := map (prefer_step c) us in
           (filter (fun u => String.eqb (u_affinity u) (ch_uuid c)) us'
            ++ filter (fun u => negb (String.eqb (u_affinity u) (ch_uuid c))) us')%list
  end.

(* ------------------------------------------------------------------------------------------------ *)
(* contact                                                                                           *)

(* the parts of Contact.Context that are computed without touching a URN are carried as given subtrees *)
Record contact := {
  c_id : Z; c_name : string; c_urns : list urn;
  c_created_on : xv; c_fields : xv; c_first_name : xv; c_groups : xv; c_language : xv;
  c_last_seen_on : xv; c_status : xv; c_tickets : xv; c_timezone : xv; c_uuid : xv
}.

(* strconv.Itoa(int(c.id)) *)
Definition itoa (z : Z) : string := NilZero.string_of_int (Z.to_int z).

(* Contact.Format *)
Definition contact_format (e : env) (c : contact) : string :=
  if negb (String.eqb (c_name c) "") then c_name c
  else if redact e then itoa (c_id c)
  else match c_urns c with
       | u :: _ => u_fmt u
       | [] => ""
       end.

(* Contact.Context *)
Definition contact_context (e : env) (chans : list channel) (c : contact) : xv :=
  XObj (Some (xtext (contact_format e c)))
    [ ("channel", match preferred_channel chans (c_urns c) with Some ch => channel_context ch | None => XNil end);
      ("created_on", c_created_on c);
      ("fields", c_fields c);
      ("first_name", c_first_name c);
      ("groups", c_groups c);
      ("id", xtext (itoa (c_id c)));
      ("language", c_language c);
      ("last_seen_on", c_last_seen_on c);
      ("name", xtext (c_name c));
      ("status", c_status c);
      ("tickets", c_tickets c);
      ("timezone", c_timezone c);
      ("urn", match preferred_urn chans (c_urns c) with Some u => urn_to_xvalue e u | None => XNil end);
      ("urns", urns_to_xvalue e (c_urns c));
      ("uuid", c_uuid c) ].

(* Contact.Country *)
Fixpoint first_tel_country (us : list urn) : string :=
  match us with
  | [] => ""
  | u :: rest => if String.eqb (u_scheme u) tel && negb (String.eqb (u_country u) "") then u_country u
                 else first_tel_country rest
  end.

Definition contact_country (chans : list channel) (c : contact) : string :=
  match preferred_channel chans (c_urns c) with
  | Some ch => if negb (String.eqb (ch_country ch) "") then ch_country ch else first_tel_country (c_urns c)
  | None => first_tel_country (c_urns c)
  end.

(* ------------------------------------------------------------------------------------------------ *)
(* input, related runs, run, root                                                                    *)

Record input := {
  i_urn : option urn;
  i_default : xv; i_attachments : xv; i_channel : xv; i_created_on : xv; i_external_id : xv;
  i_text : xv; i_type : xv; i_uuid : xv
}.

(* MsgInput.Context *)
Definition input_context (e : env) (i : input) : xv :=
  XObj (Some (i_default i))
    [ ("attachments", i_attachments i); ("channel", i_channel i); ("created_on", i_created_on i);
      ("external_id", i_external_id i); ("text", i_text i); ("type", i_type i);
      ("urn", match i_urn i with Some u => urn_to_xvalue e u | None => XNil end);
      ("uuid", i_uuid i) ].

(* a run as seen through RunSummary (parent, child) *)
Record related := {
  r_contact : option contact; r_flow_name : option string;
  r_fields : xv; r_flow : xv; r_results : xv; r_run : xv; r_status : xv; r_uuid : xv
}.

(* FormatRunSummary *)
Definition format_run_summary (e : env) (c : option contact) (flow : option string) : string :=
  (match c with Some c => contact_format e c | None => "<nocontact>" end)
  ++ "@" ++ (match flow with Some f => f | None => "<missing>" end).

(* relatedRunContext.Context *)
Definition related_context (e : env) (chans : list channel) (r : related) : xv :=
  XObj (Some (xtext (format_run_summary e (r_contact r) (r_flow_name r))))
    [ ("contact", match r_contact r with Some c => contact_context e chans c | None => XNil end);
      ("fields", r_fields r);
      ("flow", r_flow r);
      ("results", r_results r);
      ("run", r_run r);
      ("status", r_status r);
      ("urns", match r_contact r with Some c => urns_map_context e (c_urns c) | None => XNil end);
      ("uuid", r_uuid r) ].

Record session := {
  s_channels : list channel;
  s_contact : option contact;
  s_flow_name : option string;
  s_input : option input;
  s_parent : option related;
  s_child : option related;
  (* run.Context: the non-URN members *)
  s_run_created_on : xv; s_run_exited_on : xv; s_run_flow : xv; s_run_path : xv; s_run_results : xv;
  s_run_status : xv; s_run_uuid : xv;
  (* RootContext: the non-URN members *)
  s_fields : xv; s_globals : xv; s_legacy_extra : xv; s_node : xv; s_results : xv; s_resume : xv;
  s_ticket : xv; s_trigger : xv; s_webhook : xv
}.

Definition opt_ctx {A} (f : A -> xv) (o : option A) : xv := match o with Some a => f a | None => XNil end.

(* run.Context *)
Definition run_context (e : env) (s : session) : xv :=
  XObj (Some (xtext (format_run_summary e (s_contact s) (s_flow_name s))))
    [ ("contact", opt_ctx (contact_context e (s_channels s)) (s_contact s));
      ("created_on", s_run_created_on s);
      ("exited_on", s_run_exited_on s);
      ("flow", s_run_flow s);
      ("path", s_run_path s);
      ("results", s_run_results s);
      ("status", s_run_status s);
      ("uuid", s_run_uuid s) ].

(* run.RootContext *)
Definition root_context (e : env) (s : session) : xv :=
  XObj None
    [ ("child", opt_ctx (related_context e (s_channels s)) (s_child s));
      ("contact", opt_ctx (contact_context e (s_channels s)) (s_contact s));
      ("fields", s_fields s);
      ("globals", s_globals s);
      ("input", opt_ctx (input_context e) (s_input s));
      ("legacy_extra", s_legacy_extra s);
      ("node", s_node s);
      ("parent", opt_ctx (related_context e (s_channels s)) (s_parent s));
      ("results", s_results s);
      ("resume", s_resume s);
      ("run", run_context e s);
      ("ticket", s_ticket s);
      ("trigger", s_trigger s);
      ("urns", opt_ctx (fun c => urns_map_context e (c_urns c)) (s_contact s));
      ("webhook", s_webhook s) ].

(* what template evaluation sees besides the context: the merged environment
   (sessionEnvironment.DefaultCountry; timezone and language do not involve URNs) *)
Definition merged_country (e : env) (s : session) : string :=
  match s_contact s with
  | Some c => let cc := contact_country (s_channels s) c in
              if negb (String.eqb cc "") then cc else env_country e
  | None => env_country e
  end.

Record env_view := { v_redact : bool; v_country : string }.
Definition merged_env (e : env) (s : session) : env_view :=
  {| v_redact := redact e; v_country := merged_country e s |}.

(* ------------------------------------------------------------------------------------------------ *)
(* the model's key table: context type |-> keys, each with how its value relates to URNs             *)

Inductive key_class :=
| KPlain        (* value expression does not touch a URN *)
| KUrnSink      (* derived from a URN only through ToXValue(env) / MapContext / Format(env) / FormatRunSummary(env,..)
                   or through another context builder *)
| KChannel      (* derived from the URN list through channel resolution (PreferredChannel) *)
| KUrnRaw.      (* derived from a URN in any other way: nothing in the model corresponds to it *)

Definition key_class_eqb (a b : key_class) : bool :=
  match a, b with
  | KPlain, KPlain | KUrnSink, KUrnSink | KChannel, KChannel | KUrnRaw, KUrnRaw => true
  | _, _ => false
  end.

(* builder (as named by translators/cmd/contextkeys: package.Type.Method) |-> keys in alphabetical order.
   "*" stands for dynamically keyed entries. *)
Definition model_keys : list (string * list (string * key_class)) :=
  [ ("flows.Contact.Context",
      [("__default__", KUrnSink); ("channel", KChannel); ("created_on", KPlain); ("fields", KPlain);
       ("first_name", KPlain); ("groups", KPlain); ("id", KPlain); ("language", KPlain);
       ("last_seen_on", KPlain); ("name", KPlain); ("status", KPlain); ("tickets", KPlain);
       ("timezone", KPlain); ("urn", KUrnSink); ("urns", KUrnSink); ("uuid", KPlain)]);
    ("inputs.MsgInput.Context",
      [("__default__", KPlain); ("attachments", KPlain); ("channel", KPlain); ("created_on", KPlain);
       ("external_id", KPlain); ("text", KPlain); ("type", KPlain); ("urn", KUrnSink); ("uuid", KPlain)]);
    ("runs.relatedRunContext.Context",
      [("__default__", KUrnSink); ("contact", KUrnSink); ("fields", KPlain); ("flow", KPlain);
       ("results", KPlain); ("run", KPlain); ("status", KPlain); ("urns", KUrnSink); ("uuid", KPlain)]);
    ("runs.run.Context",
      [("__default__", KUrnSink); ("contact", KUrnSink); ("created_on", KPlain); ("exited_on", KPlain);
       ("flow", KPlain); ("path", KPlain); ("results", KPlain); ("status", KPlain); ("uuid", KPlain)]);
    ("runs.run.RootContext",
      [("child", KUrnSink); ("contact", KUrnSink); ("fields", KPlain); ("globals", KPlain);
       ("input", KUrnSink); ("legacy_extra", KPlain); ("node", KPlain); ("parent", KUrnSink);
       ("results", KPlain); ("resume", KPlain); ("run", KUrnSink); ("ticket", KPlain); ("trigger", KPlain);
       ("urns", KUrnSink); ("webhook", KPlain)]);
    ("flows.URNList.MapContext", [("*", KUrnSink)]);
    ("flows.Channel.Context",
      [("__default__", KPlain); ("address", KPlain); ("name", KPlain); ("uuid", KPlain)]) ].

Fixpoint keys_eqb (a b : list (string * key_class)) : bool :=
  match a, b with
  | [], [] => true
  | (k, c) :: a', (k', c') :: b' => String.eqb k k' && key_class_eqb c c' && keys_eqb a' b'
  | _, _ => false
  end.

Fixpoint find_keys (ty : string) (t : list (string * list (string * key_class))) : option (list (string * key_class)) :=
  match t with
  | [] => None
  | (ty', ks) :: rest => if String.eqb ty ty' then Some ks else find_keys ty rest
  end.

(* the obligation over the generated table src (gen/ContextKeys.v):
   a builder the model transcribes has exactly the model's keys and classes; any other builder in the source is
   URN-free (so the subtrees the model carries as given are built without touching a URN); every builder the
   model transcribes still exists *)
Definition keys_covered (src : list (string * list (string * key_class))) : bool :=
  forallb (fun entry =>
             match find_keys (fst entry) model_keys with
             | Some ks => keys_eqb ks (snd entry)
             | None => forallb (fun kc => key_class_eqb (snd kc) KPlain) (snd entry)
             end) src
  && forallb (fun entry => match find_keys (fst entry) src with Some _ => true | None => false end) model_keys.

(* What the evaluator is handed besides the context is an envs.Environment.  Methods of the environment types built
   under flows/ (sessionEnvironment, assetsEnvironment), with whether they touch a URN: env_view carries exactly
   the URN-touching ones (DefaultCountry; DefaultLocale = language + DefaultCountry) next to the policy. *)
Definition model_env_methods : list (string * bool) :=
  [ ("flows.assetsEnvironment.LocationResolver", false);
    ("flows.sessionEnvironment.DefaultCountry", true);
    ("flows.sessionEnvironment.DefaultLanguage", false);
    ("flows.sessionEnvironment.DefaultLocale", true);
    ("flows.sessionEnvironment.Timezone", false) ].

(* functions under flows/ that hand a types.XValue to the context directly: the two URN sinks transcribed above
   (urn_to_xvalue, urns_to_xvalue) touch URNs, the others do not *)
Definition model_value_builders : list (string * bool) :=
  [ ("flows.ContactURN.ToXValue", true);
    ("flows.FieldValue.ToXValue", false);
    ("flows.Group.ToXValue", false);
    ("flows.GroupList.ToXValue", false);
    ("flows.URNList.ToXValue", true);
    ("runs.Path.ToXValue", false);
    ("runs.legacyExtra.ToXValue", false) ].

(* Who reads the contact's URNs during a run.  Functions under flows/actions, flows/modifiers, flows/routers whose body
   calls a URN-touching method of Contact / ContactURN / URNList / ChannelAssets / sessionEnvironment, with the methods
   called, and what that means for the session STATE the expression context is built from:
     URNsModifier.Apply      add_contact_urn (and the host-side urns modifier): add_urn / remove_urn above — state
                             depends on an identity comparison with the held URNs (listed finding)
     ChannelModifier.Apply   set_contact_channel: update_preferred_channel above — affinities and order only
     channelOf               resolves the ?channel= of the ADDED URN (a function of the candidate, not of held URNs)
     ReevaluateGroups        query-based groups: queries are parsed with the assets' environment; under the policy a
                             query with a URN value is rejected, existence checks depend on schemes only
     SendMsg / RequestOptIn  ResolveDestinations: picks URN + channel for the message EVENT (known sink: channel choice);
                             DefaultLocale for the template translation (known sink: country)
     TransferAirtime.transfer  recipient / sender of the airtime EVENT; no state change beyond the result's fixed texts
     currentLocale, resolveRecipients, HasPhone, DialWait.Begin   read the merged environment's country (known sink)
   A new action that compares or reads URNs shows up as a new or changed row and re-opens the obligation. *)
Definition model_urn_readers : list (string * string) :=
  [ ("actions.RequestOptInAction.Execute", "Contact.ResolveDestinations ContactURN.URN");
    ("actions.SendMsgAction.Execute", "Contact.ResolveDestinations ContactURN.URN sessionEnvironment.DefaultLocale");
    ("actions.TransferAirtimeAction.transfer", "Contact.PreferredChannel Contact.URNs ContactURN.URN URNList.WithScheme");
    ("actions.currentLocale", "sessionEnvironment.DefaultCountry");
    ("actions.otherContactsAction.resolveRecipients", "sessionEnvironment.DefaultCountry");
    ("cases.HasPhone", "sessionEnvironment.DefaultCountry");
    ("modifiers.ChannelModifier.Apply", "Contact.URNs Contact.UpdatePreferredChannel URNList.RawURNs");
    ("modifiers.ReevaluateGroups", "Contact.ReevaluateQueryBasedGroups");
    ("modifiers.URNsModifier.Apply", "Contact.AddURN Contact.ClearURNs Contact.RemoveURN Contact.URNs URNList.RawURNs");
    ("modifiers.channelOf", "ContactURN.Channel");
    ("waits.DialWait.Begin", "sessionEnvironment.DefaultCountry") ].

Fixpoint pairs_eqb (a b : list (string * string)) : bool :=
  match a, b with
  | [], [] => true
  | (k, x) :: a', (k', y) :: b' => String.eqb k k' && String.eqb x y && pairs_eqb a' b'
  | _, _ => false
  end.

Fixpoint rows_eqb (a b : list (string * bool)) : bool :=
  match a, b with
  | [], [] => true
  | (k, x) :: a', (k', y) :: b' => String.eqb k k' && Bool.eqb x y && rows_eqb a' b'
  | _, _ => false
  end.

(* does the tree built by the model have, at every transcribed builder, exactly the keys of the table? *)
Definition table_keys (ty : string) : list string :=
  match find_keys ty model_keys with Some ks => map fst ks | None => [] end.

(* keys of an object value, "__default__" first when present *)
Definition xv_keys (v : xv) : list string :=
  match v with
  | XObj d ps => (match d with Some _ => ["__default__"] | None => [] end) ++ map fst ps
  | _ => []
  end.

(* ------------------------------------------------------------------------------------------------ *)
(* lookups (the core of expression evaluation: dotted paths and array indices)                       *)

Fixpoint assoc (k : string) (ps : list (string * xv)) : option xv :=
  match ps with
  | [] => None
  | (k', v) :: rest => if String.eqb k k' then Some v else assoc k rest
  end.

Inductive step := Key (k : string) | Idx (i : nat).

Definition lookup1 (v : xv) (st : step) : option xv :=
  match v, st with
  | XObj _ ps, Key k => assoc k ps
  | XArr l, Idx i => nth_error l i
  | _, _ => None
  end.

Fixpoint lookup (v : xv) (p : list step) : option xv :=
  match p with
  | [] => Some v
  | st :: rest => match lookup1 v st with Some v' => lookup v' rest | None => None end
  end.

(* structural equality (for the correspondence check) *)
Fixpoint xv_eqb (a b : xv) : bool :=
  match a, b with
  | XNil, XNil => true
  | XLeaf k r, XLeaf k' r' => String.eqb k k' && String.eqb r r'
  | XArr l, XArr l' =>
      (fix go (l l' : list xv) : bool :=
         match l, l' with
         | [], [] => true
         | x :: t, y :: t' => xv_eqb x y && go t t'
         | _, _ => false
         end) l l'
  | XObj d ps, XObj d' ps' =>
      (match d, d' with
       | None, None => true
       | Some x, Some y => xv_eqb x y
       | _, _ => false
       end)
      && (fix go (l l' : list (string * xv)) : bool :=
            match l, l' with
            | [], [] => true
            | (k, x) :: t, (k', y) :: t' => String.eqb k k' && xv_eqb x y && go t t'
            | _, _ => false
            end) ps ps'
  | _, _ => false
  end.

(* ------------------------------------------------------------------------------------------------ *)
(* contact queries (contactql)                                                                       *)

Inductive prop_type := PAttribute | PURN | PField.
Inductive qop := OpEq | OpNe | OpContains | OpGt | OpGe | OpLt | OpLe.

(* the parse tree the ANTLR parser hands to the visitor *)
Inductive raw :=
| RImplicit (value : string) (as_int : option string) (urn_parts : option (string * string)) (phone_like : option string)
    (* literal; strconv.Atoi(value) re-printed; urns.Parse(value) scheme/path if it is a URN;
       the cleaned number if implicitIsPhoneNumberRegex matches; name_tokens below *)
    (name_tokens : bool)     (* len(tokenizeNameValue(value)) > 0 *)
| RCond (prop : string) (op : qop) (value : string)    (* PROPERTY lower-cased, COMPARATOR resolved, literal *)
| RAnd (a b : raw)       (* explicit AND and implicit juxtaposition *)
| ROr (a b : raw)
| RGroup (a : raw).

Inductive qnode :=
| QCond (pt : prop_type) (key : string) (op : qop) (value : string)
| QBool (is_and : bool) (children : list qnode).

Inductive qerr := ErrRedactedURNs | ErrUnknownPropertyType | ErrInvalidPartialURN | ErrInvalidPartialName
                | ErrUnsupportedContains | ErrUnsupportedComparison | ErrOther.

(* the attributes table of contactql/parser.go; true = text typed *)
Definition attributes : list (string * bool) :=
  [("uuid", true); ("id", false); ("name", true); ("status", true); ("language", true); ("urn", true);
   ("group", true); ("flow", true); ("history", true); ("tickets", false); ("created_on", false); ("last_seen_on", false)].

Definition is_attribute (k : string) : bool := existsb (fun p => String.eqb (fst p) k) attributes.

(* strings.SplitN(propText, ".", 2) when propText contains a dot *)
Fixpoint split_dot (s : string) : option (string * string) :=
  match s with
  | EmptyString => None
  | String c r => if Ascii.eqb c "."%char then Some (EmptyString, r)
                  else match split_dot r with
                       | Some (a, b) => Some (String c a, b)
                       | None => None
                       end
  end.

(* visitor.VisitCondition; the error list is modelled by the first error (ParseQuery returns errors[0]) *)
Definition visit_condition (e : env) (prop : string) (op : qop) (value : string) : option qerr * qnode :=
  match split_dot prop with
  | Some (pfx, key) =>
      if String.eqb pfx "fields" then (None, QCond PField key op value)
      else if String.eqb pfx "urns" then
        ((if redact e && negb (String.eqb value "") then Some ErrRedactedURNs else None), QCond PURN key op value)
      else (Some ErrUnknownPropertyType, QCond PAttribute "" op value)
  | None =>
      if is_attribute prop then
        ((if String.eqb prop "urn" && redact e && negb (String.eqb value "") then Some ErrRedactedURNs else None),
         QCond PAttribute prop op value)
      else if str_in prop (all_schemes e) then
        ((if redact e && negb (String.eqb value "") then Some ErrRedactedURNs else None), QCond PURN prop op value)
      else (None, QCond PField prop op value)
  end.

(* visitor.VisitImplicitCondition *)
Definition visit_implicit (e : env) (value : string) (as_int : option string) (urn_parts : option (string * string))
           (phone_like : option string) (name_tokens : bool) : qnode :=
  let name_cond := QCond PAttribute "name" (if name_tokens then OpContains else OpEq) value in
  if redact e then
    match as_int with
    | Some n => QCond PAttribute "id" OpEq n
    | None => name_cond
    end
  else match urn_parts with
       | Some (scheme, path) => QCond PURN scheme OpEq path
       | None => match phone_like with
                 | Some cleaned => QCond PURN tel OpContains cleaned
                 | None => name_cond
                 end
       end.

Definition first_err (a b : option qerr) : option qerr := match a with Some _ => a | None => b end.

Fixpoint visit (e : env) (r : raw) : option qerr * qnode :=
  match r with
  | RImplicit v ai up pl nt => (None, visit_implicit e v ai up pl nt)
  | RCond p op v => visit_condition e p op v
  | RAnd a b => let '(ea, na) := visit e a in let '(eb, nb) := visit e b in
                (first_err ea eb, QBool true [na; nb])
  | ROr a b => let '(ea, na) := visit e a in let '(eb, nb) := visit e b in
               (first_err ea eb, QBool false [na; nb])
  | RGroup a => visit e a
  end.

(* the URN-related part of Condition.validate: contains needs >= 3 bytes on URNs, comparisons are refused on text *)
Definition validate_urn_condition (pt : prop_type) (key : string) (op : qop) (value : string) : option qerr :=
  let is_urn := match pt with PURN => true | PAttribute => String.eqb key "urn" | PField => false end in
  if negb is_urn then None else
  match op with
  | OpContains => if Nat.ltb (String.length value) 3 then Some ErrInvalidPartialURN else None
  | OpGt | OpGe | OpLt | OpLe => Some ErrUnsupportedComparison
  | _ => None
  end.

(* is this a condition on URNs that carries a value (i.e. asks about the identifying part)? *)
Definition urn_condition_with_value (q : qnode) : bool :=
  match q with
  | QCond PURN _ _ v => negb (String.eqb v "")
  | QCond PAttribute k _ v => String.eqb k "urn" && negb (String.eqb v "")
  | _ => false
  end.

Fixpoint mentions_urn_value (q : qnode) : bool :=
  match q with
  | QBool _ cs => (fix go (l : list qnode) : bool := match l with [] => false | c :: t => mentions_urn_value c || go t end) cs
  | c => urn_condition_with_value c
  end.

Fixpoint validate_urn_parts (q : qnode) : option qerr :=
  match q with
  | QCond pt k op v => validate_urn_condition pt k op v
  | QBool _ cs => (fix go (l : list qnode) : option qerr :=
                     match l with [] => None | c :: t => first_err (validate_urn_parts c) (go t) end) cs
  end.

(* ParseQuery from the parse tree on: visitor errors first, then validation (URN-related part) *)
Definition parse_query (e : env) (r : raw) : option qerr * qnode :=
  let '(err, q) := visit e r in
  match err with
  | Some _ => (err, q)
  | None => (validate_urn_parts q, q)
  end.

(* evaluation of the URN-related conditions (evaluateCondition + textComparison on ASCII-lower-cased, trimmed
   values); every other condition is evaluated by the given function on the non-URN part of the contact *)
Definition lower_ascii (c : ascii) : ascii :=
  let n := nat_of_ascii c in if Nat.leb 65 n && Nat.leb n 90 then ascii_of_nat (n + 32) else c.
Fixpoint lower (s : string) : string :=
  match s with EmptyString => EmptyString | String c r => String (lower_ascii c) (lower r) end.

Fixpoint is_prefix (p s : string) : bool :=
  match p, s with
  | EmptyString, _ => true
  | String a p', String b s' => Ascii.eqb a b && is_prefix p' s'
  | _, _ => false
  end.
Fixpoint contains (s sub : string) : bool :=
  is_prefix sub s || match s with EmptyString => false | String _ r => contains r sub end.

Definition text_compare (objv : string) (op : qop) (qv : string) : bool :=
  let o := lower objv in let q := lower qv in
  match op with
  | OpEq => String.eqb o q
  | OpNe => negb (String.eqb o q)
  | OpContains => contains o q
  | _ => false
  end.

(* Contact.QueryProperty for URN properties *)
Definition urn_values (pt : prop_type) (key : string) (us : list urn) : list string :=
  match pt with
  | PURN => map u_path (filter (fun u => String.eqb (u_scheme u) key) us)
  | _ => map u_path us
  end.

Definition eval_urn_condition (pt : prop_type) (key : string) (op : qop) (value : string) (us : list urn) : bool :=
  let vals := urn_values pt key us in
  if String.eqb value "" then
    match op with
    | OpEq => match vals with [] => true | _ => false end
    | OpNe => match vals with [] => false | _ => true end
    | _ => existsb (fun v => text_compare v op value) vals
    end
  else match op with
       | OpNe => forallb (fun v => text_compare v op value) vals
       | _ => existsb (fun v => text_compare v op value) vals
       end.

Definition is_urn_cond (pt : prop_type) (key : string) : bool :=
  match pt with PURN => true | PAttribute => String.eqb key "urn" | PField => false end.

Fixpoint eval_query (other : prop_type -> string -> qop -> string -> bool) (us : list urn) (q : qnode) : bool :=
  match q with
  | QCond pt k op v => if is_urn_cond pt k then eval_urn_condition pt k op v us else other pt k op v
  | QBool true cs => (fix go (l : list qnode) : bool := match l with [] => true | c :: t => eval_query other us c && go t end) cs
  | QBool false cs => (fix go (l : list qnode) : bool := match l with [] => false | c :: t => eval_query other us c || go t end) cs
  end.
