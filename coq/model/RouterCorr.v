(* RouterCorr.v — comparison of model/Router.v with observations of the real engine (written by
   harness/cmd/c07).  Values are numbered by the driver; eval_tpl / to_xtext / test are finite tables
   filled by calling run.EvaluateTemplateValue, types.ToXText and cases.XTESTS[..].Call.  No proofs. *)
From Coq Require Import List NArith Bool.
From Verif Require Import model.Lang model.Router.
Import ListNotations.
Open Scope N_scope.

Record rcase := {
  rc_lc : lctx;
  rc_max : nat;                                         (* MaxResultChars *)
  rc_max_tpl : nat;                                     (* MaxTemplateChars (negative = 0) *)
  rc_node : node;
  rc_flow_nodes : list uuid;
  rc_site : call_site;
  rc_is_timeout : bool;
  rc_draw : draw;
  rc_timeouts : list text;                              (* times of the run's wait_timed_out events, oldest first *)
  rc_prev : option result;
  (* oracle tables *)
  rc_evals : list (text * (N * (bool * nat)));          (* template |-> value id, error logged, #warnings *)
  rc_texts : list (N * option text);                    (* value id |-> ToXText *)
  rc_registered : list test_id;
  rc_tests : list (test_id * N * list N * test_result N);
  (* observed on the implementation *)
  rc_o_outcome : N;                                     (* 0 engine error, 1 panic, 2 run failed, 3 left *)
  rc_o_step_exit : uuid;
  rc_o_segment : option (uuid * text * uuid);
  rc_o_saved : option result;
  rc_o_events : list (N * N)
}.

Fixpoint nlist_eqb (a b : list N) : bool :=
  match a, b with
  | [], [] => true
  | x :: a', y :: b' => N.eqb x y && nlist_eqb a' b'
  | _, _ => false
  end.

Definition missing_value : N := 4000000000.

Fixpoint lookup_eval (tbl : list (text * (N * (bool * nat)))) (t : text) : N * (bool * nat) :=
  match tbl with
  | [] => (missing_value, (false, O))
  | (t', r) :: rest => if txt_eqb t t' then r else lookup_eval rest t
  end.

Fixpoint lookup_text (tbl : list (N * option text)) (v : N) : option text :=
  match tbl with
  | [] => None
  | (v', r) :: rest => if N.eqb v v' then r else lookup_text rest v
  end.

(* a missing entry behaves like an unexpected result type, so that it can never go unnoticed *)
Fixpoint lookup_test (tbl : list (test_id * N * list N * test_result N)) (t : test_id) (op : N) (args : list N)
  : test_result N :=
  match tbl with
  | [] => TOther
  | (t', op', args', r) :: rest =>
      if N.eqb t t' && N.eqb op op' && nlist_eqb args args' then r else lookup_test rest t op args
  end.

Definition opt_eqb {A} (eqb : A -> A -> bool) (a b : option A) : bool :=
  match a, b with
  | None, None => true
  | Some x, Some y => eqb x y
  | _, _ => false
  end.

Definition result_eqb (a b : result) : bool :=
  txt_eqb (r_name a) (r_name b) && txt_eqb (r_value a) (r_value b)
  && txt_eqb (r_category a) (r_category b)
  && txt_eqb (r_category_localized a) (r_category_localized b)
  && txt_eqb (r_input a) (r_input b) && opt_eqb txt_eqb (r_extra a) (r_extra b).

Definition segment_eqb (a b : uuid * text * uuid) : bool :=
  let '(e1, o1, d1) := a in let '(e2, o2, d2) := b in
  N.eqb e1 e2 && txt_eqb o1 o2 && N.eqb d1 d2.

(* projection of model events to what the driver can tell apart without reading error texts beyond the
   constant prefixes of switch.go: 0 error, 1 warning, 2 test error (test), 3 non-object extra (test),
   4 run_result_changed, 5 failure *)
Definition ev_proj (e : event) : N * N :=
  match e with
  | EvTplError => (0, 0)
  | EvTplWarning => (1, 0)
  | EvTestError t => (2, t)
  | EvNonObjectExtra t => (3, t)
  | EvOperandTextError => (0, 0)
  | EvResultChanged _ => (4, 0)
  | EvFailure => (5, 0)
  end.

Fixpoint evs_eqb (a b : list (N * N)) : bool :=
  match a, b with
  | [], [] => true
  | (x1, y1) :: a', (x2, y2) :: b' => N.eqb x1 x2 && N.eqb y1 y2 && evs_eqb a' b'
  | _, _ => false
  end.

Definition outcome_code (o : node_outcome) : N :=
  match o with NEngineError => 0 | NPanic => 1 | NRunFailed => 2 | NLeft => 3 end.

Definition run_model (k : rcase) : visit_out :=
  visit N (lookup_eval (rc_evals k)) (lookup_text (rc_texts k))
        (fun t => existsb (N.eqb t) (rc_registered k)) (lookup_test (rc_tests k))
        (rc_lc k) (rc_max k) (rc_max_tpl k) (rc_site k) (rc_flow_nodes k) (rc_node k) (rc_is_timeout k)
        (rc_draw k) (scan_timeouts (rc_timeouts k)) (rc_prev k).

Definition check (k : rcase) : bool :=
  let v := run_model k in
  N.eqb (outcome_code (vo_outcome v)) (rc_o_outcome k)
  && match vo_outcome v with
     | NEngineError | NPanic => true      (* the engine call produced no session / sprint to look at *)
     | _ =>
       N.eqb (vo_step_exit v) (rc_o_step_exit k)
       && opt_eqb segment_eqb (vo_segment v) (rc_o_segment k)
       && opt_eqb result_eqb (vo_saved v) (rc_o_saved k)
       && evs_eqb (map ev_proj (vo_events v)) (rc_o_events k)
     end.

Fixpoint mismatches_from (i : N) (ks : list rcase) : list N :=
  match ks with
  | [] => []
  | k :: rest => (if check k then [] else [i]) ++ mismatches_from (i + 1) rest
  end.

Definition mismatches (ks : list rcase) : list N := mismatches_from 0 ks.
