(* JsonText.v — model of parse_json / json (C13) on JSON trees.  No proofs here.

   Transcribed from
     excellent/types/json.go    JSONToXValue, jsonTypeToXValue, jsonToObject, jsonToArray, ToXJSON
     excellent/types/object.go  initialize (the "__default__" member becomes the default, not a property),
                                MarshalJSON (properties whose value marshals, plus - for objects read from JSON, which
                                have marshalDefault set - the default under "__default__" again; keys sorted)
     excellent/types/array.go   MarshalJSON (an element that does not marshal is written as null)
     excellent/types/number.go  MarshalJSON (decimal.String())
   Modelled, not verified: the byte level of JSON (encoding/json's Valid and Marshal, buger/jsonparser's Get /
   ObjectEach / ArrayEach / ParseString).  The harness reads both the input document and the output of json() into
   trees (lib/Json.v: members in document order, duplicates kept, strings as code points after unescaping - an
   escape that is not a valid surrogate pair stays a surrogate code point -, numbers as the (coefficient, exponent)
   pair decimal.NewFromString computes from the literal) and this model maps the one tree to the other.

   A Go map[string]XValue is represented by its canonical form: an association list sorted by key (byte order of
   UTF-8 = code point order), one binding per key; [sinsert] is the map update m[k] = v.  json.Marshal of a map
   writes the members in that order. *)
From Coq Require Import ZArith NArith List Bool.
From Verif Require Import lib.Dec lib.Json model.NumText.
Import ListNotations.

Inductive xval :=
| XNil
| XBool (b : bool)
| XNum (d : dec)
| XText (s : str)
| XArr (l : list xval)
| XObj (def : option xval) (props : list (str * xval))
| XErr (msg_len : Z).   (* an error value; the length of its message counts for the render size *)

(* strings *)
Fixpoint str_ltb (a b : str) : bool :=
  match a, b with
  | [], [] => false
  | [], _ :: _ => true
  | _ :: _, [] => false
  | x :: a', y :: b' => if (x <? y)%N then true else if (y <? x)%N then false else str_ltb a' b'
  end.

(* jsonparser.Unescape fails on a \u escape that is half of a surrogate pair without its other half *)
Definition is_surrogate (c : N) : bool := ((55296 <=? c) && (c <=? 57343))%N.
Definition str_ok (s : str) : bool := negb (existsb is_surrogate s).

Definition default_key : str := [95; 95; 100; 101; 102; 97; 117; 108; 116; 95; 95]%N.   (* "__default__" *)

(* number literals: exponents the conversion accepts *)
Definition max_json_exp : Z := 1000.
Definition exp_ok (e : Z) : bool := ((- max_json_exp <=? e) && (e <=? max_json_exp))%Z.

(* m[k] = v on the canonical form *)
Fixpoint sinsert {A} (k : str) (v : A) (l : list (str * A)) : list (str * A) :=
  match l with
  | [] => [(k, v)]
  | (k', v') :: r =>
      if str_ltb k k' then (k, v) :: l
      else if str_eqb k k' then (k, v) :: r
      else (k', v') :: sinsert k v r
  end.

Fixpoint sremove {A} (k : str) (l : list (str * A)) : list (str * A) :=
  match l with
  | [] => []
  | (k', v') :: r => if str_eqb k k' then r else (k', v') :: sremove k r
  end.

Fixpoint slookup {A} (k : str) (l : list (str * A)) : option A :=
  match l with
  | [] => None
  | (k', v') :: r => if str_eqb k k' then Some v' else slookup k r
  end.

(* jsonparser.ObjectEach + the callback of jsonToObject: members in document order, later ones overwrite earlier
   ones; a key that does not unescape ends the iteration (members seen so far stay) *)
Fixpoint build_props {A} (kvs : list (str * A)) (acc : list (str * A)) : list (str * A) :=
  match kvs with
  | [] => acc
  | (k, v) :: rest => if str_ok k then build_props rest (sinsert k v acc) else acc
  end.

(* XObject.initialize *)
Definition mk_object (props : list (str * xval)) : xval :=
  XObj (slookup default_key props) (sremove default_key props).

(* JSONToXValue on a valid document *)
Fixpoint of_json (j : json) : xval :=
  match j with
  | JNull => XNil
  | JBool b => XBool b
  | JNum m e => if exp_ok e then XNum (Dec m e) else XErr 25      (* "number value out of range" *)
  | JStr s => if str_ok s then XText s else XErr 26        (* "unknown JSON parsing error" *)
  | JArr l => XArr (map of_json l)
  | JObj kv => mk_object (build_props (map (fun p => (fst p, of_json (snd p))) kv) [])
  end.

(* decimal.String() read as a JSON number literal *)
Definition num_json (d : dec) : json :=
  match new_from_string_with (fun _ => true) (render d) with
  | Some d' => JNum (mant d') (dexp d')
  | None => JNull
  end.

(* ToXJSON; None = error *)
Fixpoint to_json (x : xval) : option json :=
  match x with
  | XNil => Some JNull
  | XBool b => Some (JBool b)
  | XNum d => Some (num_json d)
  | XText s => Some (JStr s)
  | XArr l => Some (JArr (map (fun v => match to_json v with Some j => j | None => JNull end) l))
  | XObj def props =>
      let marshaled :=
        (fix go (l : list (str * xval)) : list (str * json) :=
           match l with
           | [] => []
           | (k, v) :: r => match to_json v with Some j => (k, j) :: go r | None => go r end
           end) props in
      Some (JObj (match def with
                  | Some d => match to_json d with Some j => sinsert default_key j marshaled | None => marshaled end
                  | None => marshaled
                  end))
  | XErr _ => None
  end.

(* ------------------------------------------------------------------------------------------------ *)
(* excellent/types/base.go CheckRenderSize / spendSize (indent = 0): the size a value is charged before it is
   converted to text or JSON: 1 + depth for every value, the UTF-8 bytes of texts and property names, BitLen/3 +
   |exponent| for a number, the length of the message for an error value; the default of an object is charged at the
   object's depth, its properties one deeper (for text only when there is no default).  Every charge is >= 0, so the
   walk's early exits do not change the verdict: the conversion is refused iff the total exceeds MaxRenderSize. *)
Definition max_render_size : Z := 1000000.

Definition utf8_len (c : N) : Z :=
  if (c <? 128)%N then 1 else if (c <? 2048)%N then 2 else if (c <? 65536)%N then 3 else 4.
Definition str_bytes (s : str) : Z := fold_right (fun c n => (utf8_len c + n)%Z) 0%Z s.

Definition bit_len (m : Z) : Z := if (m =? 0)%Z then 0%Z else (Z.log2 (Z.abs m) + 1)%Z.
Definition num_size (d : dec) : Z := (bit_len (mant d) / 3 + Z.abs (dexp d))%Z.

(* [dc] is the charge per level of nesting: 1 in the limit as first committed (1fba51e), 0 once nesting is no longer
   charged; the driver measures it on the code on every run (types.SpendRenderSize on [[]]) and passes it to the cases *)
Fixpoint render_size (dc : Z) (as_json : bool) (depth : Z) (x : xval) : Z :=
  (1 + dc * depth +
   match x with
   | XNil | XBool _ => 0
   | XText s => str_bytes s
   | XErr n => n
   | XNum d => num_size d
   | XArr l => fold_right (fun v n => render_size dc as_json (depth + 1) v + n) 0 l
   | XObj def props =>
       (match def with Some d => render_size dc as_json depth d | None => 0 end)
       + (if (match def with Some _ => false | None => true end) || as_json
          then (fix go (l : list (str * xval)) : Z :=
                  match l with
                  | [] => 0
                  | (k, v) :: r => str_bytes k + render_size dc as_json (depth + 1) v + go r
                  end) props
          else 0)
   end)%Z.

Definition render_ok (dc : Z) (as_json : bool) (x : xval) : bool := (render_size dc as_json 0 x <=? max_render_size)%Z.

(* ToXJSON at top level: the size check, then the writer *)
Definition to_json_checked (dc : Z) (x : xval) : option json := if render_ok dc true x then to_json x else None.

(* json(parse_json(doc)) *)
Definition json_roundtrip (dc : Z) (j : json) : option json := to_json_checked dc (of_json j).
