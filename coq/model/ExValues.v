(* ExValues.v — Excellent values, their conversions and the PARTIAL Go primitives (C04).  No proofs here.

   Transcribed from
     excellent/types/base.go      Render, IsNil
     excellent/types/text.go      ToXText, XText.Truthy
     excellent/types/number.go    ToXNumber, ToInteger (Decimal.IntPart = big.Int.Int64 of the truncated value,
                                  which WRAPS: low 64 bits of the magnitude, then the sign; then the int32 test)
     excellent/types/boolean.go   ToXBoolean
     excellent/types/array.go     ToXArray, XArray.Render, XArray.Get (a Go slice index: panics out of range)
     excellent/types/object.go    ToXObject, XObject.Get (case-insensitive, smallest matching key), Render, default
     excellent/types/function.go  ToXFunction, XFunction.Render
     shopspring/decimal v1.4.0    IntPart, Round, Add, Sub, Neg, Mul, QuoRem/DivRound/Mod (the two that panic)
   Strings are lists of code points; numbers are lib/Dec.v decimals (mantissa, exponent) exactly as
   shopspring keeps them; Decimal.String / newXNumberFromString come from model/NumText.v (C13's model).

   What is abstracted: the message of an error value (one constructor [VErr]); date/time values ([VOpaque]:
   their kind and their rendered text only); non-ASCII case folding in XObject.Get. *)
From Coq Require Import ZArith NArith List Bool.
From Verif Require Import lib.Dec model.NumText.
Import ListNotations.

(* ------------------------------------------------------------------------------------------------ *)
(* functions that can be values: the builtins modelled in ExEval.v, and any other registered function *)

Inductive fname :=
| FWord | FWordSlice | FField | FTextSlice | FChar | FRepeat | FReplace
| FRound | FRoundUp | FRoundDown | FMod | FMean | FMax | FMin | FPercent | FFormatNumber
| FDateFromParts | FTimeFromParts | FDateTimeAdd
| FArray | FObject | FExtractObject | FRegexMatch | FForEach | FHasGroup
| FText | FNumber | FBoolean | FAnd | FOr | FIf | FAbs | FCount | FDefault | FJoin | FReverse | FSum | FConcat
| FIsError | FTextLength | FTextCompare
| FOther (id : N).        (* a registered function outside the modelled set *)

Inductive okind := KDateTime | KDate | KTime.

Inductive value :=
| VNil
| VErr                                          (* *XError; the message is not modelled *)
| VText (s : text)
| VNum (d : dec)
| VBool (b : bool)
| VArray (items : list value)
| VObject (def : option value) (props : list (text * value))   (* props sorted by key, keys distinct *)
| VFunc (f : fname) (name : text)
| VOpaque (k : okind) (rendered : text).

(* result of a call / an evaluation: a value (possibly an error VALUE) or a Go panic *)
(* classes of Go panics: index / slice / missing argument; integer or decimal division by zero; the decimal
   library's "exponent overflows an int32" / "overflow in decimal QuoRem" *)
Inductive pclass := PBounds | PDivZero | PExponent.
Inductive res := Ret (v : value) | Panic (c : pclass) | NoFuel.      (* NoFuel: a fuel-bounded loop of the MODEL ran out *)

(* result of a conversion: the converted thing, or "an XError is returned" *)
Inductive conv (A : Type) := Ok (a : A) | Bad.
Arguments Ok {A} a.
Arguments Bad {A}.

Definition is_nil (v : value) : bool := match v with VNil => true | _ => false end.
Definition is_err (v : value) : bool := match v with VErr => true | _ => false end.

(* ------------------------------------------------------------------------------------------------ *)
(* text helpers *)

Fixpoint text_ltb (a b : text) : bool :=          (* Go string order (UTF-8 byte order = code point order) *)
  match a, b with
  | [], [] => false
  | [], _ :: _ => true
  | _ :: _, [] => false
  | x :: a', y :: b' => if (x <? y)%N then true else if (y <? x)%N then false else text_ltb a' b'
  end.

Fixpoint join (sep : text) (parts : list text) : text :=
  match parts with
  | [] => []
  | [p] => p
  | p :: r => p ++ sep ++ join sep r
  end.

Definition lower_cp (c : N) : N := if ((65 <=? c) && (c <=? 90))%N then (c + 32)%N else c.
Definition lower (s : text) : text := map lower_cp s.      (* strings.ToLower, ASCII part *)

Definition t_true : text := [116; 114; 117; 101]%N.
Definition t_false : text := [102; 97; 108; 115; 101]%N.
Definition t_comma_sp : text := [44; 32]%N.
Definition t_colon_sp : text := [58; 32]%N.
Definition t_default_key : text := [95;95;100;101;102;97;117;108;116;95;95]%N.     (* "__default__" *)

(* ------------------------------------------------------------------------------------------------ *)
(* Render *)

Fixpoint render_value (v : value) : text :=
  match v with
  | VNil => []
  | VErr => []                                   (* never reached: every conversion returns the error first *)
  | VText s => s
  | VNum d => render d
  | VBool b => if b then t_true else t_false
  | VArray items =>
      [91%N] ++ join t_comma_sp ((fix go (l : list value) : list text :=
                                   match l with [] => [] | x :: r => render_value x :: go r end) items) ++ [93%N]
  | VObject (Some d) _ => render_value d
  | VObject None props =>
      [123%N] ++ join t_comma_sp ((fix go (l : list (text * value)) : list text :=
                                    match l with
                                    | [] => []
                                    | (k, x) :: r => (k ++ t_colon_sp ++ render_value x) :: go r
                                    end) props) ++ [125%N]
  | VFunc _ name => name
  | VOpaque _ r => r
  end.

(* ------------------------------------------------------------------------------------------------ *)
(* sizes: len() of a Go string is its UTF-8 length; types.spendSize is what a value costs to write as text or as JSON *)

Definition rune_bytes (c : N) : Z :=
  if (c <? 128)%N then 1%Z else if (c <? 2048)%N then 2%Z else if (c <? 65536)%N then 3%Z else 4%Z.
Definition byte_len (s : text) : Z := fold_right (fun c n => (rune_bytes c + n)%Z) 0%Z s.

(* types.MaxTextLength: the longest text that &, replace and join build *)
Definition max_text_length : Z := 1000000%Z.

(* big.Int.BitLen of the coefficient *)
Definition bit_len (m : Z) : Z := if (m =? 0)%Z then 0%Z else (Z.log2 (Z.abs m) + 1)%Z.

(* types.spendSize(x, asJSON, indent = 0, depth, budget): every value costs 1 (since e7a2eae however deep it is nested:
   the depth argument is kept for the indentation that format() charges, which is not modelled); a text its bytes, a number the digits of its coefficient (a third of its bits) and its exponent, a
   property its name. An object with a default is written as that default, and as JSON also with its properties.
   The walk in the code stops as soon as the budget is negative; all the costs are non-negative, so its verdict is
   "the total is at most the budget". *)
Fixpoint value_cost (as_json : bool) (depth : Z) (v : value) : Z :=
  (1 +
   match v with
   | VText s => byte_len s
   | VNum d => bit_len (mant d) / 3 + Z.abs (dexp d)
   | VArray items =>
       (fix go (l : list value) : Z :=
          match l with [] => 0 | x :: r => value_cost as_json (depth + 1) x + go r end) items
   | VObject def props =>
       match def with Some d => value_cost as_json depth d | None => 0 end +
       match def, as_json with
       | Some _, false => 0
       | _, _ => (fix go (l : list (text * value)) : Z :=
                    match l with
                    | [] => 0
                    | (k, x) :: r => byte_len k + value_cost as_json (depth + 1) x + go r
                    end) props
       end
   | _ => 0
   end)%Z.

(* types.MaxRenderSize, CheckRenderSize *)
Definition max_render_size : Z := 1000000%Z.
Definition too_large (as_json : bool) (v : value) : bool := (max_render_size <? value_cost as_json 0 v)%Z.

(* ------------------------------------------------------------------------------------------------ *)
(* conversions *)

(* ToXText: nil is the empty text, an error is returned, a text is itself whatever its length (18919b0), a value too
   large to write is an error, else Render *)
Definition to_text (v : value) : conv text :=
  match v with
  | VNil => Ok []
  | VErr => Bad
  | VText s => Ok s
  | _ => if too_large false v then Bad else Ok (render_value v)
  end.

Fixpoint to_number (v : value) : conv dec :=
  match v with
  | VNum d => Ok d
  | VText s => match parse_number s with Some d => Ok d | None => Bad end
  | VObject (Some d) _ => to_number d
  | _ => Bad
  end.

(* big.Int.Int64(): int64(low64(|x|)), negated (in int64 arithmetic) when x < 0 *)
Definition two63 : Z := 9223372036854775808%Z.
Definition two64 : Z := 18446744073709551616%Z.
Definition as_int64 (u : Z) : Z := let m := (u mod two64)%Z in if (m <? two63)%Z then m else (m - two64)%Z.
Definition bigint_int64 (x : Z) : Z :=
  let v := as_int64 (Z.abs x) in if (x <? 0)%Z then as_int64 (- v) else v.

(* Decimal.rescale(0).value: truncation toward zero when the exponent is negative *)
Definition dec_trunc (d : dec) : Z :=
  if (0 <=? dexp d)%Z then (mant d * 10 ^ dexp d)%Z else Z.quot (mant d) (10 ^ (- dexp d)).

(* Decimal.IntPart() *)
Definition int_part (d : dec) : Z := bigint_int64 (dec_trunc d).

(* types.ToInteger: the int32 range test is applied to the WRAPPED int64 *)
Definition to_integer (v : value) : conv Z :=
  match to_number v with
  | Bad => Bad
  | Ok d => let i := int_part d in
            if ((i <? int32_min) || (int32_max <? i))%Z then Bad else Ok i
  end.

Definition dec_is_zero (d : dec) : bool := (mant d =? 0)%Z.

Fixpoint truthy (v : value) : bool :=
  match v with
  | VNil => false
  | VErr => false
  | VText s => negb (match s with [] => true | _ => false end) && negb (text_eqb (lower s) t_false)
  | VNum d => negb (dec_is_zero d)
  | VBool b => b
  | VArray items => negb (match items with [] => true | _ => false end)
  | VObject (Some d) _ => truthy d
  | VObject None props => negb (match props with [] => true | _ => false end)
  | VFunc _ _ => true
  | VOpaque _ _ => true            (* XDateTime/XDate: !IsZero; XTime: != midnight -- kept out of the compared inputs *)
  end.

Definition to_bool (v : value) : conv bool :=
  match v with VNil => Ok false | VErr => Bad | _ => Ok (truthy v) end.

Definition to_array (v : value) : conv (list value) :=
  match v with VNil => Ok [] | VArray items => Ok items | _ => Bad end.

Definition to_object (v : value) : conv (option value * list (text * value)) :=
  match v with VNil => Ok (None, []) | VObject d p => Ok (d, p) | _ => Bad end.

Definition to_function (v : value) : conv fname :=
  match v with VFunc f _ => Ok f | _ => Bad end.

(* XObject.Get: case-insensitive; of several matching keys the smallest (props are sorted, so the first) *)
Fixpoint obj_get (props : list (text * value)) (key : text) : option value :=
  match props with
  | [] => None
  | (k, v) :: r => if text_eqb (lower k) (lower key) then Some v else obj_get r key
  end.

(* map assignment result[prop] = value, kept sorted and duplicate-free *)
Fixpoint obj_set (props : list (text * value)) (key : text) (v : value) : list (text * value) :=
  match props with
  | [] => [(key, v)]
  | (k, x) :: r => if text_eqb k key then (key, v) :: r
                   else if text_ltb key k then (key, v) :: props
                   else (k, x) :: obj_set r key v
  end.

(* NewXObject(map): the "__default__" entry becomes the default *)
Definition new_object (m : list (text * value)) : value :=
  VObject (obj_get (filter (fun kv => text_eqb (fst kv) t_default_key) m) t_default_key)
          (filter (fun kv => negb (text_eqb (fst kv) t_default_key)) m).

(* ------------------------------------------------------------------------------------------------ *)
(* partial Go primitives: each returns None where Go panics *)

(* s[i] *)
Definition go_index {A} (l : list A) (i : Z) : option A :=
  if (i <? 0)%Z then None else nth_error l (Z.to_nat i).

(* s[lo:hi] *)
Definition go_slice {A} (l : list A) (lo hi : Z) : option (list A) :=
  if ((0 <=? lo) && (lo <=? hi) && (hi <=? Z.of_nat (length l)))%Z
  then Some (firstn (Z.to_nat (hi - lo)) (skipn (Z.to_nat lo) l)) else None.

(* s[lo:] *)
Definition go_slice_from {A} (l : list A) (lo : Z) : option (list A) := go_slice l lo (Z.of_nat (length l)).

(* ------------------------------------------------------------------------------------------------ *)
(* decimal arithmetic (exact) *)

Definition dec_neg (d : dec) : dec := Dec (- mant d) (dexp d).

Definition dec_add (a b : dec) : dec :=
  let e := Z.min (dexp a) (dexp b) in
  Dec (mant a * 10 ^ (dexp a - e) + mant b * 10 ^ (dexp b - e)) e.

Definition dec_sub (a b : dec) : dec := dec_add a (dec_neg b).

(* Decimal.Mul: panics "exponent overflows an int32" *)
Definition dec_mul (a b : dec) : option dec :=
  let e := (dexp a + dexp b)%Z in
  if in_int32 e then Some (Dec (mant a * mant b) e) else None.

(* Decimal.rescale(exp) *)
Definition dec_rescale (d : dec) (e : Z) : dec :=
  if (dexp d =? e)%Z then d
  else if (dexp d <? e)%Z then Dec (Z.quot (mant d) (10 ^ (e - dexp d))) e
  else Dec (mant d * 10 ^ (dexp d - e)) e.

(* Decimal.Round(places): half away from zero *)
Definition dec_round (d : dec) (places : Z) : dec :=
  if (dexp d =? - places)%Z then d
  else
    let r := dec_rescale d (- places - 1) in
    let m := if (mant r <? 0)%Z then (mant r - 5)%Z else (mant r + 5)%Z in
    Dec (Z.quot m 10) (- places).

(* Decimal.QuoRem(d2, precision): panics on a zero divisor and on exponent overflow.
   Result: truncated quotient at 10^-precision and the remainder *)
Definition dec_quorem (a b : dec) (precision : Z) : pclass + (dec * dec) :=
  if (mant b =? 0)%Z then inl PDivZero
  else
    let scale := (- precision)%Z in
    let e := (dexp a - dexp b - scale)%Z in
    if negb (in_int32 e) then inl PExponent
    else
      inr (if (e <? 0)%Z
           then (Dec (Z.quot (mant a) (mant b * 10 ^ (- e))) scale, Dec (Z.rem (mant a) (mant b * 10 ^ (- e))) (dexp a))
           else (Dec (Z.quot (mant a * 10 ^ e) (mant b)) scale, Dec (Z.rem (mant a * 10 ^ e) (mant b)) (scale + dexp b)))%Z.

(* Decimal.Mod = remainder of QuoRem(d2, 0) *)
Definition dec_mod (a b : dec) : pclass + dec :=
  match dec_quorem a b 0 with inr (_, r) => inr r | inl c => inl c end.

(* Decimal.DivRound(d2, precision) (Div = DivRound with DivisionPrecision = 16) *)
Definition dec_div_round (a b : dec) (precision : Z) : pclass + dec :=
  match dec_quorem a b precision with
  | inl c => inl c
  | inr (q, r) =>
      (* rv2 = |2 r| at exponent r.exp + precision, compared with |b|; round half away from zero *)
      let r2 := Dec (Z.abs (2 * mant r)) (dexp r + precision) in
      let babs := Dec (Z.abs (mant b)) (dexp b) in
      match dec_cmp r2 babs with
      | Lt => inr q
      | _ => let up := if Z.eqb (Z.sgn (mant a) * Z.sgn (mant b)) (-1) then (-1)%Z else 1%Z in
             inr (Dec (mant q + up) (dexp q))
      end
  end.

Definition division_precision : Z := 16%Z.
Definition dec_div (a b : dec) : pclass + dec := dec_div_round a b division_precision.

Definition dec_of_Z (z : Z) : dec := Dec z 0.

(* number of cells of the exact representation: what arithmetic on the number touches *)
Definition dec_size (d : dec) : N := (N.of_nat (length (digits (Z.abs_N (mant d)))) + Z.abs_N (dexp d))%N.
