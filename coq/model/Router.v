(* Router.v — model of goflow's routers and of the engine's exit selection (property C07).

   Transcribed from
     flows/routers/switch.go    SwitchRouter.Route, SwitchRouter.matchCase
     flows/routers/base.go      baseRouter.RouteTimeout, baseRouter.routeToCategory, baseRouter.routeVia, AllowTimeout
     flows/routers/random.go    RandomRouter.Route
     flows/results.go           Results.Save (changed-rule)
     flows/runs/run.go          run.SaveResult (value truncation), run.EvaluateTemplateValue (event logging)
     flows/engine/session.go    session.pickNodeExit, the segment rule of continueUntilWait,
                                error handling of visitNode (start) / tryToResume (resume)
     gocommon random.Decimal, shopspring decimal Mul / IntPart / String (only as far as RandomRouter uses them)

   External behaviour enters as Section variables (universally quantified in every theorem):
     value        the type of Excellent values (types.XValue)
     eval_tpl     run.EvaluateTemplateValue: template text |-> value, "an error event was logged", number of warnings
     to_xtext     types.ToXText: None = it fails - the value is an XError, or its rendering exceeds MaxRenderSize -
                  (Go then uses the empty text); nil |-> Some ""
     registered   cases.XTESTS[strings.ToLower(type)] != nil
     test         XFunction.Call of the registered test on operand :: arguments
     lc           the run's localisation context (contact language, allowed languages, flow base language)
     max_result_chars   engine option MaxResultChars (cut of the saved VALUE, run.SaveResult)
     max_template_chars engine option MaxTemplateChars (cut of the saved INPUT, routeVia; negative = 0)
   Localisation is model/Lang.v (property C18): case_arguments, category_localized.

   UUIDs are numbers, 0 is the empty string.  No proofs in this file. *)

From Coq Require Import List NArith Bool.
From Verif Require Import model.Lang.
Import ListNotations.
Open Scope N_scope.

Definition uuid := N.
Definition no_uuid : uuid := 0.
Definition test_id := N.

Record lctx := { lc_contact : lang; lc_allowed : list lang; lc_base : lang }.

(* ---- definitions (flows/routers: Category, Case, baseRouter, SwitchRouter, RandomRouter; definition.node/exit) *)

Record category := { c_uuid : uuid; c_name : text; c_exit : uuid;
                     c_tr_name : translations (* localization[*][c_uuid]["name"] *) }.

Record case_def := { k_test : test_id; k_args : list text;
                     k_tr_args : translations (* localization[*][case uuid]["arguments"] *);
                     k_cat : uuid }.

Record exit_def := { e_uuid : uuid; e_dest : uuid }.

Record base_router := {
  b_result_name : text;
  b_categories : list category;
  b_timeout : option uuid      (* Some c: the router has a wait with a timeout whose category is c *)
}.

Inductive router :=
| Switch (b : base_router) (operand : text) (cases : list case_def) (default : uuid)
| Random (b : base_router).

Definition router_base (r : router) : base_router :=
  match r with Switch b _ _ _ => b | Random b => b end.

Record node := { n_router : option router; n_exits : list exit_def }.

(* ---- run results and events ------------------------------------------------------------------ *)

Record result := { r_name : text; r_value : text; r_category : text; r_category_localized : text;
                   r_input : text; r_extra : option text (* marshalled JSON *) }.

Inductive event :=
| EvTplError                       (* error event logged by EvaluateTemplateValue *)
| EvTplWarning                     (* warning event logged by EvaluateTemplateValue *)
| EvTestError (t : test_id)        (* "error calling test ..." *)
| EvNonObjectExtra (t : test_id)   (* "test ... returned non-object extra" *)
| EvOperandTextError               (* default branch: ToXText(operand) failed *)
| EvResultChanged (r : result)     (* run_result_changed *)
| EvFailure.                       (* failure event of failRun *)

(* ---- small helpers ---------------------------------------------------------------------------- *)

Fixpoint txt_eqb (a b : text) : bool :=
  match a, b with
  | [], [] => true
  | x :: a', y :: b' => N.eqb x y && txt_eqb a' b'
  | _, _ => false
  end.

(* stringsx.Truncate(s, limit): the first limit runes when longer *)
Definition truncate (limit : nat) (t : text) : text :=
  if Nat.leb (length t) limit then t else firstn limit t.

(* utils.TruncateEllipsis(s, limit): a limit too small for the ellipsis just cuts; otherwise the first limit-3 runes
   and "..." when longer *)
Definition truncate_ellipsis (limit : nat) (t : text) : text :=
  if Nat.ltb limit 3 then truncate limit t
  else if Nat.leb (length t) limit then t else firstn (limit - 3) t ++ [46; 46; 46].

(* len() of the UTF-8 encoding *)
Definition utf8_len1 (c : N) : N :=
  if N.ltb c 128 then 1 else if N.ltb c 2048 then 2 else if N.ltb c 65536 then 3 else 4.

Fixpoint utf8_len (t : text) : N :=
  match t with [] => 0 | c :: rest => utf8_len1 c + utf8_len rest end.

(* routeVia: a marshalled extra of resultExtraMaxBytes (10000) bytes or more is not kept *)
Definition result_extra_max_bytes : N := 10000.

Definition bound_extra (x : option text) : option text :=
  match x with
  | Some j => if N.leb result_extra_max_bytes (utf8_len j) then None else Some j
  | None => None
  end.

(* the loop of routeToCategory: first category with the UUID *)
Fixpoint find_category (cats : list category) (u : uuid) : option category :=
  match cats with
  | [] => None
  | c :: rest => if N.eqb (c_uuid c) u then Some c else find_category rest u
  end.

(* the loop of pickNodeExit: first exit with the UUID *)
Fixpoint find_exit (exits : list exit_def) (u : uuid) : option exit_def :=
  match exits with
  | [] => None
  | e :: rest => if N.eqb (e_uuid e) u then Some e else find_exit rest u
  end.

(* Results.Save: an event is due when there was no result under the key or value/category differ *)
Definition result_changed (prev : option result) (r : result) : bool :=
  match prev with
  | None => true
  | Some old => negb (txt_eqb (r_value old) (r_value r)) || negb (txt_eqb (r_category old) (r_category r))
  end.

(* fmt.Sprintf("%d", n) *)
Fixpoint digits_fuel (fuel : nat) (n : N) (acc : text) : text :=
  match fuel with
  | O => acc
  | S f => let acc' := (48 + n mod 10) :: acc in
           if N.eqb (n / 10) 0 then acc' else digits_fuel f (n / 10) acc'
  end.

Definition N_to_text (n : N) : text := digits_fuel (S (N.to_nat (N.log2 n))) n [].

(* ---- baseRouter.RouteTimeout: the time it records --------------------------------------------------------------
   The Go loop runs over run.Events() from the last event to the first and assigns timedOutOn at EVERY
   wait_timed_out event, without leaving the loop: what remains is the time of the run's FIRST wait_timed_out event
   (the comment in base.go says "last").  [times] are the formatted creation times of the run's wait_timed_out events,
   oldest first; without any, the zero time is formatted (unreachable: a timeout resume logs the event before routing). *)
Definition zero_time_text : text :=       (* "0001-01-01T00:00:00.000000Z" *)
  [48; 48; 48; 49; 45; 48; 49; 45; 48; 49; 84; 48; 48; 58; 48; 48; 58; 48; 48; 46; 48; 48; 48; 48; 48; 48; 90].

Definition scan_timeouts (times : list text) : text :=
  fold_left (fun (_ : text) (t : text) => t) (rev times) zero_time_text.

(* ---- the random draw: random.Decimal() is a decimal d_mant * 10^(-d_scale) ---------------------- *)

Record draw := { d_mant : N; d_scale : N }.

(* rand.Mul(decimal.New(n, 0)).IntPart(): (mant*n, exp) rescaled to exponent 0 by big.Int.Quo *)
Definition random_index (d : draw) (n : N) : N := (d_mant d * n) / 10 ^ d_scale d.

Fixpoint trim_zeros_rev (r : text) : text :=       (* on the reversed fractional part *)
  match r with
  | 48 :: rest => trim_zeros_rev rest
  | _ => r
  end.

(* Decimal.String() for a non-negative decimal with exponent <= 0 *)
Definition draw_text (d : draw) : text :=
  let str := N_to_text (d_mant d) in
  if N.eqb (d_scale d) 0 then str else
  let k := N.to_nat (d_scale d) in
  let len := length str in
  let '(ip, fp) := if Nat.ltb k len then (firstn (len - k) str, skipn (len - k) str)
                   else ([48], repeat 48 (k - len) ++ str) in
  let fp' := rev (trim_zeros_rev (rev fp)) in
  match fp' with [] => ip | _ => ip ++ 46 :: fp' end.

Section Router.

Variable value : Type.

(* what a test function can hand back to matchCase's type switch *)
Inductive extra_v :=
| ExAbsent                          (* no "extra" property: Get returns nil *)
| ExObject (json : option text)     (* *types.XObject; None = typed nil pointer (nothing is marshalled) *)
| ExOther.                          (* any other value: logged as non-object extra *)

Inductive test_result :=
| TError                                                    (* *types.XError *)
| TObject (truthy : bool) (mtch : option value) (extra : extra_v)   (* *types.XObject; mtch = Get("match") *)
| TOther.                                                   (* anything else: matchCase panics *)

Variable eval_tpl : text -> value * (bool * nat).
Variable to_xtext : value -> option text.
Variable registered : test_id -> bool.
Variable test : test_id -> value -> list value -> test_result.
Variable lc : lctx.
Variable max_result_chars : nat.
Variable max_template_chars : nat.

(* events logged by one EvaluateTemplateValue call: the error first, then the warnings *)
Definition tpl_events (e : bool * nat) : list event :=
  (if fst e then [EvTplError] else []) ++ repeat EvTplWarning (snd e).

(* types.ToXText applied to an optional value (nil |-> "") *)
Definition opt_to_xtext (v : option value) : option text :=
  match v with None => Some [] | Some x => to_xtext x end.

(* .Native() of the text ToXText returns: XTextEmpty on error *)
Definition text_or_empty (o : option text) : text := match o with Some t => t | None => [] end.

(* the argument loop of matchCase *)
Fixpoint eval_args (ts : list text) : list value * list event :=
  match ts with
  | [] => ([], [])
  | t :: rest =>
      let '(v, e) := eval_tpl t in
      let '(vs, evs) := eval_args rest in
      (v :: vs, tpl_events e ++ evs)
  end.

Definition localized_args (c : case_def) : list text :=
  case_arguments (lc_contact lc) (lc_allowed lc) (lc_base lc) (k_args c) (k_tr_args c).

Definition extra_json (x : extra_v) : option text :=
  match x with ExObject j => j | _ => None end.

(* ---- SwitchRouter.matchCase -------------------------------------------------------------------- *)

Inductive match_res :=
| MError                                              (* Go error: unknown test / ToXText(match) failed *)
| MPanic                                              (* unexpected result type *)
| MNone                                               (* "", "", nil, nil *)
| MFound (mtch : text) (cat : uuid) (extra : option text).

Fixpoint match_case (operand : value) (cs : list case_def) : list event * match_res :=
  match cs with
  | [] => ([], MNone)
  | c :: rest =>
      if negb (registered (k_test c)) then ([], MError) else
      let '(args, evs) := eval_args (localized_args c) in
      match test (k_test c) operand args with
      | TError =>
          let '(evs', r) := match_case operand rest in
          (evs ++ EvTestError (k_test c) :: evs', r)
      | TObject false _ _ =>
          let '(evs', r) := match_case operand rest in
          (evs ++ evs', r)
      | TObject true m x =>
          let evx := match x with ExOther => [EvNonObjectExtra (k_test c)] | _ => [] end in
          match opt_to_xtext m with
          | None => (evs ++ evx, MError)
          | Some t => (evs ++ evx, MFound t (k_cat c) (extra_json x))
          end
      | TOther => (evs, MPanic)
      end
  end.

(* ---- what a router hands back to pickNodeExit --------------------------------------------------- *)

Inductive route_res :=
| RError                                  (* non-nil Go error *)
| RPanic
| RExit (exit : uuid) (operand : text).   (* exit may be no_uuid: "failed to pick a category" *)

Record route_out := { ro_res : route_res; ro_saved : option result; ro_events : list event }.

(* ---- baseRouter.routeToCategory ------------------------------------------------------------------ *)

(* routeVia: leave through a given category, saving the result when the router has a result name *)
Definition route_via (b : base_router) (prev : option result) (c : category)
           (mtch operand : text) (extra : option text) (evs : list event) : route_out :=
  match b_result_name b with
  | [] => {| ro_res := RExit (c_exit c) operand; ro_saved := None; ro_events := evs |}
  | name =>
      let r := {| r_name := name; r_value := truncate max_result_chars mtch;
                  r_category := c_name c;
                  r_category_localized :=
                    category_localized (lc_contact lc) (lc_allowed lc) (lc_base lc) (c_tr_name c);
                  r_input := truncate_ellipsis max_template_chars operand; r_extra := bound_extra extra |} in
      {| ro_res := RExit (c_exit c) operand; ro_saved := Some r;
         ro_events := evs ++ (if result_changed prev r then [EvResultChanged r] else []) |}
  end.

Definition route_to_category (b : base_router) (prev : option result) (cat : uuid)
           (mtch operand : text) (extra : option text) (evs : list event) : route_out :=
  if N.eqb cat no_uuid then {| ro_res := RExit no_uuid operand; ro_saved := None; ro_events := evs |} else
  match find_category (b_categories b) cat with
  | None => {| ro_res := RError; ro_saved := None; ro_events := evs |}
  | Some c => route_via b prev c mtch operand extra evs
  end.

(* ---- SwitchRouter.Route ------------------------------------------------------------------------- *)

Definition route_switch (b : base_router) (operand_tpl : text) (cases : list case_def) (default : uuid)
           (prev : option result) : route_out :=
  let '(operand, e0) := eval_tpl operand_tpl in
  (* operandAsStr: "" for nil and (ToXText's XTextEmpty) for an error value *)
  let operand_str := text_or_empty (to_xtext operand) in
  let '(evs1, m) := match_case operand cases in
  let evs := tpl_events e0 ++ evs1 in
  match m with
  | MError => {| ro_res := RError; ro_saved := None; ro_events := evs |}
  | MPanic => {| ro_res := RPanic; ro_saved := None; ro_events := evs |}
  | _ =>
      let '(mtch, cat, extra) :=
        match m with MFound t c x => (t, c, x) | _ => ([], no_uuid, None) end in
      (* "none of our cases matched, so try to use the default": decided on the category UUID alone *)
      if N.eqb cat no_uuid && negb (N.eqb default no_uuid) then
        let evs' := evs ++ (match to_xtext operand with None => [EvOperandTextError] | Some _ => [] end) in
        route_to_category b prev default operand_str operand_str extra evs'
      else
        route_to_category b prev cat mtch operand_str extra evs
  end.

(* ---- baseRouter.RouteTimeout: timed_out_on is what scan_timeouts makes of the run's wait_timed_out events ---- *)

Definition route_timeout (b : base_router) (timed_out_on : text) (prev : option result) : route_out :=
  match b_timeout b with
  | None => {| ro_res := RError; ro_saved := None; ro_events := [] |}
  | Some cat => route_to_category b prev cat timed_out_on [] None []
  end.

(* ---- RandomRouter.Route ---------------------------------------------------------------------------- *)

Definition route_random (b : base_router) (d : draw) (prev : option result) : route_out :=
  let idx := random_index d (N.of_nat (length (b_categories b))) in
  match nth_error (b_categories b) (N.to_nat idx) with
  | None => {| ro_res := RPanic; ro_saved := None; ro_events := [] |}      (* index out of range *)
  | Some c => route_via b prev c (N_to_text idx) (draw_text d) None []      (* the category drawn, not looked up again *)
  end.

Definition route (r : router) (d : draw) (prev : option result) : route_out :=
  match r with
  | Switch b operand cases default => route_switch b operand cases default prev
  | Random b => route_random b d prev
  end.

(* ---- session.pickNodeExit --------------------------------------------------------------------------- *)

Inductive pick_kind :=
| PkError      (* "error routing from node ..." *)
| PkPanic
| PkFailed     (* failRun: router failed to pick a category *)
| PkLeft.      (* step.Leave(exitUUID) *)

Record pick_out := {
  po_kind : pick_kind;
  po_step_exit : uuid;            (* step.exit_uuid afterwards (no_uuid: the step was not left) *)
  po_exit : option exit_def;      (* the exit handed to continueUntilWait *)
  po_operand : text;
  po_saved : option result;
  po_events : list event
}.

Definition pick_node_exit (nd : node) (is_timeout : bool) (d : draw) (timed_out_on : text)
           (prev : option result) : pick_out :=
  let leave (u : uuid) (operand : text) (saved : option result) (evs : list event) :=
    match find_exit (n_exits nd) u with
    | Some e => {| po_kind := PkLeft; po_step_exit := u; po_exit := Some e; po_operand := operand;
                   po_saved := saved; po_events := evs |}
    | None => {| po_kind := PkLeft; po_step_exit := u; po_exit := None; po_operand := [];
                 po_saved := saved; po_events := evs |}
    end in
  match n_router nd with
  | Some r =>
      let out := if is_timeout then route_timeout (router_base r) timed_out_on prev else route r d prev in
      match ro_res out with
      | RError => {| po_kind := PkError; po_step_exit := no_uuid; po_exit := None; po_operand := [];
                     po_saved := ro_saved out; po_events := ro_events out |}
      | RPanic => {| po_kind := PkPanic; po_step_exit := no_uuid; po_exit := None; po_operand := [];
                     po_saved := ro_saved out; po_events := ro_events out |}
      | RExit u operand =>
          if N.eqb u no_uuid then
            {| po_kind := PkFailed; po_step_exit := no_uuid; po_exit := None; po_operand := [];
               po_saved := ro_saved out; po_events := ro_events out ++ [EvFailure] |}
          else leave u (if is_timeout then [] else operand) (ro_saved out) (ro_events out)
      end
  | None =>
      let u := match n_exits nd with [] => no_uuid | e :: _ => e_uuid e end in
      leave u [] None []
  end.

(* ---- what the callers make of it ---------------------------------------------------------------------- *)

(* continueUntilWait: a segment (exit, operand, destination) is logged when the exit has a destination
   that is a node of the flow *)
Definition segment_of (flow_nodes : list uuid) (p : pick_out) : option (uuid * text * uuid) :=
  match po_exit p with
  | Some e =>
      if negb (N.eqb (e_dest e) no_uuid) && existsb (N.eqb (e_dest e)) flow_nodes
      then Some (e_uuid e, po_operand p, e_dest e) else None
  | None => None
  end.

(* where pickNodeExit is called from: visitNode (start or continuing sprint) or findResumeExit (resume; also used when
   a parent run is resumed after its sub-flow ended, where an error fails the run just as at a resume) *)
Inductive call_site := AtVisit | AtResume.

Inductive node_outcome :=
| NEngineError     (* the engine call returns a Go error *)
| NPanic
| NRunFailed       (* run (and with it the session) failed, failure event logged *)
| NLeft.

Record visit_out := {
  vo_outcome : node_outcome;
  vo_step_exit : uuid;
  vo_segment : option (uuid * text * uuid);
  vo_saved : option result;
  vo_events : list event
}.

Definition visit (site : call_site) (flow_nodes : list uuid) (nd : node) (is_timeout : bool) (d : draw)
           (timed_out_on : text) (prev : option result) : visit_out :=
  let p := pick_node_exit nd is_timeout d timed_out_on prev in
  match po_kind p with
  | PkError =>
      match site with
      | AtVisit => {| vo_outcome := NEngineError; vo_step_exit := no_uuid; vo_segment := None;
                      vo_saved := po_saved p; vo_events := po_events p |}
      | AtResume => (* tryToResume: failSession("unable to resolve router exit ...") *)
                    {| vo_outcome := NRunFailed; vo_step_exit := no_uuid; vo_segment := None;
                       vo_saved := po_saved p; vo_events := po_events p ++ [EvFailure] |}
      end
  | PkPanic => {| vo_outcome := NPanic; vo_step_exit := no_uuid; vo_segment := None;
                  vo_saved := po_saved p; vo_events := po_events p |}
  | PkFailed => {| vo_outcome := NRunFailed; vo_step_exit := po_step_exit p; vo_segment := None;
                   vo_saved := po_saved p; vo_events := po_events p |}
  | PkLeft => {| vo_outcome := NLeft; vo_step_exit := po_step_exit p; vo_segment := segment_of flow_nodes p;
                 vo_saved := po_saved p; vo_events := po_events p |}
  end.

End Router.

Arguments TError {value}.
Arguments TObject {value} truthy mtch extra.
Arguments TOther {value}.
