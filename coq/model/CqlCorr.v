(* CqlCorr.v — comparison of model/CqlPrinter.v + model/CqlParser.v with observations of the real contactql
   package (written by harness/cmd/c14, streams "text", "tree", "inject").  No proofs.

   Every case carries the tables with which the external functions of [penv] and the IsPrint argument of the
   printer are instantiated; the harness fills them by calling the real functions on the strings that occur in
   the case (token texts, their lower-cased and unquoted forms, the trimmed query text). *)
From Coq Require Import List NArith Bool.
From Verif Require Import lib.Quote lib.RegexLM model.CqlSyntax gen.GrammarCQL model.CqlPrinter model.CqlParser.
Import ListNotations.
Open Scope N_scope.

Record cworld := {
  cw_redact : bool;
  cw_lower : list (N * N);                 (* code points that unicode.ToLower changes *)
  cw_printable : list N;                   (* code points (among those that occur) with unicode.IsPrint *)
  cw_phone : list (text * text);           (* trimmed text |-> utils.ParsePhoneNumber, when non-empty *)
  cw_urn : list (text * (text * text));    (* value |-> scheme, path of urns.Parse, when a URN *)
  cw_schemes : list text;                  (* urns.IsValidScheme holds *)
  cw_tokens : list (text * list text)      (* utils.TokenizeStringByUnicodeSeg *)
}.

Fixpoint assocN (k : N) (l : list (N * N)) : option N :=
  match l with
  | [] => None
  | (k', x) :: r => if N.eqb k k' then Some x else assocN k r
  end.

Definition text_in (s : text) (l : list text) : bool := existsb (text_eqb s) l.

Definition penv_of (w : cworld) : penv := {|
  pe_redact := cw_redact w;
  pe_lower := fun c => match assocN c (cw_lower w) with Some x => x | None => c end;
  pe_phone := fun s => lookup s (cw_phone w);
  pe_urn := fun s => lookup s (cw_urn w);
  pe_valid_scheme := fun s => text_in s (cw_schemes w);
  pe_tokens := fun s => match lookup s (cw_tokens w) with Some l => l | None => [] end;
  pe_valid := fun _ _ _ _ => true
|}.

Definition printable_of (w : cworld) (c : N) : bool := existsb (N.eqb c) (cw_printable w).

Inductive pobs :=
| OSyntax                               (* ParseQuery: syntax error *)
| OVisit (e : verr)                     (* ParseQuery: visitor error *)
| OInvalid                              (* ParseQuery: an error from validate *)
| OOk (root : node) (printed : text)    (* ParseQuery: the root and ContactQuery.String() *)
| OSkip.                                (* a STRING literal unquotes to invalid UTF-8: outside the model *)

Record ccase := {
  k_world : cworld;
  k_tree : option node;              (* a tree built with NewCondition / NewBoolCombination; k_text is its Stringify *)
  k_text : text;                     (* the text given to ParseQuery *)
  k_lexed : option (list token);     (* the generated lexer's tokens for k_text itself (hidden-channel-free: WS is skipped) *)
  k_obs : pobs
}.

Definition verr_eqb (a b : verr) : bool :=
  match a, b with
  | ERedactedURNs, ERedactedURNs | EUnknownPropertyType, EUnknownPropertyType => true
  | _, _ => false
  end.

Definition onode_eqb (a b : option node) : bool :=
  match a, b with
  | None, None => true
  | Some x, Some y => node_eqb x y
  | _, _ => false
  end.

Fixpoint tokens_eqb (a b : list token) : bool :=
  match a, b with
  | [], [] => true
  | (k, t) :: a', (k', t') :: b' => tkind_eqb k k' && text_eqb t t' && tokens_eqb a' b'
  | _, _ => false
  end.

Definition check (k : ccase) : bool :=
  let e := penv_of (k_world k) in
  let pr := printable_of (k_world k) in
  match k_tree k with Some t => text_eqb (stringify pr (Some t)) (k_text k) | None => true end
  && match k_lexed k with
     | Some ts => match cql_lex (k_text k) with LexOk ts' => tokens_eqb ts ts' | _ => false end
     | None => true
     end
  && match k_obs k, parse_front e (k_text k) with
     | OSkip, _ => true
     | OSyntax, FSyntax => true
     | OVisit er, FVisit er' => verr_eqb er er'
     | OInvalid, FTree _ => true
     | OOk root printed, FTree n =>
         onode_eqb (simplify n) (Some root) && text_eqb (stringify pr (Some root)) printed
     | _, _ => false
     end.

Fixpoint mismatches_from (i : N) (ks : list ccase) : list N :=
  match ks with
  | [] => []
  | k :: rest => (if check k then [] else [i]) ++ mismatches_from (i + 1) rest
  end.

Definition mismatches (ks : list ccase) : list N := mismatches_from 0 ks.
