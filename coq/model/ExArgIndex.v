(* ExArgIndex.v — vocabulary of the source-derived tables of C04 (coq/gen/ArgIndex.v, written by
   translators/cmd/argindex from excellent/functions/builtin.go, wrappers.go and flows/routers/cases/tests.go)
   and the decision procedure [site_ok] that a constant index into the argument slice is in range for every
   argument count its registration admits.  No proofs here (proofs/ExArgIndexProofs.v).

   A registration  "word": InitialTextFunction(1, 2, Word)  becomes
       Reg "word" "InitialTextFunction" 2 3 1 "Word"
   (the wrapper admits 2..3 arguments, consumes 1 and hands args[1:] to Word).  A site  args[1]  in Word under
   `if len(args) == 2 && ...`  becomes  Site "Word" line SIndex 1 [GCmp CEq 2].  Sites inside the
   wrappers' own closures are listed under the name "wrapper:<Wrapper>". *)
From Coq Require Import ZArith List Bool String.
Import ListNotations.
Open Scope Z_scope.

Inductive cmp := CEq | CNe | CLt | CLe | CGt | CGe.

(* what is known about len(args) where the site sits: the conditions of the enclosing ifs, negated in else
   branches and after early returns *)
Inductive guard :=
| GTrue
| GCmp (c : cmp) (n : Z)                  (* len(args) <c> n *)
| GNot (g : guard)
| GAnd (a b : guard)
| GOr (a b : guard).

Inductive skind := SIndex | SSliceFrom.          (* args[k]  |  args[k:] *)

Record site := Site { s_fn : string; s_line : Z; s_kind : skind; s_k : Z; s_guards : list guard }.

(* r_max < 0: no maximum.  r_shift < 0: the body does not receive the argument slice *)
Record reg := Reg { r_name : string; r_wrapper : string; r_min : Z; r_max : Z; r_shift : Z; r_body : string }.

Definition cmp_holds (c : cmp) (n m : Z) : bool :=
  match c with
  | CEq => n =? m | CNe => negb (n =? m) | CLt => n <? m | CLe => n <=? m | CGt => m <? n | CGe => m <=? n
  end.

Fixpoint guard_holds (n : Z) (g : guard) : bool :=
  match g with
  | GTrue => true
  | GCmp c m => cmp_holds c n m
  | GNot a => negb (guard_holds n a)
  | GAnd a b => guard_holds n a && guard_holds n b
  | GOr a b => guard_holds n a || guard_holds n b
  end.

Fixpoint guard_max (g : guard) : Z :=
  match g with
  | GTrue => 0
  | GCmp _ m => Z.abs m
  | GNot a => guard_max a
  | GAnd a b | GOr a b => Z.max (guard_max a) (guard_max b)
  end.

Definition in_range (s : site) (n : Z) : bool :=
  match s_kind s with
  | SIndex => (0 <=? s_k s) && (s_k s <? n)
  | SSliceFrom => (0 <=? s_k s) && (s_k s <=? n)
  end.

(* beyond every constant that occurs in the site the guards no longer change: checking up to this many
   argument counts past the minimum decides the unbounded case (proofs/ExArgIndexProofs.v) *)
Definition horizon (s : site) : Z := fold_right (fun g a => Z.max (guard_max g) a) (Z.abs (s_k s)) (s_guards s) + 2.

Definition wrapper_tag (w : string) : string := ("wrapper:" ++ w)%string.

(* how many leading arguments are gone when control reaches the function the site is in *)
Definition site_shift (s : site) (r : reg) : option Z :=
  if String.eqb (s_fn s) (wrapper_tag (r_wrapper r)) then Some 0
  else if String.eqb (s_fn s) (r_body r) && (0 <=? r_shift r) then Some (r_shift r)
  else None.

Fixpoint zrange (lo : Z) (count : nat) : list Z :=
  match count with O => [] | S c => lo :: zrange (lo + 1) c end.

Definition admitted_counts (s : site) (r : reg) : list Z :=
  let hi := if r_max r <? 0 then Z.max (r_min r) 0 + Z.max (r_shift r) 0 + horizon s else r_max r in
  zrange (r_min r) (Z.to_nat (hi - r_min r + 1)).

Definition site_ok_for (s : site) (r : reg) : bool :=
  match site_shift s r with
  | None => true
  | Some sh =>
      forallb (fun total => let n := total - sh in
                            implb (forallb (guard_holds n) (s_guards s)) (in_range s n))
              (admitted_counts s r)
  end.

Definition site_ok (regs : list reg) (s : site) : bool := forallb (site_ok_for s) regs.

(* a site no registration owns would pass site_ok vacuously (a renamed body, a function called from elsewhere) *)
Definition site_owned (regs : list reg) (s : site) : bool :=
  existsb (fun r => match site_shift s r with Some _ => true | None => false end) regs.

(* constant indexes X[k] into OTHER slices of the builtins and router tests (words[0], states[0],
   possibilities[0] ...): the len(X) guards around the site must imply k < len(X) for EVERY length (a registration
   without bounds: 0 .. unbounded).  Two sites are justified otherwise:
     HasPattern:matches                regexp.FindStringSubmatch returns nil or at least the whole match; the site is
                                       under `matches != nil` (a fact about the regexp library, not about len)
     hasIntent:classification.Intents  guarded by `len(intents) > 0` through the alias intents := classification.Intents *)
Definition local_sites_justified : list string := ["HasPattern:matches"; "hasIntent:classification.Intents"]%string.

(* the exemption is for the ONE site `X[0]` (an index, not a slice) of each of the two names: any other index or kind in
   those slices gets no exemption, and a second site of the same name makes the table fail (local_sites_exempt_once) *)
Definition exempt_site (s : site) : bool :=
  existsb (String.eqb (s_fn s)) local_sites_justified
  && match s_kind s with SIndex => true | _ => false end && (s_k s =? 0)%Z.

Definition local_site_ok (s : site) : bool :=
  exempt_site s || site_ok_for s (Reg "" "" 0 (-1) 0 (s_fn s)).

Definition local_sites_exempt_once (sites : list site) : bool :=
  forallb (fun name => Nat.eqb (List.length (filter (fun s => String.eqb (s_fn s) name) sites)) 1) local_sites_justified.

(* non-constant indexes into the argument slice: allowed only in functions whose loop is modelled and proved
   (Object: pairs[i], pairs[i+1] — proofs/ExEvalProofs.v object_pairs_ok) *)
Definition dynamic_allowed : list string := ["Object"%string].

Definition dynamic_ok (dyn : list (string * Z)) : bool :=
  forallb (fun d => existsb (String.eqb (fst d)) dynamic_allowed) dyn.

(* the registrations the hand-written model ExEval.v assumes (call_simple): name, wrapper, min, max, shift, body *)
Definition model_registry : list reg := [
  Reg "word" "InitialTextFunction" 2 3 1 "Word";
  Reg "word_slice" "InitialTextFunction" 2 4 1 "WordSlice";
  Reg "field" "InitialTextFunction" 3 3 1 "Field";
  Reg "text_slice" "InitialTextFunction" 2 4 1 "TextSlice";
  Reg "char" "OneNumberFunction" 1 1 (-1) "Char";
  Reg "repeat" "TextAndIntegerFunction" 2 2 (-1) "Repeat";
  Reg "replace" "MinAndMaxArgsCheck" 3 4 0 "Replace";
  Reg "round" "OneNumberAndOptionalIntegerFunction" 1 2 (-1) "Round";
  Reg "round_up" "OneNumberAndOptionalIntegerFunction" 1 2 (-1) "RoundUp";
  Reg "round_down" "OneNumberAndOptionalIntegerFunction" 1 2 (-1) "RoundDown";
  Reg "mod" "TwoNumberFunction" 2 2 (-1) "Mod";
  Reg "mean" "MinArgsCheck" 1 (-1) 0 "Mean";
  Reg "max" "MinArgsCheck" 1 (-1) 0 "Max";
  Reg "min" "MinArgsCheck" 1 (-1) 0 "Min";
  Reg "percent" "OneNumberFunction" 1 1 (-1) "Percent";
  Reg "format_number" "MinAndMaxArgsCheck" 1 3 0 "FormatNumber";
  Reg "date_from_parts" "ThreeIntegerFunction" 3 3 (-1) "DateFromParts";
  Reg "time_from_parts" "ThreeIntegerFunction" 3 3 (-1) "TimeFromParts";
  Reg "datetime_add" "" 0 (-1) 0 "DateTimeAdd";
  Reg "array" "" 0 (-1) 0 "Array";
  Reg "object" "" 0 (-1) 0 "Object";
  Reg "extract_object" "MinArgsCheck" 2 (-1) 0 "ExtractObject";
  Reg "regex_match" "InitialTextFunction" 2 3 1 "RegexMatch";
  Reg "foreach" "MinArgsCheck" 2 (-1) 0 "ForEach";
  Reg "text" "OneArgFunction" 1 1 (-1) "Text";
  Reg "number" "OneArgFunction" 1 1 (-1) "Number";
  Reg "boolean" "OneArgFunction" 1 1 (-1) "Boolean";
  Reg "and" "MinArgsCheck" 1 (-1) 0 "And";
  Reg "or" "MinArgsCheck" 1 (-1) 0 "Or";
  Reg "if" "ThreeArgFunction" 3 3 (-1) "If";
  Reg "abs" "OneNumberFunction" 1 1 (-1) "Abs";
  Reg "count" "OneArgFunction" 1 1 (-1) "Count";
  Reg "default" "TwoArgFunction" 2 2 (-1) "Default";
  Reg "join" "TwoArgFunction" 2 2 (-1) "Join";
  Reg "reverse" "OneArrayFunction" 1 1 (-1) "Reverse";
  Reg "sum" "OneArrayFunction" 1 1 (-1) "Sum";
  Reg "concat" "TwoArrayFunction" 2 2 (-1) "Concat";
  Reg "is_error" "OneArgFunction" 1 1 (-1) "IsError";
  Reg "text_length" "OneTextFunction" 1 1 (-1) "TextLength";
  Reg "text_compare" "TwoTextFunction" 2 2 (-1) "TextCompare";
  Reg "has_group" "MinAndMaxArgsCheck" 2 3 0 "HasGroup"
]%string.

Definition reg_eqb (a b : reg) : bool :=
  String.eqb (r_name a) (r_name b) && String.eqb (r_wrapper a) (r_wrapper b) && (r_min a =? r_min b)
  && (r_max a =? r_max b) && (r_shift a =? r_shift b) && String.eqb (r_body a) (r_body b).

Definition registry_matches (source : list reg) : bool :=
  forallb (fun m => existsb (reg_eqb m) source) model_registry.
