(* ExSyntax.v — syntax of Excellent expressions: token kinds (= the lexer rules of
   /repo/antlr/Excellent3.g4), the rule/alternative shapes that gen/GrammarE3.v (written by
   translators/g4ex3.py from the .g4 on every run) is expressed in, and the syntax tree of
   /repo/excellent/tree.go.  No proofs. *)
From Coq Require Import List NArith Bool.
Import ListNotations.
Open Scope N_scope.

Definition text := list N.

(* token kinds, in the order of Excellent3.tokens *)
Inductive kind :=
| COMMA | LPAREN | RPAREN | LBRACK | RBRACK | DOT | ARROW | PLUS | MINUS | TIMES | DIVIDE | EXPONENT
| EQ | NEQ | LTE | LT | GTE | GT | AMPERSAND | TEXT | INTEGER | DECIMAL | TRUE | FALSE | NULL | NAME | WS | ERROR.

Definition kind_code (k : kind) : N :=
  match k with
  | COMMA => 1 | LPAREN => 2 | RPAREN => 3 | LBRACK => 4 | RBRACK => 5 | DOT => 6 | ARROW => 7 | PLUS => 8
  | MINUS => 9 | TIMES => 10 | DIVIDE => 11 | EXPONENT => 12 | EQ => 13 | NEQ => 14 | LTE => 15 | LT => 16
  | GTE => 17 | GT => 18 | AMPERSAND => 19 | TEXT => 20 | INTEGER => 21 | DECIMAL => 22 | TRUE => 23
  | FALSE => 24 | NULL => 25 | NAME => 26 | WS => 27 | ERROR => 28
  end.

Definition kind_eqb (a b : kind) : bool := kind_code a =? kind_code b.

(* shapes of lexer rules the model can interpret *)
Inductive shape :=
| SLit (s : text)        (* 'xyz' *)
| SCi (s : text)         (* [Xx][Yy].. : the word s (given in lower case), each letter in either case *)
| SText                  (* DQUOTE (~[DQUOTE] | BACKSLASH DQUOTE)* DQUOTE *)
| SDigits                (* [0-9]+ *)
| SDecimal               (* [0-9]+ '.' [0-9]+ *)
| SName                  (* (UnicodeLetter | '_')+ (UnicodeLetter | UnicodeDigit | '_')* *)
| SWs (cs : text)        (* [cs]+ -> skip *)
| SAny.                  (* . *)

(* labels of the alternatives = the visitor method that builds the node (visitor.go) *)
Inductive blabel := LExponent | LMulDiv | LAddSub | LComparison | LEquality | LConcat.
Inductive llabel := LText | LNumber | LTrue | LFalse | LNull.

(* alternatives of parser rule `expression`, in source order *)
Inductive ealt :=
| AAtom                                  (* atom *)
| APrefix (op : kind)                    (* op expression            # negation *)
| ABinary (l : blabel) (ops : list kind) (* expression ops expression *)
| AAnon                                  (* LPAREN nameList RPAREN ARROW expression *)
| ALit (l : llabel) (ks : list kind).    (* a literal token *)

(* alternatives of parser rule `atom` *)
Inductive aalt :=
| PCall                                  (* atom LPAREN parameters? RPAREN *)
| PDot (ks : list kind)                  (* atom DOT (ks) *)
| PIndex                                 (* atom LBRACK expression RBRACK *)
| PParen                                 (* LPAREN expression RPAREN *)
| PName.                                 (* NAME *)

Record token := { tk : kind; tx : text }.

(* tree.go.  The twelve binary node types differ only in operator symbol and operators.* function. *)
Inductive binop :=
| OConcat | OAdd | OSub | OMul | ODiv | OExp | OEq | ONeq | OLt | OLte | OGt | OGte.

Inductive expr :=
| ECtxRef (name : text)                  (* ContextReference{Name}: the NAME token text as written *)
| EDot (c : expr) (lookup : text)        (* DotLookup{Container, Lookup}: NAME or INTEGER token text *)
| EIndex (c : expr) (lookup : expr)      (* ArrayLookup *)
| ECall (f : expr) (params : list expr)  (* FunctionCall *)
| EAnon (args : list text) (body : expr) (* AnonFunction *)
| EBin (op : binop) (a b : expr)
| ENeg (e : expr)                        (* Negation *)
| EParen (e : expr)                      (* Parentheses *)
| EText (v : text)                       (* TextLiteral{Value}: the UNQUOTED value *)
| ENum (lexeme : text)                   (* NumberLiteral: the INTEGER/DECIMAL token text; the Go node holds
                                            decimal.RequireFromString(lexeme), of which only the canonical
                                            rendering (ExPrinter.num_render) is ever observed here *)
| EBool (b : bool)
| ENull.
