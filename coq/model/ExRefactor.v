(* ExRefactor.v — model of /repo/excellent/refactor/base.go (Template, expression, wrapExpression) and
   context_rename.go (ContextRefRename), on top of the scanner (ExScanner.v, SetUnescapeBody(false)), the
   lexer/parser (ExLexer.v, ExParser.v) and the printer (ExPrinter.v).  No proofs.

   A transformation `tx func(Expression) bool` mutates the tree and reports whether it changed anything; here
   it is a function  expr -> option expr : Some e' = reported true and left the tree e', None = reported false. *)
From Coq Require Import List NArith Bool.
From Verif Require Import lib.Quote model.ExSyntax model.ExLexer model.ExParser model.ExPrinter model.ExScanner.
Import ListNotations.
Open Scope N_scope.

Inductive rres :=
| ROk (s : ExSyntax.text)   (* refactored source *)
| RErr                      (* excellent.Parse returned an error *)
| ROutside.                 (* a text literal outside the code-point model: the tree the transformation would be
                               applied to is not described; the driver keeps such templates out of the comparison *)

Section Refactor.
Variable isln : N -> bool.
Variable lower : N -> N.
Variable printable : N -> bool.
Variable tx : expr -> option expr.

(* func isIdentifier(token): NewXScanner("@"+token, nil).Scan() returns IDENTIFIER with exactly that text, i.e. the
   text can be written back as @identifier and is read back in full *)
Definition is_identifier (tok : ExSyntax.text) : bool :=
  match scan isln lower None true (new_input (r_at :: tok)) with
  | Ok (IDENTIFIER, t, _) => text_eqb t tok
  | _ => false
  end.

(* func wrapExpression(tokenType, token) *)
Definition wrap_expression (ty : toktype) (tok : ExSyntax.text) : ExSyntax.text :=
  match ty with
  | IDENTIFIER => if is_identifier tok then r_at :: tok else r_at :: r_lparen :: tok ++ [r_rparen]
  | _ => r_at :: r_lparen :: tok ++ [r_rparen]
  end.

(* func expression(expression string, tx) (string, error).  What a transformation leaves is printed and READ BACK
   (second hunt, finding C11/1): when the printed text is not accepted by Parse the error is returned and Template
   keeps the original expression *)
Definition refactor_expression (src : ExSyntax.text) : rres :=
  match lex src with
  | LOk ts =>
      match parse_tokens ts with
      | POk e =>
          match tx e with
          | Some e' =>
              let s := print lower printable e' in
              match lex s with
              | LOk ts' =>
                  match parse_tokens ts' with
                  | POk _ => ROk s
                  | PSyntax => RErr
                  | _ => ROutside
                  end
              | LNoRule => RErr          (* a rune no lexer rule takes: ERROR token, syntax error *)
              | LFuel => ROutside
              end
          | None => ROk src
          end
      | PSyntax => RErr
      | POutside => ROutside
      | PFuelOut => ROutside
      end
  | _ => ROutside
  end.

(* the callback of Template over the token list: (output, number of errors, everything inside the model?) *)
Fixpoint refactor_tokens (toks : list (toktype * ExSyntax.text)) : ExSyntax.text * nat * bool :=
  match toks with
  | [] => ([], O, true)
  | (ty, tok) :: r =>
      let '(out, errs, inside) := refactor_tokens r in
      match ty with
      | BODY => (tok ++ out, errs, inside)
      | IDENTIFIER | EXPRESSION =>
          match refactor_expression tok with
          | ROk s => (wrap_expression ty s ++ out, errs, inside)
          | RErr => (wrap_expression ty tok ++ out, S errs, inside)     (* original expression rewritten, error returned *)
          | ROutside => (wrap_expression ty tok ++ out, errs, false)   (* what Go writes when tx reports "unchanged" *)
          end
      | EOF_T => (out, errs, inside)
      end
  end.

(* func Template(template, allowedTopLevels, tx) (string, error): VisitTemplate with unescapeBody = false *)
Definition refactor_template (tops : option (list ExSyntax.text)) (s : ExSyntax.text)
  : res (ExSyntax.text * nat * bool) :=
  match s with
  | [] => Ok ([], O, true)
  | _ => bind (scan_all isln lower tops false s) (fun toks => Ok (refactor_tokens toks))
  end.

End Refactor.

(* ContextRefRename(from, to) (context_rename.go): every ContextReference whose Name is the same name as `from` gets
   Name = to — except the references inside the body of an anonymous function that has a parameter of that name
   (they refer to the parameter, not to the context; /repo 881a989).  [is_from n] = sameName(n, from); names are the
   same when their lower case is the same, as in evaluation (hunt finding C11/2; section Avoid gives the concrete
   is_from).  This section: the renaming proper, for any is_from. *)
Section Rename.
Variable is_from : ExSyntax.text -> bool.
Variable to : ExSyntax.text.

Fixpoint rename (e : expr) : expr :=
  match e with
  | ECtxRef n => if is_from n then ECtxRef to else ECtxRef n
  | EDot c l => EDot (rename c) l
  | EIndex c l => EIndex (rename c) (rename l)
  | ECall f ps => ECall (rename f) (map rename ps)
  | EAnon a b => if existsb is_from a then EAnon a b else EAnon a (rename b)
  | EBin o a b => EBin o (rename a) (rename b)
  | ENeg a => ENeg (rename a)
  | EParen a => EParen (rename a)
  | EText v => EText v
  | ENum l => ENum l
  | EBool b => EBool b
  | ENull => ENull
  end.

(* names of all context references, in source order *)
Fixpoint refs (e : expr) : list ExSyntax.text :=
  match e with
  | ECtxRef n => [n]
  | EDot c _ => refs c
  | EIndex c l => refs c ++ refs l
  | ECall f ps => refs f ++ flat_map refs ps
  | EAnon _ b => refs b
  | EBin _ a b => refs a ++ refs b
  | ENeg a => refs a
  | EParen a => refs a
  | _ => []
  end.

(* the references that are not under an anonymous function with a parameter named like `from` *)
Fixpoint frefs (e : expr) : list ExSyntax.text :=
  match e with
  | ECtxRef n => [n]
  | EDot c _ => frefs c
  | EIndex c l => frefs c ++ frefs l
  | ECall f ps => frefs f ++ flat_map frefs ps
  | EAnon a b => if existsb is_from a then [] else frefs b
  | EBin _ a b => frefs a ++ frefs b
  | ENeg a => frefs a
  | EParen a => frefs a
  | _ => []
  end.

(* ... and those that are *)
Fixpoint brefs (e : expr) : list ExSyntax.text :=
  match e with
  | EDot c _ => brefs c
  | EIndex c l => brefs c ++ brefs l
  | ECall f ps => brefs f ++ flat_map brefs ps
  | EAnon a b => if existsb is_from a then refs b else brefs b
  | EBin _ a b => brefs a ++ brefs b
  | ENeg a => brefs a
  | EParen a => brefs a
  | _ => []
  end.

End Rename.

(* Capture in the other direction (hunt finding C11/1): a renamed reference inside an anonymous function that has a
   parameter named like a name the replacement refers to would now refer to that parameter.  ContextRefRename gives
   such parameters (in every function that has one, and the references to them) a name nothing else uses, then
   renames. *)
Section Avoid.
Variable lower : N -> N.
Variable from : ExSyntax.text.
Variable to : ExSyntax.text.

Definition lname (n : ExSyntax.text) : ExSyntax.text := map lower n.      (* strings.ToLower *)
Definition same_name (a b : ExSyntax.text) : bool := text_eqb (lname a) (lname b).
Definition is_from (n : ExSyntax.text) : bool := same_name n from.

(* toNames: the lower-cased names the replacement refers to, in order of first occurrence (webhook for webhook.json);
   the replacement itself when it is not an expression *)
Definition add_name (acc : list ExSyntax.text) (x : ExSyntax.text) : list ExSyntax.text :=
  if existsb (text_eqb x) acc then acc else acc ++ [x].

Definition target_names : list ExSyntax.text :=
  match lex to with
  | LOk ts =>
      match parse_tokens ts with
      | POk e => fold_left add_name (map lname (refs e)) []
      | _ => [lname to]
      end
  | _ => [lname to]
  end.

(* used: the lower-cased parameter and reference names of the expression *)
Fixpoint used_names (e : expr) : list ExSyntax.text :=
  match e with
  | ECtxRef n => [lname n]
  | EDot c _ => used_names c
  | EIndex c l => used_names c ++ used_names l
  | ECall f ps => used_names f ++ flat_map used_names ps
  | EAnon a b => map lname a ++ used_names b
  | EBin _ a b => used_names a ++ used_names b
  | ENeg a => used_names a
  | EParen a => used_names a
  | _ => []
  end.

(* some reference in e will be renamed; bnd = an enclosing function has a parameter named like `from` *)
Fixpoint has_renamed (bnd : bool) (e : expr) : bool :=
  match e with
  | ECtxRef n => negb bnd && is_from n
  | EDot c _ => has_renamed bnd c
  | EIndex c l => has_renamed bnd c || has_renamed bnd l
  | ECall f ps => has_renamed bnd f || existsb (has_renamed bnd) ps
  | EAnon a b => has_renamed (bnd || existsb is_from a) b
  | EBin _ a b => has_renamed bnd a || has_renamed bnd b
  | ENeg a => has_renamed bnd a
  | EParen a => has_renamed bnd a
  | _ => false
  end.

(* some function with a parameter named `name` has a reference in its body that will be renamed *)
Fixpoint captures (name : ExSyntax.text) (bnd : bool) (e : expr) : bool :=
  match e with
  | EDot c _ => captures name bnd c
  | EIndex c l => captures name bnd c || captures name bnd l
  | ECall f ps => captures name bnd f || existsb (captures name bnd) ps
  | EAnon a b =>
      let bnd' := bnd || existsb is_from a in
      (existsb (same_name name) a && has_renamed bnd' b) || captures name bnd' b
  | EBin _ a b => captures name bnd a || captures name bnd b
  | ENeg a => captures name bnd a
  | EParen a => captures name bnd a
  | _ => false
  end.

(* every function with a parameter named `name`: those parameters get the suffix of the fresh name appended to their
   OWN spelling (two parameters that differ only by case stay two parameters: second hunt, finding C11/2), and the
   references named `name` in its body are called `fresh`; inb = inside such a function *)
Fixpoint alpha (name fresh suffix : ExSyntax.text) (inb : bool) (e : expr) : expr :=
  match e with
  | ECtxRef n => if inb && same_name n name then ECtxRef fresh else ECtxRef n
  | EDot c l => EDot (alpha name fresh suffix inb c) l
  | EIndex c l => EIndex (alpha name fresh suffix inb c) (alpha name fresh suffix inb l)
  | ECall f ps => ECall (alpha name fresh suffix inb f) (map (alpha name fresh suffix inb) ps)
  | EAnon a b =>
      if existsb (fun x => same_name x name) a
      then EAnon (map (fun x => if same_name x name then x ++ suffix else x) a) (alpha name fresh suffix true b)
      else EAnon a (alpha name fresh suffix inb b)
  | EBin o a b => EBin o (alpha name fresh suffix inb a) (alpha name fresh suffix inb b)
  | ENeg a => ENeg (alpha name fresh suffix inb a)
  | EParen a => EParen (alpha name fresh suffix inb a)
  | EText v => EText v
  | ENum l => ENum l
  | EBool b => EBool b
  | ENull => ENull
  end.

(* fresh := name + "_"; for used[fresh] || contains(toNames, fresh) { fresh += "_" } — the loop ends within
   length(taken)+1 rounds *)
Fixpoint pick_fresh (fuel : nat) (cand : ExSyntax.text) (taken : list ExSyntax.text) : ExSyntax.text :=
  match fuel with
  | O => cand
  | S f => if existsb (text_eqb cand) taken then pick_fresh f (cand ++ [95]) taken else cand
  end.

Fixpoint avoid (names used : list ExSyntax.text) (e : expr) : expr :=
  match names with
  | [] => e
  | name :: rest =>
      if captures name false e then
        let taken := used ++ target_names in
        let fresh := pick_fresh (S (length taken)) (name ++ [95]) taken in
        let suffix := skipn (length name) fresh in          (* strings.TrimPrefix(fresh, name) *)
        avoid rest (fresh :: used) (alpha name fresh suffix false e)
      else avoid rest used e
  end.

(* the tree the transformation leaves *)
Definition rename_full (e : expr) : expr :=
  rename is_from to (avoid target_names (used_names e) e).

(* the transformation function: changed iff some free reference matched *)
Definition rename_tx (e : expr) : option expr :=
  if existsb is_from (frefs is_from e) then Some (rename_full e) else None.

End Avoid.

(* for statements about the parameters of anonymous functions *)
(* no spelling occurs twice *)
Fixpoint distinct (a : list ExSyntax.text) : bool :=
  match a with
  | [] => true
  | x :: r => negb (existsb (text_eqb x) r) && distinct r
  end.

(* every anonymous function of the expression has parameters of pairwise different spelling *)
Fixpoint distinct_params (e : expr) : bool :=
  match e with
  | EDot c _ => distinct_params c
  | EIndex c l => distinct_params c && distinct_params l
  | ECall f ps => distinct_params f && forallb distinct_params ps
  | EAnon a b => distinct a && distinct_params b
  | EBin _ a b => distinct_params a && distinct_params b
  | ENeg a => distinct_params a
  | EParen a => distinct_params a
  | _ => true
  end.

