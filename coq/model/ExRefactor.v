(* ExRefactor.v — model of /repo/excellent/refactor/base.go (Template, expression, wrapExpression) and
   context_rename.go (ContextRefRename), on top of the scanner (ExScanner.v, SetUnescapeBody(false)), the
   lexer/parser (ExLexer.v, ExParser.v) and the printer (ExPrinter.v).  No proofs.

   A transformation `tx func(Expression) bool` mutates the tree and reports whether it changed anything; here
   it is a function  expr -> option expr : Some e' = reported true and left the tree e', None = reported false. *)
From Coq Require Import List NArith Bool.
From Verif Require Import lib.Quote model.ExSyntax model.ExLexer model.ExParser model.ExPrinter model.ExScanner.
Import ListNotations.
Open Scope N_scope.

(* func wrapExpression(tokenType, token) *)
Definition wrap_expression (ty : toktype) (tok : ExSyntax.text) : ExSyntax.text :=
  match ty with
  | IDENTIFIER => r_at :: tok
  | _ => r_at :: r_lparen :: tok ++ [r_rparen]
  end.

Inductive rres :=
| ROk (s : ExSyntax.text)   (* refactored source *)
| RErr                      (* excellent.Parse returned an error *)
| ROutside.                 (* a text literal outside the code-point model: the tree the transformation would be
                               applied to is not described; the driver keeps such templates out of the comparison *)

Section Refactor.
Variable isln : N -> bool.
Variable lower : N -> N.
Variable printable : N -> bool.
Variable tx : expr -> option expr.

(* func expression(expression string, tx) (string, error) *)
Definition refactor_expression (src : ExSyntax.text) : rres :=
  match lex src with
  | LOk ts =>
      match parse_tokens ts with
      | POk e => ROk (match tx e with Some e' => print lower printable e' | None => src end)
      | PSyntax => RErr
      | POutside => ROutside
      | PFuelOut => ROutside
      end
  | _ => ROutside
  end.

(* the callback of Template over the token list: (output, number of errors, everything inside the model?) *)
Fixpoint refactor_tokens (toks : list (toktype * ExSyntax.text)) : ExSyntax.text * nat * bool :=
  match toks with
  | [] => ([], O, true)
  | (ty, tok) :: r =>
      let '(out, errs, inside) := refactor_tokens r in
      match ty with
      | BODY => (tok ++ out, errs, inside)
      | IDENTIFIER | EXPRESSION =>
          match refactor_expression tok with
          | ROk s => (wrap_expression ty s ++ out, errs, inside)
          | RErr => (wrap_expression ty tok ++ out, S errs, inside)     (* original expression rewritten, error returned *)
          | ROutside => (wrap_expression ty tok ++ out, errs, false)   (* what Go writes when tx reports "unchanged" *)
          end
      | EOF_T => (out, errs, inside)
      end
  end.

(* func Template(template, allowedTopLevels, tx) (string, error): VisitTemplate with unescapeBody = false *)
Definition refactor_template (tops : option (list ExSyntax.text)) (s : ExSyntax.text)
  : res (ExSyntax.text * nat * bool) :=
  match s with
  | [] => Ok ([], O, true)
  | _ => bind (scan_all isln lower tops false s) (fun toks => Ok (refactor_tokens toks))
  end.

End Refactor.

(* ContextRefRename(from, to) (context_rename.go, as repaired in /repo 881a989): every ContextReference whose Name is
   EqualFold to `from` gets Name = to — except the references inside the body of an anonymous function that has a
   parameter EqualFold to `from` (they refer to the parameter, not to the context).
   [is_from n] = strings.EqualFold(n, from) (a Go library function: enters as an argument). *)
Section Rename.
Variable is_from : ExSyntax.text -> bool.
Variable to : ExSyntax.text.

Fixpoint rename (e : expr) : expr :=
  match e with
  | ECtxRef n => if is_from n then ECtxRef to else ECtxRef n
  | EDot c l => EDot (rename c) l
  | EIndex c l => EIndex (rename c) (rename l)
  | ECall f ps => ECall (rename f) (map rename ps)
  | EAnon a b => if existsb is_from a then EAnon a b else EAnon a (rename b)
  | EBin o a b => EBin o (rename a) (rename b)
  | ENeg a => ENeg (rename a)
  | EParen a => EParen (rename a)
  | EText v => EText v
  | ENum l => ENum l
  | EBool b => EBool b
  | ENull => ENull
  end.

(* names of all context references, in source order *)
Fixpoint refs (e : expr) : list ExSyntax.text :=
  match e with
  | ECtxRef n => [n]
  | EDot c _ => refs c
  | EIndex c l => refs c ++ refs l
  | ECall f ps => refs f ++ flat_map refs ps
  | EAnon _ b => refs b
  | EBin _ a b => refs a ++ refs b
  | ENeg a => refs a
  | EParen a => refs a
  | _ => []
  end.

(* the references that are not under an anonymous function with a parameter named like `from` *)
Fixpoint frefs (e : expr) : list ExSyntax.text :=
  match e with
  | ECtxRef n => [n]
  | EDot c _ => frefs c
  | EIndex c l => frefs c ++ frefs l
  | ECall f ps => frefs f ++ flat_map frefs ps
  | EAnon a b => if existsb is_from a then [] else frefs b
  | EBin _ a b => frefs a ++ frefs b
  | ENeg a => frefs a
  | EParen a => frefs a
  | _ => []
  end.

(* ... and those that are *)
Fixpoint brefs (e : expr) : list ExSyntax.text :=
  match e with
  | EDot c _ => brefs c
  | EIndex c l => brefs c ++ brefs l
  | ECall f ps => brefs f ++ flat_map brefs ps
  | EAnon a b => if existsb is_from a then refs b else brefs b
  | EBin _ a b => brefs a ++ brefs b
  | ENeg a => brefs a
  | EParen a => brefs a
  | _ => []
  end.

(* the transformation function: changed iff some free reference matched *)
Definition rename_tx (e : expr) : option expr :=
  if existsb is_from (frefs e) then Some (rename e) else None.

End Rename.
