(* PersistCorr.v — runs the persistence model (Persist.v over Engine.v) on a history with a restart pattern and
   renders every call as the token stream that harness/cmd/c02/cflstream.go produces from the real engine
   (enc* there and p_* here must stay in step).  The session part of the stream is computed by the harness from
   the *marshalled JSON* of the real session (not from the session object), here from [persist].
   No proofs. *)

From Coq Require Import List NArith ZArith Bool.
From Verif Require Import model.Lang model.Engine model.Persist.
Import ListNotations.
Open Scope N_scope.

Definition pn (n : nat) : N := N.of_nat n.
Definition pb (b : bool) : N := if b then 1 else 0.

Definition p_text (t : text) : list N := pn (length t) :: t.
Definition p_onat (o : option nat) : list N := match o with None => [0] | Some n => [1; pn n] end.
Definition p_oN (o : option N) : list N := match o with None => [0] | Some n => [1; n] end.
Definition p_stepref (o : option stepref) : list N := match o with None => [0] | Some (r, p) => [1; pn r; pn p] end.
Definition p_list {A} (f : A -> list N) (l : list A) : list N := pn (length l) :: flat_map f l.

Definition p_fail_code (c : fail_code) : N :=
  match c with
  | FStepLimit => 0 | FNoCategory => 1 | FChildFailed => 2 | FMissingFlow => 3 | FParentMissingFlow => 3
  | FMaxResumes => 4 | FNoLocation => 5 | FNoWait => 6 | FRouteError => 7 | FParentNodeGone => 8
  | FEnterMissingFlow => 10 | FEnterFlowType => 11
  | FVoiceNoCall => 12
  end.

Definition p_ekind (k : ekind) : list N :=
  match k with
  | EMsgReceived t => 1 :: p_text t
  | EMsgCreated t => 2 :: p_text t
  | EResultChanged n v c => 3 :: p_text n ++ p_text v ++ p_text c
  | EFlowEntered f t => [4; f; pb t]
  | EMsgWait o => 5 :: p_oN o
  | EWaitTimedOut => [6]
  | ERunExpired => [7]
  | EDialEnded => [8]
  | EFailure c => [9; p_fail_code c]
  | EDialWait => [10]
  end.

Definition p_event (e : event) : list N := p_stepref (ev_step e) ++ p_ekind (ev_kind e).

Definition p_rstatus (x : rstatus) : N :=
  match x with RActive => 0 | RWaiting => 1 | RCompleted => 2 | RFailed => 3 | RExpired => 4 end.
Definition p_sstatus (x : sstatus) : N :=
  match x with SActive => 0 | SWaiting => 1 | SCompleted => 2 | SFailed => 3 end.

(* results are a JSON object: compared sorted by name *)
Fixpoint p_text_leb (a b : text) : bool :=
  match a, b with
  | [], _ => true
  | _ :: _, [] => false
  | x :: a', y :: b' => if N.ltb x y then true else if N.ltb y x then false else p_text_leb a' b'
  end.
Fixpoint p_insert_result (x : result) (l : list result) : list result :=
  match l with
  | [] => [x]
  | y :: rest => if p_text_leb (res_name x) (res_name y) then x :: l else y :: p_insert_result x rest
  end.
Definition p_sort_results (l : list result) : list result := fold_right p_insert_result [] l.

Definition p_result (r : result) : list N :=
  p_text (res_name r) ++ p_text (res_value r) ++ p_text (res_cat r) ++ [res_node r] ++ p_text (res_input r).

Definition p_step (s : step) : list N := st_node s :: p_oN (st_exit s).

Definition p_prun (r : prun) : list N :=
  [pr_uuid r; pr_flow r] ++ p_oN (pr_parent_uuid r) ++ [p_rstatus (pr_status r); pb (pr_exited r)]
  ++ p_list p_step (pr_path r) ++ p_list p_event (pr_events r) ++ p_list p_result (p_sort_results (pr_results r)).

Definition p_trigger (t : trigger) : list N :=
  match t with TManual => [0] | TMsg x => 1 :: p_text x | TFlowAction => [2] end.

Definition p_psession (s : psession) : list N :=
  [p_sstatus (ps_status s); ps_type s] ++ p_trigger (ps_trigger s) ++ [ps_trigger_flow s; pb (ps_trigger_batch s)]
  ++ p_list p_prun (ps_runs s)
  ++ match ps_input s with None => [0] | Some t => 1 :: p_text t end.

Definition p_segment (g : segment) : list N :=
  [sg_flow g; sg_node g; sg_exit g] ++ p_text (sg_operand g) ++ [sg_dest g].

Definition p_sprint (sp : sprint) : list N :=
  p_list (fun '(ri, e) => p_onat ri ++ p_event e) (sp_events sp) ++ p_list p_segment (sp_segments sp).

Definition p_resume_kind (r : resume) : N :=
  match r with RMsg _ => 1 | RTimeout => 2 | RExpiration => 3 | RDial => 4 end.

(* Session.BatchStart(), type of Session.CurrentResume() (0 = nil), Session.ParentRun() != nil *)
Definition p_transient (t : transient) : list N :=
  [pb (t_batch t); match t_resume t with None => 0 | Some r => p_resume_kind r end; pb (t_parent t)].

Definition p_obs (o : obs) : list N :=
  match o_outcome o with
  | OOk sp after => 0 :: p_sprint sp ++ p_psession after ++ p_transient (o_context o)
  | ORejected c => [1; c] ++ p_transient (o_context o)
  | OGoError => [2]
  | OPanic => [3]
  | OOutOfFuel => [4]
  | ORestoreError i => [6; pn i]
  end.

(* ---- cases -------------------------------------------------------------------------------------------------- *)

(* one history; the implementation was run under every pattern of [pc_runs]; executions with identical token
   streams share one entry of [pc_streams] *)
Record pcase := {
  pc_assets : assets; pc_trigger : trigger; pc_flow : id; pc_batch : bool;
  pc_resumes : list resume;
  pc_streams : list (list (list N));        (* distinct observed executions: one token stream per engine call *)
  pc_runs : list (list bool * nat * list (list N))
    (* restart pattern (restart before the i-th resume?), index into pc_streams, and what the implementation's session
       answered right after every ReadSession of that execution, before the next call: BatchStart(), CurrentResume(),
       ParentRun() != nil *)
}.

Definition timeout_text : text := [84].     (* the canonical value of results saved by a timeout route *)

Definition run_case (c : pcase) (bs : list bool) : list (list N) :=
  map p_obs (run_history (pc_assets c) timeout_text (pc_trigger c) (pc_flow c) (pc_batch c) (with_pattern bs (pc_resumes c))).

Fixpoint tokens_eqb (a b : list N) : bool :=
  match a, b with
  | [], [] => true
  | x :: a', y :: b' => N.eqb x y && tokens_eqb a' b'
  | _, _ => false
  end.

Fixpoint streams_eqb (a b : list (list N)) : bool :=
  match a, b with
  | [], [] => true
  | x :: a', y :: b' => tokens_eqb x y && streams_eqb a' b'
  | _, _ => false
  end.

Definition run_case_reads (c : pcase) (bs : list bool) : list (list N) :=
  map p_transient (history_reread_contexts (pc_assets c) timeout_text (pc_trigger c) (pc_flow c) (pc_batch c) (with_pattern bs (pc_resumes c))).

Definition check (c : pcase) : bool :=
  forallb (fun '(bs, k, reads) => match nth_error (pc_streams c) k with
                                  | Some obs => streams_eqb (run_case c bs) obs && streams_eqb (run_case_reads c bs) reads
                                  | None => false
                                  end) (pc_runs c)
  && negb (match pc_runs c with [] => true | _ => false end).

Fixpoint mismatches_from (i : N) (cs : list pcase) : list N :=
  match cs with
  | [] => []
  | c :: rest => (if check c then [] else [i]) ++ mismatches_from (i + 1) rest
  end.
Definition mismatches (cs : list pcase) : list N := mismatches_from 0 cs.

(* debugging aid: first differing call and token position *)
Fixpoint first_diff (i : nat) (a b : list N) : option (nat * option N * option N) :=
  match a, b with
  | [], [] => None
  | x :: a', y :: b' => if N.eqb x y then first_diff (S i) a' b' else Some (i, Some x, Some y)
  | x :: _, [] => Some (i, Some x, None)
  | [], y :: _ => Some (i, None, Some y)
  end.
Fixpoint first_stream_diff (i : nat) (a b : list (list N)) : option (nat * option (nat * option N * option N)) :=
  match a, b with
  | [], [] => None
  | x :: a', y :: b' => match first_diff 0 x y with None => first_stream_diff (S i) a' b' | Some d => Some (i, Some d) end
  | _, _ => Some (i, None)
  end.
