(* InspectCorr.v — comparison of model/Inspect.v with observations of the real code (written by
   harness/cmd/c20): the real flow.Inspect(sa) of every flow of a case, and the real execution trace of one
   history over these flows.  No proofs. *)
From Coq Require Import List NArith Bool.
From Verif Require Import model.ActionRow gen.ActionResults model.Inspect model.InspectExec.
Import ListNotations.
Open Scope N_scope.

(* what flow.Inspect reported for one flow *)
Record obs_inspection := {
  oi_results : list result_spec;    (* Inspection.Results: key, name, categories, node uuids — in order *)
  oi_waiting : list N;              (* Inspection.WaitingExits, in order *)
  oi_deps : list aref               (* Inspection.Dependencies as (type, identity) *)
}.

Record icase := {
  k_names : list named;                        (* names / emails of the session's groups, labels, users, topics *)
  k_flows : list flow;
  k_inspections : list (N * obs_inspection);   (* per f_id *)
  k_trace : list ostep;                        (* all steps of all runs, in order of creation *)
  (* for the differential run of the executable engine (model/InspectExec.v) *)
  k_exec : bool;                               (* the execution is inside the engine's fragment (see harness: no
                                                  failure, only msg / wait-timeout resumes, messaging flows, no
                                                  run without steps) *)
  k_msg_trigger : bool;
  k_start : N;                                 (* f_id of the triggered flow *)
  k_history : list bool                        (* the accepted resumes: true = wait timeout, false = msg *)
}.

Fixpoint texts_eqb (a b : list text) : bool :=
  match a, b with
  | [], [] => true
  | x :: a', y :: b' => text_eqb x y && texts_eqb a' b'
  | _, _ => false
  end.

Fixpoint ns_eqb (a b : list N) : bool :=
  match a, b with
  | [], [] => true
  | x :: a', y :: b' => N.eqb x y && ns_eqb a' b'
  | _, _ => false
  end.

Definition spec_eqb (a b : result_spec) : bool :=
  text_eqb (rs_key a) (rs_key b) && text_eqb (rs_name a) (rs_name b)
  && texts_eqb (rs_cats a) (rs_cats b) && ns_eqb (rs_nodes a) (rs_nodes b).

Fixpoint specs_eqb (a b : list result_spec) : bool :=
  match a, b with
  | [], [] => true
  | x :: a', y :: b' => spec_eqb x y && specs_eqb a' b'
  | _, _ => false
  end.

(* dependencies are compared as duplicate-free sets: their order depends on Go map iteration when translations
   in several languages contribute references (localization.Languages()) *)
Definition same_refs (a b : list aref) : bool :=
  Nat.eqb (List.length a) (List.length b) && forallb (fun r => ref_in r b) a && forallb (fun r => ref_in r a) b.

Definition results_ok (A : list flow) (fo : N * obs_inspection) : bool :=
  match lookup_flow A (fst fo) with
  | Some f => specs_eqb (inspect_results f) (oi_results (snd fo))
  | None => false
  end.
Definition waiting_ok (A : list flow) (fo : N * obs_inspection) : bool :=
  match lookup_flow A (fst fo) with
  | Some f => ns_eqb (waiting_exits f) (oi_waiting (snd fo))
  | None => false
  end.
Definition deps_ok (A : list flow) (fo : N * obs_inspection) : bool :=
  match lookup_flow A (fst fo) with
  | Some f => same_refs (dependencies f) (oi_deps (snd fo))
  | None => false
  end.

(* ------------------------------------------------------------------------------------------------ *)
(* the executable engine, replayed with its oracles read off the observed trace: the engine decides which node is
   visited next, when a child run starts, when a run waits, when its parent goes on and through which exit; the
   observed trace only answers what the oracles stand for (which category the tests picked, whether a template
   evaluated / which service outcome occurred, whether a flow could be entered, which references were carried) *)
Section Replay.
  Variable A : list flow.
  Variable tr : list ostep.

  Definition node_at (o : ostep) : option node :=
    match lookup_flow A (os_flow o) with Some f => lookup_node f (os_node o) | None => None end.

  Fixpoint index_of (c : text) (l : list text) : nat :=
    match l with [] => O | x :: r => if text_eqb x c then O else S (index_of c r) end.

  (* the flow with uuid u was entered from step idx: the next step created is the first of a new run of it *)
  Definition entered (idx : nat) (o : ostep) (u : text) : bool :=
    match nth_error tr (S idx) with
    | Some nx =>
        match os_parent nx, lookup_flow A (os_flow nx) with
        | Some p, Some cf =>
            N.eqb p (os_run o) && text_eqb (f_uuid cf) u
            && forallb (fun q => negb (N.eqb (os_run q) (os_run nx))) (firstn (S idx) tr)
        | _, _ => false
        end
    | None => false
    end.

  Fixpoint assign (idx : nat) (o : ostep) (acts : list action) (obs : list (text * text)) : list act_outcome :=
    match acts with
    | [] => []
    | a :: rest =>
        match a_behav a with
        | BEnterFlow u _ => (if entered idx o u then AOk 0 else ASkip) :: assign idx o rest obs
        | BPlain => ASkip :: assign idx o rest obs
        | _ =>
            match obs with
            | x :: obs' =>
                if action_can_save a x
                then AOk (match a_behav a with BSaver s _ => index_of (snd x) (sv_save_cats s) | _ => O end)
                     :: assign idx o rest obs'
                else ASkip :: assign idx o rest obs
            | [] => ASkip :: assign idx o rest obs
            end
        end
    end.

  Definition r_act (fid nid : N) (i idx : nat) : act_outcome :=
    match nth_error tr idx with
    | Some o => match node_at o with
                | Some n => nth i (assign idx o (n_actions n) (os_saved o)) ASkip
                | None => ASkip
                end
    | None => ASkip
    end.

  Definition r_pick (fid nid : N) (idx : nat) : option N :=
    match nth_error tr idx with
    | Some o =>
        match os_exit o, node_at o with
        | Some e, Some n =>
            match n_router n with
            | Some r =>
                let lastcat := last (map snd (os_saved o)) [] in
                match find (fun c => N.eqb (c_exit c) e && text_eqb (c_name c) lastcat) (rt_categories r) with
                | Some c => Some (c_id c)
                | None => match find (fun c => N.eqb (c_exit c) e) (rt_categories r) with
                          | Some c => Some (c_id c)
                          | None => None
                          end
                end
            | None => None
            end
        | _, _ => None
        end
    | None => None
    end.

  Definition r_touch (fid nid : N) (idx : nat) (r : aref) : bool :=
    match nth_error tr idx with Some o => ref_in r (os_touched o) | None => false end.

  (* a is a subsequence of b: run_result_changed is logged only when value or category changed, the engine lists
     every save *)
  Fixpoint subseq (a b : list (text * text)) : bool :=
    match a, b with
    | [], _ => true
    | _ :: _, [] => false
    | x :: a', y :: b' => if text_eqb (fst x) (fst y) && text_eqb (snd x) (snd y) then subseq a' b' else subseq a b'
    end.

  Definition opt_eqb (a b : option N) : bool :=
    match a, b with Some x, Some y => N.eqb x y | None, None => true | _, _ => false end.

  Definition step_matches (obs eng : ostep) : bool :=
    N.eqb (os_run obs) (os_run eng) && opt_eqb (os_parent obs) (os_parent eng) && N.eqb (os_flow obs) (os_flow eng)
    && N.eqb (os_node obs) (os_node eng) && opt_eqb (os_exit obs) (os_exit eng) && Bool.eqb (os_resumed obs) (os_resumed eng)
    && subseq (os_saved obs) (os_saved eng)
    && forallb (fun r => ref_in r (os_touched eng)) (os_touched obs)
    && forallb (fun r => ref_in r (os_touched obs)) (os_touched eng).

  Fixpoint steps_match (a b : list ostep) : bool :=
    match a, b with
    | [], [] => true
    | x :: a', y :: b' => step_matches x y && steps_match a' b'
    | _, _ => false
    end.
End Replay.

Definition engine_trace (k : icase) : list ostep :=
  exec (k_names k) (k_flows k) (r_pick (k_flows k) (k_trace k)) (r_act (k_flows k) (k_trace k)) (r_touch (k_trace k))
       (k_msg_trigger k) 400 (k_start k) (k_history k).

(* ... and the trace the engine computes is itself accepted by the step acceptor (engine traces are a subset of accepted
   traces: proved for no more than these cases, see level_note) *)
Definition replay_ok (k : icase) : bool :=
  if k_exec k
  then steps_match (k_trace k) (engine_trace k) && accepts (k_names k) (k_flows k) (engine_trace k)
  else true.

Definition check (k : icase) : bool :=
  forallb (results_ok (k_flows k)) (k_inspections k)
  && forallb (waiting_ok (k_flows k)) (k_inspections k)
  && forallb (deps_ok (k_flows k)) (k_inspections k)
  && forallb valid_flow (k_flows k)
  && distinct_flow_ids (k_flows k)
  && accepts (k_names k) (k_flows k) (k_trace k)
  && replay_ok k.

(* which part differs (for debugging a mismatch): 1 results, 2 waiting exits, 3 dependencies, 4 validity, 5 trace not
   accepted, 6 the executable engine does not reproduce the trace *)
Definition diagnose (k : icase) : list N :=
  (if forallb (results_ok (k_flows k)) (k_inspections k) then [] else [1])
  ++ (if forallb (waiting_ok (k_flows k)) (k_inspections k) then [] else [2])
  ++ (if forallb (deps_ok (k_flows k)) (k_inspections k) then [] else [3])
  ++ (if forallb valid_flow (k_flows k) && distinct_flow_ids (k_flows k) then [] else [4])
  ++ (if accepts (k_names k) (k_flows k) (k_trace k) then [] else [5])
  ++ (if replay_ok k then [] else [6]).

Fixpoint mismatches_from (i : N) (ks : list icase) : list N :=
  match ks with
  | [] => []
  | k :: rest => (if check k then [] else [i]) ++ mismatches_from (i + 1) rest
  end.

Definition mismatches (ks : list icase) : list N := mismatches_from 0 ks.
