(* InspectCorr.v — comparison of model/Inspect.v with observations of the real code (written by
   harness/cmd/c20): the real flow.Inspect(sa) of every flow of a case, and the real execution trace of one
   history over these flows.  No proofs. *)
From Coq Require Import List NArith Bool.
From Verif Require Import model.Inspect.
Import ListNotations.
Open Scope N_scope.

(* what flow.Inspect reported for one flow *)
Record obs_inspection := {
  oi_results : list result_spec;    (* Inspection.Results: key, name, categories, node uuids — in order *)
  oi_waiting : list N;              (* Inspection.WaitingExits, in order *)
  oi_deps : list aref               (* Inspection.Dependencies as (type, identity) *)
}.

Record icase := {
  k_flows : list flow;
  k_inspections : list (N * obs_inspection);   (* per f_id *)
  k_trace : list ostep                         (* all steps of all runs, in order of creation *)
}.

Fixpoint texts_eqb (a b : list text) : bool :=
  match a, b with
  | [], [] => true
  | x :: a', y :: b' => text_eqb x y && texts_eqb a' b'
  | _, _ => false
  end.

Fixpoint ns_eqb (a b : list N) : bool :=
  match a, b with
  | [], [] => true
  | x :: a', y :: b' => N.eqb x y && ns_eqb a' b'
  | _, _ => false
  end.

Definition spec_eqb (a b : result_spec) : bool :=
  text_eqb (rs_key a) (rs_key b) && text_eqb (rs_name a) (rs_name b)
  && texts_eqb (rs_cats a) (rs_cats b) && ns_eqb (rs_nodes a) (rs_nodes b).

Fixpoint specs_eqb (a b : list result_spec) : bool :=
  match a, b with
  | [], [] => true
  | x :: a', y :: b' => spec_eqb x y && specs_eqb a' b'
  | _, _ => false
  end.

(* dependencies are compared as duplicate-free sets: their order depends on Go map iteration when translations
   in several languages contribute references (localization.Languages()) *)
Definition same_refs (a b : list aref) : bool :=
  Nat.eqb (List.length a) (List.length b) && forallb (fun r => ref_in r b) a && forallb (fun r => ref_in r a) b.

Definition results_ok (A : list flow) (fo : N * obs_inspection) : bool :=
  match lookup_flow A (fst fo) with
  | Some f => specs_eqb (inspect_results f) (oi_results (snd fo))
  | None => false
  end.
Definition waiting_ok (A : list flow) (fo : N * obs_inspection) : bool :=
  match lookup_flow A (fst fo) with
  | Some f => ns_eqb (waiting_exits f) (oi_waiting (snd fo))
  | None => false
  end.
Definition deps_ok (A : list flow) (fo : N * obs_inspection) : bool :=
  match lookup_flow A (fst fo) with
  | Some f => same_refs (dependencies f) (oi_deps (snd fo))
  | None => false
  end.

Definition check (k : icase) : bool :=
  forallb (results_ok (k_flows k)) (k_inspections k)
  && forallb (waiting_ok (k_flows k)) (k_inspections k)
  && forallb (deps_ok (k_flows k)) (k_inspections k)
  && forallb valid_flow (k_flows k)
  && accepts (k_flows k) (k_trace k).

(* which part differs (for debugging a mismatch): 1 results, 2 waiting exits, 3 dependencies, 4 validity, 5 trace *)
Definition diagnose (k : icase) : list N :=
  (if forallb (results_ok (k_flows k)) (k_inspections k) then [] else [1])
  ++ (if forallb (waiting_ok (k_flows k)) (k_inspections k) then [] else [2])
  ++ (if forallb (deps_ok (k_flows k)) (k_inspections k) then [] else [3])
  ++ (if forallb valid_flow (k_flows k) then [] else [4])
  ++ (if accepts (k_flows k) (k_trace k) then [] else [5]).

Fixpoint mismatches_from (i : N) (ks : list icase) : list N :=
  match ks with
  | [] => []
  | k :: rest => (if check k then [] else [i]) ++ mismatches_from (i + 1) rest
  end.

Definition mismatches (ks : list icase) : list N := mismatches_from 0 ks.
