(* RedactCorr.v — comparison of model/Redact.v with observations of the real code (written by harness/cmd/c19).
   No proofs.

   Three kinds of cases:
     CCtx    a run of a real session at an observation point: the model's session record is filled from the
             session state (channels, contact id/name/URN list with affinities, input URN, parent/child summaries;
             what gocommon derives from a path — printed URN, Format(), tel country — is passed in), the subtrees
             the model does not compute are passed as digests of what was observed there; expected = the walked
             run.RootContext tree (keys, shape, kinds and Render() of every leaf) + the merged environment's country
     CQuery  contactql.ParseQuery on a generated query under a policy: expected = projected error code, and the
             conditions of the accepted query in order
     CEval   contactql.EvaluateQuery of an accepted URN-only query on a real contact
     COp     Contact.AddURN / RemoveURN / UpdatePreferredChannel on a real contact: expected = the URN list afterwards *)
From Coq Require Import List String Ascii ZArith NArith Bool.
From Verif Require Import model.Redact.
Import ListNotations.
Open Scope string_scope.

(* byte strings that are awkward as literals *)
Fixpoint bs (l : list nat) : string :=
  match l with [] => EmptyString | n :: r => String (ascii_of_nat n) (bs r) end.

(* digest of an observed subtree the model carries as given *)
Definition opq (h : string) : xv := XLeaf "opaque" h.

Record ccase := { k_env : env; k_session : session; k_obs : xv; k_country : string }.

Definition check_ctx (k : ccase) : bool :=
  xv_eqb (root_context (k_env k) (k_session k)) (k_obs k)
  && String.eqb (merged_country (k_env k) (k_session k)) (k_country k).

Definition qleaf : Type := (prop_type * string * qop * string)%type.

Record qcase := { q_env : env; q_raw : raw; q_err : option qerr; q_leaves : list qleaf }.

Fixpoint leaves (q : qnode) : list qleaf :=
  match q with
  | QCond pt k op v => [(pt, k, op, v)]
  | QBool _ cs => (fix go (l : list qnode) : list qleaf := match l with [] => [] | c :: t => (leaves c ++ go t)%list end) cs
  end.

Definition pt_eqb (a b : prop_type) : bool :=
  match a, b with PAttribute, PAttribute | PURN, PURN | PField, PField => true | _, _ => false end.
Definition qop_eqb (a b : qop) : bool :=
  match a, b with
  | OpEq, OpEq | OpNe, OpNe | OpContains, OpContains | OpGt, OpGt | OpGe, OpGe | OpLt, OpLt | OpLe, OpLe => true
  | _, _ => false
  end.
Definition qerr_eqb (a b : qerr) : bool :=
  match a, b with
  | ErrRedactedURNs, ErrRedactedURNs | ErrUnknownPropertyType, ErrUnknownPropertyType
  | ErrInvalidPartialURN, ErrInvalidPartialURN | ErrInvalidPartialName, ErrInvalidPartialName
  | ErrUnsupportedContains, ErrUnsupportedContains | ErrUnsupportedComparison, ErrUnsupportedComparison
  | ErrOther, ErrOther => true
  | _, _ => false
  end.
Definition qleaf_eqb (a b : qleaf) : bool :=
  let '(pt, k, op, v) := a in let '(pt', k', op', v') := b in
  pt_eqb pt pt' && String.eqb k k' && qop_eqb op op' && String.eqb v v'.
Fixpoint qleaves_eqb (a b : list qleaf) : bool :=
  match a, b with
  | [], [] => true
  | x :: a', y :: b' => qleaf_eqb x y && qleaves_eqb a' b'
  | _, _ => false
  end.

Definition check_query (k : qcase) : bool :=
  let '(err, q) := parse_query (q_env k) (q_raw k) in
  match err, q_err k with
  | None, None => qleaves_eqb (leaves q) (q_leaves k)
  | Some a, Some b => qerr_eqb a b
  | _, _ => false
  end.

Record ecase := { e_q : qnode; e_urns : list urn; e_result : bool }.

Definition check_eval (k : ecase) : bool :=
  Bool.eqb (eval_query (fun _ _ _ _ => false) (e_urns k) (e_q k)) (e_result k).

(* the operations on a real contact's URN list whose effect depends on the URNs held *)
Inductive urn_op := UAdd (u : urn) | URemove (u : urn) | UPrefer (c : option channel).

(* scheme, path, channel affinity, and the URN TEXT scheme:path#display as stored afterwards: an operation that
   re-normalizes a held URN (a tel path gaining a +, a lower-cased address) shows up here *)
Definition utriple : Type := (string * string * string * string)%type.

Definition urn_text (u : urn) : string :=
  u_scheme u ++ ":" ++ u_path u ++ (if String.eqb (u_display u) "" then "" else "#" ++ u_display u).
Record ocase := { o_op : urn_op; o_before : list urn; o_after : list utriple }.

Definition apply_op (op : urn_op) (us : list urn) : list urn :=
  match op with
  | UAdd u => add_urn us u
  | URemove u => remove_urn us u
  | UPrefer c => update_preferred_channel c us
  end.

Fixpoint utriples_eqb (a b : list utriple) : bool :=
  match a, b with
  | [], [] => true
  | (s, p, c, t) :: a', (s', p', c', t') :: b' =>
      String.eqb s s' && String.eqb p p' && String.eqb c c' && String.eqb t t' && utriples_eqb a' b'
  | _, _ => false
  end.

Definition check_op (k : ocase) : bool :=
  utriples_eqb (map (fun u => (u_scheme u, u_path u, u_affinity u, urn_text u)) (apply_op (o_op k) (o_before k))) (o_after k).

Inductive case := CCtx (k : ccase) | CQuery (k : qcase) | CEval (k : ecase) | COp (k : ocase).

Definition check (c : case) : bool :=
  match c with CCtx k => check_ctx k | CQuery k => check_query k | CEval k => check_eval k | COp k => check_op k end.

Fixpoint mismatches_from (i : N) (cs : list case) : list N :=
  match cs with
  | [] => []
  | c :: rest => ((if check c then [] else [i]) ++ mismatches_from (i + 1) rest)%list
  end.

Definition mismatches (cs : list case) : list N := mismatches_from 0 cs.
