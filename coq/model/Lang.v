(* Lang.v — model of goflow's language selection for localized text (property C18).

   Transcribed from
     envs/environment.go        environment.DefaultLanguage
     flows/environment.go       sessionEnvironment.DefaultLanguage
     flows/runs/run.go          run.getLanguages, run.getText, run.GetText, run.GetTextArray
     flows/definition/localization.go   languageTranslation.getTextArray, localization.GetItemTranslation
     flows/actions/base.go      baseAction.evaluateMessage (language pick), currentLocale
     flows/routers/switch.go    SwitchRouter.matchCase (localized arguments, length rule)
     flows/routers/base.go      baseRouter.routeToCategory (localized category name)
     flows/actions/set_run_result.go  (localized category)

   No proofs in this file (so the model still runs when a proof breaks). *)

From Coq Require Import List NArith Bool.
Import ListNotations.
Open Scope N_scope.

Definition lang := N.                    (* 0 = i18n.NilLanguage *)
Definition text := list N.               (* code points *)
Definition nil_lang : lang := 0.

(* a translation table for ONE item and ONE property: language |-> stored string array.
   (The Go structure is map[lang]map[uuid]map[property][]string; the harness projects it.) *)
Definition translations := list (lang * list text).

Fixpoint lookup (tr : translations) (l : lang) : option (list text) :=
  match tr with
  | [] => None
  | (l', ts) :: rest => if N.eqb l l' then Some ts else lookup rest l
  end.

Definition text_empty (t : text) : bool := match t with [] => true | _ => false end.

(* languageTranslation.getTextArray: an absent, empty or [""] translation is "no translation" (nil) *)
Definition item_translation (tr : translations) (l : lang) : list text :=
  match lookup tr l with
  | None => []
  | Some [] => []
  | Some [t] => if text_empty t then [] else [t]
  | Some ts => ts
  end.

(* environment.DefaultLanguage: first allowed language *)
Definition env_default (allowed : list lang) : lang :=
  match allowed with [] => nil_lang | l :: _ => l end.

Definition lang_in (l : lang) (ls : list lang) : bool := existsb (N.eqb l) ls.

(* sessionEnvironment.DefaultLanguage *)
Definition merged_default (contact_lang : lang) (allowed : list lang) : lang :=
  if negb (N.eqb contact_lang nil_lang) && lang_in contact_lang allowed
  then contact_lang else env_default allowed.

(* run.getLanguages *)
Definition get_languages (contact_lang : lang) (allowed : list lang) (base : lang) : list lang :=
  let c := merged_default contact_lang allowed in
  let d := env_default allowed in
  (if N.eqb c nil_lang then [] else [c])
    ++ (if negb (N.eqb d nil_lang) && negb (N.eqb d c) then [d] else [])
    ++ [base].

(* run.getText with an explicit language list *)
Fixpoint get_text_in (langs : list lang) (base : lang) (native : list text) (tr : translations)
  : list text * lang :=
  match langs with
  | [] => (native, base)
  | l :: rest =>
      if N.eqb l base then (native, base)
      else match item_translation tr l with
           | [] => get_text_in rest base native tr
           | ts => (ts, l)
           end
  end.

(* run.getText with languages == nil *)
Definition get_text (contact_lang : lang) (allowed : list lang) (base : lang)
           (native : list text) (tr : translations) : list text * lang :=
  get_text_in (get_languages contact_lang allowed base) base native tr.

(* run.GetText: single value; textArray[0] — the array is never empty on this path:
   native is a singleton and a winning translation is non-empty (proved: get_text_single_nonempty) *)
Definition get_text1 (contact_lang : lang) (allowed : list lang) (base : lang)
           (native : text) (tr : translations) : text * lang :=
  let '(ts, l) := get_text contact_lang allowed base [native] tr in
  (hd [] ts, l).

(* evaluateMessage: the three properties and the language reported for the message.
   Texts here are template-free, so evaluation is the identity (templates are C04/C12's concern). *)
Record msg_def := {
  m_text : text;  m_atts : list text;  m_qrs : list text;
  tr_text : translations;  tr_atts : translations;  tr_qrs : translations
}.

Record msg_out := { o_text : text; o_atts : list text; o_qrs : list text; o_lang : lang }.

(* [ev_text], [ev_atts], [ev_qrs] stand for template evaluation of the localized values: the evaluated text, the
   evaluated attachments that remain (invalid ones are dropped) and the evaluated quick replies that remain (empty ones
   are dropped).  The reported language is decided on the EVALUATED parts: a message whose text evaluates to "" is a
   text-less message. *)
Definition pick_lang (t0 : text) (atts qrs : list text) (txt_lang att_lang qrs_lang : lang) : lang :=
  if negb (text_empty t0) then txt_lang
  else match atts with _ :: _ => att_lang
       | [] => match qrs with _ :: _ => qrs_lang | [] => nil_lang end
       end.

Definition evaluate_message_gen (ev_text : text -> text) (ev_atts ev_qrs : list text -> list text)
           (contact_lang : lang) (allowed : list lang) (base : lang) (m : msg_def) : msg_out :=
  let '(ltext, txt_lang) := get_text contact_lang allowed base [m_text m] (tr_text m) in
  let '(latts, att_lang) := get_text contact_lang allowed base (m_atts m) (tr_atts m) in
  let '(lqrs, qrs_lang) := get_text contact_lang allowed base (m_qrs m) (tr_qrs m) in
  let t0 := ev_text (hd [] ltext) in
  let atts := ev_atts latts in
  let qrs := ev_qrs lqrs in
  {| o_text := t0; o_atts := atts; o_qrs := qrs; o_lang := pick_lang t0 atts qrs txt_lang att_lang qrs_lang |}.

(* template-free values: evaluation is the identity *)
Definition evaluate_message (contact_lang : lang) (allowed : list lang) (base : lang) (m : msg_def)
  : msg_out :=
  evaluate_message_gen (fun t => t) (fun l => l) (fun l => l) contact_lang allowed base m.

(* matchCase: localized case arguments are ignored unless their number equals the base arguments' *)
Definition case_arguments (contact_lang : lang) (allowed : list lang) (base : lang)
           (args : list text) (tr : translations) : list text :=
  let '(largs, _) := get_text contact_lang allowed base args tr in
  if Nat.eqb (length largs) (length args) then largs else args.

(* evaluateMessage with an explicit language list (languages <> nil), as send_broadcast calls it *)
Definition evaluate_message_in_gen (ev_text : text -> text) (ev_atts ev_qrs : list text -> list text)
           (langs : list lang) (base : lang) (m : msg_def) : msg_out :=
  let '(ltext, txt_lang) := get_text_in langs base [m_text m] (tr_text m) in
  let '(latts, att_lang) := get_text_in langs base (m_atts m) (tr_atts m) in
  let '(lqrs, qrs_lang) := get_text_in langs base (m_qrs m) (tr_qrs m) in
  let t0 := ev_text (hd [] ltext) in
  let atts := ev_atts latts in
  let qrs := ev_qrs lqrs in
  {| o_text := t0; o_atts := atts; o_qrs := qrs; o_lang := pick_lang t0 atts qrs txt_lang att_lang qrs_lang |}.

Definition evaluate_message_in (langs : list lang) (base : lang) (m : msg_def) : msg_out :=
  evaluate_message_in_gen (fun t => t) (fun l => l) (fun l => l) langs base m.

(* SendBroadcastAction.Execute: one content per language, for the flow language followed by the languages the
   localization has entries for (sorted); each evaluated with the list [language; flow language]; the map keeps
   the last content written for a language (a repeated language gets the same content) *)
Definition broadcast_translations_gen (ev_text : text -> text) (ev_atts ev_qrs : list text -> list text)
           (base : lang) (loc_langs : list lang) (m : msg_def) : list (lang * msg_out) :=
  map (fun l => (l, evaluate_message_in_gen ev_text ev_atts ev_qrs [l; base] base m)) (base :: loc_langs).

Definition broadcast_translations (base : lang) (loc_langs : list lang) (m : msg_def)
  : list (lang * msg_out) :=
  broadcast_translations_gen (fun t => t) (fun l => l) (fun l => l) base loc_langs m.

Fixpoint text_eqb (a b : text) : bool :=
  match a, b with
  | [], [] => true
  | x :: a', y :: b' => N.eqb x y && text_eqb a' b'
  | _, _ => false
  end.

(* SetRunResultAction.Execute: GetText(action uuid, "category", category), blanked when equal to the category *)
Definition set_run_result_category_localized (contact_lang : lang) (allowed : list lang) (base : lang)
           (category : text) (tr : translations) : text :=
  let c := fst (get_text1 contact_lang allowed base category tr) in
  if text_eqb c category then [] else c.

(* routeToCategory: GetText(category uuid, "name", "") *)
Definition category_localized (contact_lang : lang) (allowed : list lang) (base : lang)
           (tr : translations) : text :=
  fst (get_text1 contact_lang allowed base [] tr).

(* ---- the other senders of localized text: send_email, say_msg, play_audio (flows/actions/send_email.go,
   say_msg.go, play_audio.go).  Each resolves its properties with GetText (get_text1). -------------------- *)

(* SendEmailAction.Execute: subject and body, each localized and then evaluated ([ev_s] also collapses whitespace);
   the email is skipped (error event) when either is empty as evaluated *)
Definition send_email_texts_gen (ev_s ev_b : text -> text) (contact_lang : lang) (allowed : list lang) (base : lang)
           (subject body : text) (tr_subject tr_body : translations) : option (text * text) :=
  let s := ev_s (fst (get_text1 contact_lang allowed base subject tr_subject)) in
  let b := ev_b (fst (get_text1 contact_lang allowed base body tr_body)) in
  if text_empty s || text_empty b then None else Some (s, b).

Definition send_email_texts (contact_lang : lang) (allowed : list lang) (base : lang)
           (subject body : text) (tr_subject tr_body : translations) : option (text * text) :=
  send_email_texts_gen (fun t => t) (fun t => t) contact_lang allowed base subject body tr_subject tr_body.

(* an IVR message: text, audio URL ("" = no attachment), language reported in its locale *)
Record ivr_out := { i_text : text; i_audio : text; i_lang : lang }.

(* SayMsgAction.Execute: text and audio URL resolved separately; the text is evaluated ([ev_text]); the audio URL
   becomes an attachment, so one that is too long for an attachment is dropped ([keep] gives "" for it); skipped when
   both are empty; the locale names the language of the TEXT, and for a message without text the language of its audio
   URL (its only attachment) *)
Definition say_msg_out_gen (ev_text keep : text -> text) (contact_lang : lang) (allowed : list lang) (base : lang)
           (txt audio : text) (tr_txt tr_audio : translations) : option ivr_out :=
  let '(t0, tl) := get_text1 contact_lang allowed base txt tr_txt in
  let t := ev_text t0 in
  let '(a0, al) := get_text1 contact_lang allowed base audio tr_audio in
  let a := keep a0 in
  if text_empty t && text_empty a then None
  else Some {| i_text := t; i_audio := a; i_lang := if text_empty t then al else tl |}.

Definition say_msg_out (contact_lang : lang) (allowed : list lang) (base : lang)
           (txt audio : text) (tr_txt tr_audio : translations) : option ivr_out :=
  say_msg_out_gen (fun t => t) (fun a => a) contact_lang allowed base txt audio tr_txt tr_audio.

(* PlayAudioAction.Execute: a text-less message; the URL is evaluated ([ev]; an evaluation error gives "") and must
   fit into an attachment ([keep]); skipped when it is empty after that; the locale names the language of the audio
   URL (the message's only attachment) *)
Definition play_audio_out_gen (ev keep : text -> text) (contact_lang : lang) (allowed : list lang) (base : lang)
           (audio : text) (tr_audio : translations) : option ivr_out :=
  let '(a0, al) := get_text1 contact_lang allowed base audio tr_audio in
  let a := keep (ev a0) in
  if text_empty a then None else Some {| i_text := []; i_audio := a; i_lang := al |}.

Definition play_audio_out (contact_lang : lang) (allowed : list lang) (base : lang)
           (audio : text) (tr_audio : translations) : option ivr_out :=
  play_audio_out_gen (fun t => t) (fun a => a) contact_lang allowed base audio tr_audio.

(* ---- send_msg built from a channel template: its variables are a localized item property like any other
   (flows/actions/send_msg.go); the templating pads/cuts them to the number of variables of the template
   translation (flows/template.go Templating) ------------------------------------------------------------ *)
Fixpoint pad_to (n : nat) (l : list text) : list text :=
  match n with
  | O => []
  | S n' => match l with [] => [] :: pad_to n' [] | x :: l' => x :: pad_to n' l' end
  end.

Definition template_variables_gen (ev : text -> text) (contact_lang : lang) (allowed : list lang) (base : lang)
           (nvars : nat) (vars : list text) (tr : translations) : list text :=
  pad_to nvars (map ev (fst (get_text contact_lang allowed base vars tr))).

Definition template_variables (contact_lang : lang) (allowed : list lang) (base : lang)
           (nvars : nat) (vars : list text) (tr : translations) : list text :=
  template_variables_gen (fun t => t) contact_lang allowed base nvars vars tr.

(* ---- BroadcastTranslations.ForContact (flows/msg.go): what a host gets for one recipient out of the contents of a
   broadcast_created event: the recipient's language if allowed, the environment default, the base language; the
   first non-empty text / attachments / quick replies among the entries of those languages; the language reported
   is the one that supplied the TEXT ------------------------------------------------------------------------ *)
Fixpoint lookup_bc (bc : list (lang * msg_out)) (l : lang) : option msg_out :=
  match bc with
  | [] => None
  | (l', o) :: rest =>
      (* a later entry for the same language overwrites an earlier one (Go map) *)
      match lookup_bc rest l with
      | Some o' => Some o'
      | None => if N.eqb l l' then Some o else None
      end
  end.

Definition for_contact_langs (recipient_lang : lang) (allowed : list lang) (base : lang) : list lang :=
  (if negb (N.eqb recipient_lang nil_lang) && lang_in recipient_lang allowed then [recipient_lang] else [])
    ++ [env_default allowed; base].

Definition fc_merge (acc : msg_out) (l : lang) (t : msg_out) : msg_out :=
  let take_text := text_empty (o_text acc) && negb (text_empty (o_text t)) in
  {| o_text := if take_text then o_text t else o_text acc;
     o_lang := if take_text then l else o_lang acc;
     o_atts := match o_atts acc with [] => o_atts t | _ => o_atts acc end;
     o_qrs := match o_qrs acc with [] => o_qrs t | _ => o_qrs acc end |}.

Definition for_contact (recipient_lang : lang) (allowed : list lang) (base : lang)
           (bc : list (lang * msg_out)) : msg_out :=
  fold_left (fun acc l => match lookup_bc bc l with None => acc | Some t => fc_merge acc l t end)
            (for_contact_langs recipient_lang allowed base)
            {| o_text := []; o_atts := []; o_qrs := []; o_lang := nil_lang |}.
