(* ExEvalCorr.v — comparison of the model ExEval.v with what the implementation returned (C04).
   The harness (harness/cmd/c04/corr.go) calls functions.XFUNCTIONS[name].Call / cases.XTESTS[name].Call /
   the operators / resolveLookup (through an expression) on the real code and records the outcome. *)
From Coq Require Import ZArith NArith List Bool.
From Verif Require Import lib.Dec model.NumText model.ExValues model.ExEval.
Import ListNotations.

(* instantiation of the unmodelled pieces for the compared inputs (ASCII texts only reach the tokenizer):
   [\pM\pL\pN_'] restricted to ASCII = letters, digits, _ and ' ; \pS restricted to ASCII = $ + < = > ^ ` | ~ *)
Definition ascii_wclass (c : N) : N :=
  if ((48 <=? c) && (c <=? 57) || (65 <=? c) && (c <=? 90) || (97 <=? c) && (c <=? 122) || (c =? 95) || (c =? 39))%N then 1%N
  else if ((c =? 36) || (c =? 43) || (c =? 60) || (c =? 61) || (c =? 62) || (c =? 94) || (c =? 96) || (c =? 124) || (c =? 126))%N then 2%N
  else 0%N.

Definition no_regex (pattern t : text) : option (list text) := None.
Definition no_ext (id : N) (args : list value) : res := NoFuel.          (* never compared *)

Inductive vkind := KNil | KErr | KText | KNum | KBool | KArr | KObj | KFn | KDT | KD | KT.

Definition vkind_eqb (a b : vkind) : bool :=
  match a, b with
  | KNil, KNil | KErr, KErr | KText, KText | KNum, KNum | KBool, KBool | KArr, KArr | KObj, KObj
  | KFn, KFn | KDT, KDT | KD, KD | KT, KT => true
  | _, _ => false
  end.

Definition kind_of (v : value) : vkind :=
  match v with
  | VNil => KNil | VErr => KErr | VText _ => KText | VNum _ => KNum | VBool _ => KBool
  | VArray _ => KArr | VObject _ _ => KObj | VFunc _ _ => KFn
  | VOpaque KDateTime _ => KDT | VOpaque KDate _ => KD | VOpaque KTime _ => KT
  end.

(* what the implementation did *)
Inductive impl_res :=
| IPanic
| IKind (k : vkind)                       (* only the kind of the result is compared *)
| INum (m e : Z)                          (* exact coefficient and exponent of the decimal *)
| IText (s : text)
| IBool (b : bool)
| IRender (k : vkind) (s : text).         (* kind and Render() of an array / object result *)

Inductive target :=
| TCall (f : fname) (args : list value)
| TOp (op : binop) (a b : value)
| TNeg (a : value)
| TLookup (container lookup : value) (dot : bool).

Record case := Case { c_target : target; c_impl : impl_res }.

Definition run (t : target) : res :=
  match t with
  | TCall f args => call_function ascii_wclass no_regex no_ext f args
  | TOp op a b => eval_binop op a b
  | TNeg a => eval_neg a
  | TLookup c l dot => resolve_lookup c l dot
  end.

Definition agrees (r : res) (i : impl_res) : bool :=
  match r, i with
  | Panic _, IPanic => true
  | Ret v, IKind k => vkind_eqb (kind_of v) k
  | Ret (VNum d), INum m e => (mant d =? m)%Z && (dexp d =? e)%Z
  | Ret (VText s), IText s' => text_eqb s s'
  | Ret (VBool b), IBool b' => Bool.eqb b b'
  | Ret v, IRender k s => vkind_eqb (kind_of v) k && text_eqb (render_value v) s
  | _, _ => false
  end.

Definition check (c : case) : bool := agrees (run (c_target c)) (c_impl c).

Fixpoint mismatches_from (i : N) (cs : list case) : list N :=
  match cs with
  | [] => []
  | c :: r => if check c then mismatches_from (i + 1) r else i :: mismatches_from (i + 1) r
  end.

Definition mismatches (cs : list case) : list N := mismatches_from 0 cs.
