(* ExEvalCorr.v — comparison of the model ExEval.v with what the implementation returned (C04).
   The harness (harness/cmd/c04/corr.go) calls functions.XFUNCTIONS[name].Call / cases.XTESTS[name].Call /
   the operators / resolveLookup (through an expression) on the real code and records the outcome. *)
From Coq Require Import ZArith NArith List Bool.
From Verif Require Import lib.Dec model.NumText model.ExValues model.ExEval.
Import ListNotations.

(* instantiation of the unmodelled pieces for the compared inputs (ASCII texts only reach the tokenizer):
   [\pM\pL\pN_'] restricted to ASCII = letters, digits, _ and ' ; \pS restricted to ASCII = $ + < = > ^ ` | ~ *)
Definition ascii_wclass (c : N) : N :=
  if ((48 <=? c) && (c <=? 57) || (65 <=? c) && (c <=? 90) || (97 <=? c) && (c <=? 122) || (c =? 95) || (c =? 39))%N then 1%N
  else if ((c =? 36) || (c =? 43) || (c =? 60) || (c =? 61) || (c =? 62) || (c =? 94) || (c =? 96) || (c =? 124) || (c =? 126))%N then 2%N
  else 0%N.

(* the regexp library as a table filled by the harness with Go's own regexp on exactly the (pattern, text)
   pairs of the compared regex_match calls: None = "(?mi)"+pattern does not compile, Some groups =
   FindStringSubmatch (no match = no groups) *)
Definition rx_table := list (text * text * option (list text)).

Fixpoint table_regex (tb : rx_table) (pattern t : text) : option (list text) :=
  match tb with
  | [] => None
  | (p, x, r) :: rest => if text_eqb p pattern && text_eqb x t then r else table_regex rest pattern t
  end.
Definition no_ext (id : N) (args : list value) : res := NoFuel.          (* never compared *)
Definition no_frac_pow (a b whole : dec) : pclass + dec := inr (Dec 0 0).   (* non-integral powers: kind only *)

Definition corr_functions : list (text * fname) := [
  ([97; 98; 115]%N, FAbs)   (* abs *);
  ([97; 110; 100]%N, FAnd)   (* and *);
  ([97; 114; 114; 97; 121]%N, FArray)   (* array *);
  ([98; 111; 111; 108; 101; 97; 110]%N, FBoolean)   (* boolean *);
  ([99; 104; 97; 114]%N, FChar)   (* char *);
  ([99; 111; 110; 99; 97; 116]%N, FConcat)   (* concat *);
  ([99; 111; 117; 110; 116]%N, FCount)   (* count *);
  ([100; 97; 116; 101; 95; 102; 114; 111; 109; 95; 112; 97; 114; 116; 115]%N, FDateFromParts)   (* date_from_parts *);
  ([100; 97; 116; 101; 116; 105; 109; 101; 95; 97; 100; 100]%N, FDateTimeAdd)   (* datetime_add *);
  ([100; 101; 102; 97; 117; 108; 116]%N, FDefault)   (* default *);
  ([101; 120; 116; 114; 97; 99; 116; 95; 111; 98; 106; 101; 99; 116]%N, FExtractObject)   (* extract_object *);
  ([102; 105; 101; 108; 100]%N, FField)   (* field *);
  ([102; 111; 114; 101; 97; 99; 104]%N, FForEach)   (* foreach *);
  ([102; 111; 114; 109; 97; 116; 95; 110; 117; 109; 98; 101; 114]%N, FFormatNumber)   (* format_number *);
  ([104; 97; 115; 95; 103; 114; 111; 117; 112]%N, FHasGroup)   (* has_group *);
  ([105; 102]%N, FIf)   (* if *);
  ([105; 115; 95; 101; 114; 114; 111; 114]%N, FIsError)   (* is_error *);
  ([106; 111; 105; 110]%N, FJoin)   (* join *);
  ([109; 97; 120]%N, FMax)   (* max *);
  ([109; 101; 97; 110]%N, FMean)   (* mean *);
  ([109; 105; 110]%N, FMin)   (* min *);
  ([109; 111; 100]%N, FMod)   (* mod *);
  ([110; 117; 109; 98; 101; 114]%N, FNumber)   (* number *);
  ([111; 98; 106; 101; 99; 116]%N, FObject)   (* object *);
  ([111; 114]%N, FOr)   (* or *);
  ([112; 101; 114; 99; 101; 110; 116]%N, FPercent)   (* percent *);
  ([114; 101; 112; 101; 97; 116]%N, FRepeat)   (* repeat *);
  ([114; 101; 112; 108; 97; 99; 101]%N, FReplace)   (* replace *);
  ([114; 101; 118; 101; 114; 115; 101]%N, FReverse)   (* reverse *);
  ([114; 111; 117; 110; 100]%N, FRound)   (* round *);
  ([114; 111; 117; 110; 100; 95; 100; 111; 119; 110]%N, FRoundDown)   (* round_down *);
  ([114; 111; 117; 110; 100; 95; 117; 112]%N, FRoundUp)   (* round_up *);
  ([115; 117; 109]%N, FSum)   (* sum *);
  ([116; 101; 120; 116]%N, FText)   (* text *);
  ([116; 101; 120; 116; 95; 99; 111; 109; 112; 97; 114; 101]%N, FTextCompare)   (* text_compare *);
  ([116; 101; 120; 116; 95; 108; 101; 110; 103; 116; 104]%N, FTextLength)   (* text_length *);
  ([116; 101; 120; 116; 95; 115; 108; 105; 99; 101]%N, FTextSlice)   (* text_slice *);
  ([116; 105; 109; 101; 95; 102; 114; 111; 109; 95; 112; 97; 114; 116; 115]%N, FTimeFromParts)   (* time_from_parts *);
  ([119; 111; 114; 100]%N, FWord)   (* word *);
  ([119; 111; 114; 100; 95; 115; 108; 105; 99; 101]%N, FWordSlice)   (* word_slice *)
].

(* functions.Lookup restricted to the modelled functions (the compared expressions name no others) *)
Definition corr_lookup (name : text) : option fname :=
  match find (fun p => text_eqb (fst p) name) corr_functions with Some p => Some (snd p) | None => None end.

Inductive vkind := KNil | KErr | KText | KNum | KBool | KArr | KObj | KFn | KDT | KD | KT.

Definition vkind_eqb (a b : vkind) : bool :=
  match a, b with
  | KNil, KNil | KErr, KErr | KText, KText | KNum, KNum | KBool, KBool | KArr, KArr | KObj, KObj
  | KFn, KFn | KDT, KDT | KD, KD | KT, KT => true
  | _, _ => false
  end.

Definition kind_of (v : value) : vkind :=
  match v with
  | VNil => KNil | VErr => KErr | VText _ => KText | VNum _ => KNum | VBool _ => KBool
  | VArray _ => KArr | VObject _ _ => KObj | VFunc _ _ => KFn
  | VOpaque KDateTime _ => KDT | VOpaque KDate _ => KD | VOpaque KTime _ => KT
  end.

(* what the implementation did *)
Inductive impl_res :=
| IPanic
| IKind (k : vkind)                       (* only the kind of the result is compared *)
| INum (m e : Z)                          (* exact coefficient and exponent of the decimal *)
| IText (s : text)
| IBool (b : bool)
| IRender (k : vkind) (s : text).         (* kind and Render() of an array / object result *)

Inductive target :=
| TCall (f : fname) (args : list value)
| TOp (op : binop) (a b : value)
| TNeg (a : value)
| TLookup (container lookup : value) (dot : bool)
| TEval (ctx : list (text * value)) (e : expr).

Record case := Case { c_target : target; c_impl : impl_res }.

Definition run (rx : rx_table) (t : target) : res :=
  match t with
  | TCall f args => call_function ascii_wclass (table_regex rx) no_ext f args
  | TOp op a b => eval_binop no_frac_pow op a b
  | TNeg a => eval_neg a
  | TLookup c l dot => resolve_lookup c l dot
  | TEval ctx e => eval ascii_wclass (table_regex rx) no_ext no_frac_pow corr_lookup ctx e
  end.

Definition agrees (r : res) (i : impl_res) : bool :=
  match r, i with
  | Panic _, IPanic => true
  | Ret v, IKind k => vkind_eqb (kind_of v) k
  | Ret (VNum d), INum m e => (mant d =? m)%Z && (dexp d =? e)%Z
  | Ret (VText s), IText s' => text_eqb s s'
  | Ret (VBool b), IBool b' => Bool.eqb b b'
  | Ret v, IRender k s => vkind_eqb (kind_of v) k && text_eqb (render_value v) s
  | _, _ => false
  end.

Definition check (rx : rx_table) (c : case) : bool := agrees (run rx (c_target c)) (c_impl c).

Fixpoint mismatches_from (rx : rx_table) (i : N) (cs : list case) : list N :=
  match cs with
  | [] => []
  | c :: r => if check rx c then mismatches_from rx (i + 1) r else i :: mismatches_from rx (i + 1) r
  end.

Definition mismatches (rx : rx_table) (cs : list case) : list N := mismatches_from rx 0 cs.
