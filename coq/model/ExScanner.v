(* ExScanner.v — model of the Excellent template scanner.
   Transcribed statement by statement from /repo/excellent/input.go (xinput: read, unread) and
   /repo/excellent/scanner.go (isNameChar, scanExpression, readTextLiteral, scanIdentifier, scanBody, Scan)
   and the token loop of VisitTemplate in /repo/excellent/base.go.  No proofs here.

   Conventions
   * strings are lists of code points (N); `eof` is rune(0) exactly as in input.go, so a NUL in the
     input is indistinguishable from the end of the input for the loops (as in the Go code);
   * the unread stack `unreadRunes[0..unreadCount)` is a list, top first; `unread` beyond the fixed
     capacity 4 is an index-out-of-range panic in Go: modelled by `Panic`;
   * `for ch := read(); ch != eof; ch = read()` loops are fuel recursions; `OutOfFuel` is a distinct
     result (proofs/ExScannerProofs.v shows it is never produced with the fuel `Scan` passes);
   * write-only buffers (`buf.WriteRune`) of scanExpression/readTextLiteral/scanBody are the list the
     loop returns (head = first rune written); scanIdentifier reads its buffer (`topLevel = buf.String()`)
     so there the buffer is an explicit accumulator;
   * Go library functions enter as section variables: `isln ch` = unicode.IsLetter(ch) || unicode.IsNumber(ch),
     `lower` = unicode.ToLower (strings.ToLower maps it over the runes of a valid UTF-8 string). *)
From Coq Require Import List NArith Bool.
Import ListNotations.
Open Scope N_scope.

Definition rune := N.
Definition text := list rune.

Definition eof : rune := 0.          (* input.go: const eof rune = rune(0) *)
Definition r_quote : rune := 34.     (* double quote *)
Definition r_lparen : rune := 40.
Definition r_rparen : rune := 41.
Definition r_dot : rune := 46.
Definition r_at : rune := 64.
Definition r_bslash : rune := 92.
Definition r_under : rune := 95.

Inductive res (A : Type) : Type :=
| Ok (a : A)
| Panic          (* Go run-time panic (index out of range in unread) *)
| OutOfFuel.
Arguments Ok {A} a.
Arguments Panic {A}.
Arguments OutOfFuel {A}.

Definition bind {A B} (r : res A) (f : A -> res B) : res B :=
  match r with
  | Ok a => f a
  | Panic => Panic
  | OutOfFuel => OutOfFuel
  end.

(* ---------------------------------------------------------------------------------------------- *)
(* input.go *)

Record xinput := { base : list rune; unread_runes : list rune }.

Definition capacity : nat := 4.      (* newInput: make([]rune, 4) *)

Definition new_input (s : text) : xinput := {| base := s; unread_runes := [] |}.

(* func (r *xinput) read() rune *)
Definition read (i : xinput) : rune * xinput :=
  match unread_runes i with
  | ch :: st => (ch, {| base := base i; unread_runes := st |})
  | [] =>
      match base i with
      | ch :: b => (ch, {| base := b; unread_runes := [] |})
      | [] => (eof, i)               (* ReadRune error (io.EOF) *)
      end
  end.

(* func (r *xinput) unread(ch rune): r.unreadRunes[r.unreadCount] = ch panics when unreadCount = 4 *)
Definition unread (ch : rune) (i : xinput) : res xinput :=
  if Nat.ltb (length (unread_runes i)) capacity
  then Ok {| base := base i; unread_runes := ch :: unread_runes i |}
  else Panic.

(* runes still to be delivered by read *)
Definition pending (i : xinput) : nat := length (unread_runes i) + length (base i).

(* ---------------------------------------------------------------------------------------------- *)
(* scanner.go *)

Inductive toktype := BODY | IDENTIFIER | EXPRESSION | EOF_T.

Definition toktype_eqb (a b : toktype) : bool :=
  match a, b with
  | BODY, BODY | IDENTIFIER, IDENTIFIER | EXPRESSION, EXPRESSION | EOF_T, EOF_T => true
  | _, _ => false
  end.

Fixpoint text_eqb (a b : text) : bool :=
  match a, b with
  | [], [] => true
  | x :: a', y :: b' => (x =? y) && text_eqb a' b'
  | _, _ => false
  end.

Section Scanner.

Variable isln : rune -> bool.        (* unicode.IsLetter(ch) || unicode.IsNumber(ch) *)
Variable lower : rune -> rune.       (* unicode.ToLower *)

(* func isNameChar(ch rune) bool *)
Definition is_name_char (ch : rune) : bool := isln ch || (ch =? r_under).

(* reads the remainder of a double-quoted text literal; returns the runes written to buf.
     if ch == DQUOTE && !escaped { break } else if ch == '\\' { escaped = !escaped } else { escaped = false } *)
Fixpoint read_text_literal (fuel : nat) (i : xinput) (escaped : bool) : res (text * xinput) :=
  match fuel with
  | O => OutOfFuel
  | S f =>
      let (ch, i1) := read i in
      if ch =? eof then Ok ([], i1)
      else if (ch =? r_quote) && negb escaped then Ok ([ch], i1)
      else
        let escaped' := if ch =? r_bslash then negb escaped else false in
        bind (read_text_literal f i1 escaped') (fun '(w, i2) => Ok (ch :: w, i2))
  end.

(* loop of scanExpression; returns (runes written to buf, parens at loop exit, input) *)
Fixpoint scan_expression_loop (fuel : nat) (i : xinput) (parens : nat) : res (text * nat * xinput) :=
  match fuel with
  | O => OutOfFuel
  | S f =>
      let (ch, i1) := read i in
      if ch =? eof then Ok ([], parens, i1)
      else if ch =? r_quote then
        bind (read_text_literal f i1 false) (fun '(lit, i2) =>
        bind (scan_expression_loop f i2 parens) (fun '(w, p, i3) => Ok (ch :: lit ++ w, p, i3)))
      else if ch =? r_lparen then
        bind (scan_expression_loop f i1 (S parens)) (fun '(w, p, i3) => Ok (ch :: w, p, i3))
      else if ch =? r_rparen then
        let parens' := Nat.pred parens in
        if Nat.eqb parens' 0 then Ok ([], parens', i1)
        else bind (scan_expression_loop f i1 parens') (fun '(w, p, i3) => Ok (ch :: w, p, i3))
      else
        bind (scan_expression_loop f i1 parens) (fun '(w, p, i3) => Ok (ch :: w, p, i3))
  end.

(* strings.ReplaceAll(body, "@@", "@"): non-overlapping occurrences, left to right *)
Fixpoint replace_atat (t : text) : text :=
  match t with
  | [] => []
  | c :: r =>
      match r with
      | d :: r' => if (c =? r_at) && (d =? r_at) then r_at :: replace_atat r' else c :: replace_atat r
      | [] => [c]
      end
  end.

(* func (s *xscanner) scanExpression() (XTokenType, string).  When the expression never closes, what was read is
   body text like any other: with unescapeBody set, "@@" in it is an escaped '@' (repair of hunt finding C12/1) *)
Definition scan_expression (unescape_body : bool) (fuel : nat) (i : xinput) : res (toktype * text * xinput) :=
  bind (scan_expression_loop fuel i 1) (fun '(w, p, i') =>
  if Nat.eqb p 0 then Ok (EXPRESSION, w, i')
  else Ok (BODY, r_at :: r_lparen :: (if unescape_body then replace_atat w else w), i')).

(* loop of scanIdentifier: buf and topLevel are read inside the loop, hence accumulators *)
Fixpoint scan_identifier_loop (fuel : nat) (i : xinput) (buf top : text) : res (text * text * xinput) :=
  match fuel with
  | O => OutOfFuel
  | S f =>
      let (ch, i1) := read i in
      if ch =? eof then Ok (buf, top, i1)
      else
        let top1 := if (ch =? r_dot) && text_eqb top [] then buf else top in
        if ch =? r_dot then
          let (peek, i2) := read i1 in
          if is_name_char peek then scan_identifier_loop f i2 (buf ++ [ch; peek]) top1
          else
            bind (unread peek i2) (fun i3 =>
            bind (unread r_dot i3) (fun i4 => Ok (buf, top1, i4)))
        else if is_name_char ch then scan_identifier_loop f i1 (buf ++ [ch]) top1
        else bind (unread ch i1) (fun i2 => Ok (buf, top1, i2))
  end.

(* func (s *xscanner) scanIdentifier() (XTokenType, string); tops = None models a nil slice *)
Definition scan_identifier (tops : option (list text)) (fuel : nat) (i : xinput)
  : res (toktype * text * xinput) :=
  bind (scan_identifier_loop fuel i [] []) (fun '(identifier, top, i') =>
  let top1 := if text_eqb top [] then identifier else top in
  let top2 := map lower top1 in
  match tops with
  | Some valid =>
      if existsb (text_eqb top2) valid then Ok (IDENTIFIER, identifier, i')
      else Ok (BODY, r_at :: identifier, i')
  | None => Ok (IDENTIFIER, identifier, i')
  end).

(* loop of scanBody *)
Fixpoint scan_body_loop (unescape_body : bool) (fuel : nat) (i : xinput) : res (text * xinput) :=
  match fuel with
  | O => OutOfFuel
  | S f =>
      let (ch, i1) := read i in
      if ch =? eof then Ok ([], i1)
      else if ch =? r_at then
        let (peek, i2) := read i1 in
        if peek =? r_lparen then
          bind (unread peek i2) (fun i3 => bind (unread r_at i3) (fun i4 => Ok ([], i4)))
        else if peek =? r_at then
          bind (scan_body_loop unescape_body f i2) (fun '(w, i3) =>
          Ok (r_at :: (if unescape_body then w else r_at :: w), i3))
        else if is_name_char peek then
          bind (unread peek i2) (fun i3 => bind (unread r_at i3) (fun i4 => Ok ([], i4)))
        else if peek =? eof then
          bind (scan_body_loop unescape_body f i2) (fun '(w, i3) => Ok (r_at :: w, i3))
        else
          bind (scan_body_loop unescape_body f i2) (fun '(w, i3) => Ok (r_at :: peek :: w, i3))
      else
        bind (scan_body_loop unescape_body f i1) (fun '(w, i3) => Ok (ch :: w, i3))
  end.

Definition scan_body (unescape_body : bool) (fuel : nat) (i : xinput) : res (toktype * text * xinput) :=
  bind (scan_body_loop unescape_body fuel i) (fun '(w, i') => Ok (BODY, w, i')).

(* func (s *xscanner) Scan() (XTokenType, string).  Every loop below reads at least one pending rune per
   iteration, so `S (S (pending i))` iterations are enough (proved). *)
Definition scan_fuel (i : xinput) : nat := S (S (pending i)).

Definition scan (tops : option (list text)) (unescape_body : bool) (i : xinput)
  : res (toktype * text * xinput) :=
  let fuel := scan_fuel i in
  let (ch, i1) := read i in
  if ch =? eof then Ok (EOF_T, [], i1)
  else if ch =? r_at then
    let (peek, i2) := read i1 in
    if peek =? r_lparen then scan_expression unescape_body fuel i2
    else if peek =? r_at then
      bind (unread r_at i2) (fun i3 => bind (unread r_at i3) (fun i4 => scan_body unescape_body fuel i4))
    else if is_name_char peek then
      bind (unread peek i2) (fun i3 => scan_identifier tops fuel i3)
    else
      bind (unread peek i2) (fun i3 => bind (unread r_at i3) (fun i4 => scan_body unescape_body fuel i4))
  else
    bind (unread ch i1) (fun i2 => scan_body unescape_body fuel i2).

(* all tokens up to EOF: `for tokenType, token := scanner.Scan(); tokenType != EOF; ...` *)
Fixpoint scan_all_loop (tops : option (list text)) (unescape_body : bool) (fuel : nat) (i : xinput)
  : res (list (toktype * text)) :=
  match fuel with
  | O => OutOfFuel
  | S f =>
      bind (scan tops unescape_body i) (fun '(ty, tok, i') =>
      if toktype_eqb ty EOF_T then Ok []
      else bind (scan_all_loop tops unescape_body f i') (fun rest => Ok ((ty, tok) :: rest)))
  end.

Definition scan_all (tops : option (list text)) (unescape_body : bool) (s : text)
  : res (list (toktype * text)) :=
  scan_all_loop tops unescape_body (S (S (length s))) (new_input s).

(* ---------------------------------------------------------------------------------------------- *)
(* base.go: VisitTemplate + the callback of Evaluator.Template.  `eval_expr tok` is the text the
   expression evaluates to (None = error value: nothing is written, the error is collected).
   Result: (output, number of collected errors). *)

Fixpoint template_tokens (eval_expr : text -> option text) (toks : list (toktype * text)) : text * nat :=
  match toks with
  | [] => ([], O)
  | (ty, tok) :: rest =>
      let (out, errs) := template_tokens eval_expr rest in
      match ty with
      | BODY => (tok ++ out, errs)
      | IDENTIFIER | EXPRESSION =>
          match eval_expr tok with
          | Some v => (v ++ out, errs)
          | None => (out, S errs)
          end
      | EOF_T => (out, errs)
      end
  end.

(* Evaluator.Template: allowed top levels = ctx.Properties() (never nil), unescapeBody = true;
   VisitTemplate returns immediately for the empty template *)
Definition template_with (eval_expr : text -> option text) (tops : list text) (s : text) : res (text * nat) :=
  match s with
  | [] => Ok ([], O)
  | _ => bind (scan_all (Some tops) true s) (fun toks => Ok (template_tokens eval_expr toks))
  end.

End Scanner.
