(* CqlSyntax.v — types of the contact query language model (contactql/parser.go: Operator, BoolOperator,
   PropertyType, Condition, BoolCombination; antlr/ContactQL.g4: token kinds).  Definitions only. *)
From Coq Require Import List NArith Bool.
Import ListNotations.
Open Scope N_scope.

Definition text := list N.     (* a string as its list of code points *)

(* token kinds of ContactQL.g4; the generated table coq/gen/GrammarCQL.v refers to these by name *)
Inductive tkind := LPAREN | RPAREN | AND | OR | COMPARATOR | STRING | PROPERTY | TEXT | WS | ERROR.

Definition tkind_eqb (a b : tkind) : bool :=
  match a, b with
  | LPAREN, LPAREN | RPAREN, RPAREN | AND, AND | OR, OR | COMPARATOR, COMPARATOR | STRING, STRING
  | PROPERTY, PROPERTY | TEXT, TEXT | WS, WS | ERROR, ERROR => true
  | _, _ => false
  end.

(* shapes of the alternatives of the parser rule `expression` *)
Inductive galt :=
| GBinary (op : option tkind)   (* expression OP expression; None = juxtaposition (implicit AND) *)
| GGroup                        (* LPAREN expression RPAREN *)
| GCondition                    (* PROPERTY COMPARATOR literal *)
| GLiteral.                     (* literal *)

Inductive litkind := LitText | LitString.

(* contactql.Operator *)
Inductive oper :=
| OpEqual | OpNotEqual | OpContains | OpGreaterThan | OpLessThan | OpGreaterThanOrEqual | OpLessThanOrEqual
| OpOther (t : text).    (* Operator(operatorText) for a comparator text that is none of the constants: unreachable
                            with the current COMPARATOR rule, kept so that the conversion is total *)

(* contactql.BoolOperator *)
Inductive boolop := BAnd | BOr.

(* contactql.PropertyType; PNone is the zero value left by VisitCondition after an unknown-prefix error *)
Inductive ptype := PAttr | PURN | PField | PNone.

(* assets.FieldType as far as contactql distinguishes; FOther stands for every other declared type
   (state, district, ward: behave like text in validate) *)
Inductive ftype := FText | FNumber | FDatetime | FOther.

(* contactql.QueryNode.  Since fix 6978ee3 a parsed Condition also remembers the date format of the environment it was
   parsed in (an unexported field the text does not carry; ValueAsDate reads the value in it).  [Cond] does not model
   it: "structurally identical" compares property type, key, operator and value; re-parsing in the same environment
   restores the same date format, so nothing the theorems compare depends on it. *)
Inductive node :=
| Cond (pt : ptype) (key : text) (op : oper) (value : text)
| Comb (op : boolop) (children : list node).

Fixpoint text_eqb (a b : text) : bool :=
  match a, b with
  | [], [] => true
  | x :: a', y :: b' => N.eqb x y && text_eqb a' b'
  | _, _ => false
  end.

Definition boolop_eqb (a b : boolop) : bool :=
  match a, b with BAnd, BAnd | BOr, BOr => true | _, _ => false end.

Definition ptype_eqb (a b : ptype) : bool :=
  match a, b with PAttr, PAttr | PURN, PURN | PField, PField | PNone, PNone => true | _, _ => false end.

Definition oper_eqb (a b : oper) : bool :=
  match a, b with
  | OpEqual, OpEqual | OpNotEqual, OpNotEqual | OpContains, OpContains | OpGreaterThan, OpGreaterThan
  | OpLessThan, OpLessThan | OpGreaterThanOrEqual, OpGreaterThanOrEqual | OpLessThanOrEqual, OpLessThanOrEqual => true
  | OpOther x, OpOther y => text_eqb x y
  | _, _ => false
  end.

Fixpoint node_eqb (a b : node) : bool :=
  match a, b with
  | Cond p k o v, Cond p' k' o' v' => ptype_eqb p p' && text_eqb k k' && oper_eqb o o' && text_eqb v v'
  | Comb o cs, Comb o' cs' =>
    boolop_eqb o o' &&
    (fix go (x y : list node) : bool :=
       match x, y with
       | [], [] => true
       | n :: x', m :: y' => node_eqb n m && go x' y'
       | _, _ => false
       end) cs cs'
  | _, _ => false
  end.

(* assoc-list lookup on text keys *)
Fixpoint lookup {A} (k : text) (l : list (text * A)) : option A :=
  match l with
  | [] => None
  | (k', v) :: r => if text_eqb k k' then Some v else lookup k r
  end.
