(* InspectExec.v — an EXECUTABLE model of flow execution for property C20, over the flows of model/Inspect.v.

   Transcribed (for the fragment below) from flows/engine/session.go:
     continueUntilWait   the loop [go]: pushed flow -> new run at the flow's first node; exit -> its destination; no
                         destination -> the run is complete and its parent, if it is to be resumed, picks the exit of
                         the node it is paused on (findResumeExit -> pickNodeExit) and goes on
     visitNode           [visit]: a step is created, the actions run in order, a pushed flow or a wait ends the visit,
                         otherwise the node's exit is picked
     pickNodeExit        [route_step]: with a router the category picked decides result and exit
                         (routers/base.go routeVia: result saved under result_name with the category's name when
                         result_name is non-empty; exit = the category's exit); without one the first exit
     tryToResume         [resume]: only a step waiting on a node whose router has a wait is resumed; a timeout resume
                         is accepted only when the wait has a timeout, and routes to the timeout category
                         (RouteTimeout)
   and from flows/actions: set_run_result (saves name/category when its value template evaluates), the five saver
   actions (save result_name with one of the categories of the source-derived table, under the table's guard),
   enter_flow (pushes the flow when it is among the assets).

   What is NOT computed but supplied by oracles ([Section] variables — every theorem holds for all of them):
     pick   which category the router's tests / random draw pick (None: the router fails to pick one)
     act    per action and visit: did the template evaluate / which of its categories does the service outcome
            select / could the flow be entered
     touch  which of the assets the node names — by a fixed reference or template path (node_asset_refs) or by a
            literal name / the default topic (node_implicit_refs) — the events of this visit carry
   Outside the fragment: run expiration and dial resumes, failures bubbling up to parent runs (a failed router stops
   the session here), the step limit (fuel plays its part), contact/asset state.  No proofs in this file. *)
From Coq Require Import List NArith Bool.
From Verif Require Import model.ActionRow gen.ActionResults model.Inspect.
Import ListNotations.
Open Scope N_scope.

Inductive act_outcome := AOk (k : nat) | ASkip.

Section Exec.
  Variable names : list named.       (* which asset a literal name denotes (Inspect.node_implicit_refs) *)
  Variable A : list flow.
  (* the last-but-one argument of each oracle is the index (in order of creation) of the step concerned *)
  Variable pick : N -> N -> nat -> option N.            (* flow id, node id, step index -> category id *)
  Variable act : N -> N -> nat -> nat -> act_outcome.   (* flow id, node id, action index, step index *)
  Variable touch : N -> N -> nat -> aref -> bool.       (* flow id, node id, step index, reference *)
  (* waits/msg.go MsgWait.Begin: with a msg trigger the wait of the very first step of the session skips itself *)
  Variable msg_trigger : bool.

  (* ---- actions *)

  (* what executing one action saves: at most one result *)
  Definition save_of (a : action) (out : act_outcome) : option (text * text) :=
    match a_behav a, out with
    | BSetRunResult name cat, AOk _ => Some (name, cat)
    | BSaver s rn, AOk k =>
        if sv_saves s && (negb (sv_guarded s) || negb (text_empty rn))
        then match nth_error (sv_save_cats s) k with Some c => Some (rn, c) | None => None end
        else None
    | _, _ => None
    end.

  Fixpoint act_saves (fid nid : N) (t : nat) (i : nat) (acts : list action) : list (text * text) :=
    match acts with
    | [] => []
    | a :: rest => match save_of a (act fid nid i t) with
                   | Some x => x :: act_saves fid nid t (S i) rest
                   | None => act_saves fid nid t (S i) rest
                   end
    end.

  Definition flow_by_uuid (u : text) : option flow := find (fun f => text_eqb (f_uuid f) u) A.

  (* session.PushFlow: the last enter_flow of the node that succeeds wins *)
  Fixpoint act_pushed (fid nid : N) (t : nat) (i : nat) (acts : list action) (acc : option (flow * bool))
    : option (flow * bool) :=
    match acts with
    | [] => acc
    | a :: rest =>
        let acc' := match a_behav a, act fid nid i t with
                    | BEnterFlow u term, AOk _ => match flow_by_uuid u with Some cf => Some (cf, term) | None => acc end
                    | _, _ => acc
                    end in
        act_pushed fid nid t (S i) rest acc'
    end.

  (* ---- routing *)

  Definition set_route (o : ostep) (saved : list (text * text)) (ex : option N) (resumed : bool) : ostep :=
    {| os_run := os_run o; os_parent := os_parent o; os_flow := os_flow o; os_node := os_node o;
       os_saved := saved; os_touched := os_touched o; os_exit := ex; os_resumed := resumed |}.

  (* pickNodeExit on the step [o] of node [n]; None = the router failed to pick a category *)
  Definition route_step (n : node) (o : ostep) (choice : option N) (resumed : bool) : option ostep :=
    match n_router n with
    | None => match n_exits n with
              | x :: _ => Some (set_route o (os_saved o) (Some (e_id x)) resumed)
              | [] => Some (set_route o (os_saved o) None resumed)
              end
    | Some r =>
        match choice with
        | None => None
        | Some cid =>
            match find (fun c => N.eqb (c_id c) cid) (rt_categories r) with
            | None => None
            | Some c =>
                Some (set_route o
                        (os_saved o ++ (if text_empty (rt_result_name r) then [] else [(rt_result_name r, c_name c)]))
                        (Some (c_exit c)) resumed)
            end
        end
    end.

  (* ---- session *)

  Record run_ := { r_flow : N; r_parent : option nat; r_resume_parent : bool; r_last : option nat }.

  Record sess := {
    s_runs : list run_;
    s_steps : list ostep;          (* in order of creation *)
    s_wait : option nat            (* index of the waiting step *)
  }.

  Definition upd {X : Type} (l : list X) (i : nat) (x : X) : list X := firstn i l ++ x :: skipn (S i) l.

  Definition set_last (rs : list run_) (r : nat) (idx : nat) : list run_ :=
    match nth_error rs r with
    | Some x => upd rs r {| r_flow := r_flow x; r_parent := r_parent x; r_resume_parent := r_resume_parent x; r_last := Some idx |}
    | None => rs
    end.

  Definition opt_nat_to_N (p : option nat) : option N :=
    match p with Some x => Some (N.of_nat x) | None => None end.

  Definition first_node (f : flow) : option N := match f_nodes f with n :: _ => Some (n_id n) | [] => None end.

  (* the main loop: run [r] is to go to [dest] *)
  Fixpoint go (fuel : nat) (st : sess) (r : nat) (dest : option N) : sess :=
    match fuel with
    | O => st
    | S fuel' =>
        match nth_error (s_runs st) r with
        | None => st
        | Some rr =>
            match dest with
            | None =>
                (* the run is complete: back to the parent, which picks the exit of the node it is paused on *)
                match r_parent rr, r_resume_parent rr with
                | Some p, true =>
                    match nth_error (s_runs st) p with
                    | None => st
                    | Some pr =>
                        match r_last pr with
                        | None => st
                        | Some idx =>
                            match nth_error (s_steps st) idx with
                            | None => st
                            | Some o =>
                                match os_exit o, lookup_flow A (os_flow o) with
                                | None, Some f =>
                                    match lookup_node f (os_node o) with
                                    | None => st
                                    | Some n =>
                                        match route_step n o (pick (os_flow o) (os_node o) idx) (os_resumed o) with
                                        | None => st
                                        | Some o' =>
                                            go fuel' {| s_runs := s_runs st; s_steps := upd (s_steps st) idx o';
                                                        s_wait := s_wait st |}
                                               p (exit_dest n (os_exit o'))
                                        end
                                    end
                                | _, _ => st
                                end
                            end
                        end
                    end
                | _, _ => st
                end
            | Some nid =>
                match lookup_flow A (r_flow rr) with
                | None => st
                | Some f =>
                    match lookup_node f nid with
                    | None => st
                    | Some n =>
                        let idx := List.length (s_steps st) in
                        let t := idx in
                        let o := {| os_run := N.of_nat r; os_parent := opt_nat_to_N (r_parent rr); os_flow := r_flow rr;
                                    os_node := nid; os_saved := act_saves (r_flow rr) nid t 0 (n_actions n);
                                    os_touched := filter (touch (r_flow rr) nid t) (node_asset_refs n ++ node_implicit_refs names n);
                                    os_exit := None; os_resumed := false |} in
                        let runs1 := set_last (s_runs st) r idx in
                        match act_pushed (r_flow rr) nid t 0 (n_actions n) None with
                        | Some (cf, term) =>
                            let r' := List.length runs1 in
                            go fuel' {| s_runs := runs1 ++ [ {| r_flow := f_id cf; r_parent := Some r;
                                                                r_resume_parent := negb term; r_last := None |} ];
                                        s_steps := s_steps st ++ [o]; s_wait := s_wait st |}
                               r' (first_node cf)
                        | None =>
                            if node_has_wait n && negb (msg_trigger && Nat.eqb idx 0)
                            then {| s_runs := runs1; s_steps := s_steps st ++ [o]; s_wait := Some idx |}
                            else match route_step n o (pick (r_flow rr) nid t) false with
                                 | None => {| s_runs := runs1; s_steps := s_steps st ++ [o]; s_wait := s_wait st |}
                                 | Some o' =>
                                     go fuel' {| s_runs := runs1; s_steps := s_steps st ++ [o']; s_wait := s_wait st |}
                                        r (exit_dest n (os_exit o'))
                                 end
                        end
                    end
                end
            end
        end
    end.

  (* session.Resume with a msg (timeout = false) or wait-timeout (timeout = true) resume *)
  Definition resume (fuel : nat) (st : sess) (timeout : bool) : sess :=
    match s_wait st with
    | None => st
    | Some idx =>
        match nth_error (s_steps st) idx with
        | None => st
        | Some o =>
            match os_exit o, lookup_flow A (os_flow o) with
            | None, Some f =>
                match lookup_node f (os_node o) with
                | None => st
                | Some n =>
                    match n_router n with
                    | None => st
                    | Some rt =>
                        match rt_wait rt with
                        | None => st
                        | Some tmo =>
                            let choice := if timeout then tmo else pick (os_flow o) (os_node o) idx in
                            match (if timeout then tmo else Some 0) with
                            | None => st      (* a timeout resume on a wait without timeout is rejected *)
                            | Some _ =>
                                match route_step n o choice true with
                                | None => {| s_runs := s_runs st; s_steps := s_steps st; s_wait := None |}
                                | Some o' =>
                                    go fuel {| s_runs := s_runs st; s_steps := upd (s_steps st) idx o';
                                               s_wait := None |}
                                       (N.to_nat (os_run o)) (exit_dest n (os_exit o'))
                                end
                            end
                        end
                    end
                end
            | _, _ => st
            end
        end
    end.

  Definition start (fuel : nat) (fid : N) : sess :=
    match lookup_flow A fid with
    | None => {| s_runs := []; s_steps := []; s_wait := None |}
    | Some f =>
        go fuel {| s_runs := [ {| r_flow := fid; r_parent := None; r_resume_parent := false; r_last := None |} ];
                   s_steps := []; s_wait := None |} 0 (first_node f)
    end.

  (* a whole history: trigger on flow [fid], then the resumes (true = wait timeout, false = msg) *)
  Definition exec (fuel : nat) (fid : N) (history : list bool) : list ostep :=
    s_steps (fold_left (resume fuel) history (start fuel fid)).
End Exec.
