(* ExParseCorr.v — comparison of the lexer + parser + visitor models (model/ExLexer.v, model/ExParser.v over
   gen/GrammarE3.v) and of the printer model (model/ExPrinter.v) with what the real excellent.Parse and
   Expression.String() returned (written by harness/cmd/c11).  No proofs. *)
From Coq Require Import List NArith Bool.
From Verif Require Import lib.Quote model.ExSyntax model.ExLexer model.ExParser model.ExPrinter.
Import ListNotations.
Open Scope N_scope.

Record pcase := {
  p_in : text;                 (* the expression source *)
  p_low : list (N * N);        (* (c, unicode.ToLower c) for the runes of the input that change *)
  p_print : list N;            (* runes of the text-literal VALUES of the real tree with unicode.IsPrint *)
  (* observed on the implementation *)
  p_ok : bool;                 (* excellent.Parse returned no error *)
  p_tree : expr;               (* the tree Parse built: ENum carries NumberLiteral.Value.Describe(), EText the
                                  unquoted value, ECtxRef/EDot/EAnon the names as stored; ENull when not p_ok *)
  p_str : text                 (* Expression.String() ; [] when not p_ok *)
}.

Fixpoint text_eqb (a b : text) : bool :=
  match a, b with
  | [], [] => true
  | x :: a', y :: b' => (x =? y) && text_eqb a' b'
  | _, _ => false
  end.

Fixpoint texts_eqb (a b : list text) : bool :=
  match a, b with
  | [], [] => true
  | x :: a', y :: b' => text_eqb x y && texts_eqb a' b'
  | _, _ => false
  end.

Definition binop_eqb (a b : binop) : bool :=
  match a, b with
  | OConcat, OConcat | OAdd, OAdd | OSub, OSub | OMul, OMul | ODiv, ODiv | OExp, OExp
  | OEq, OEq | ONeq, ONeq | OLt, OLt | OLte, OLte | OGt, OGt | OGte, OGte => true
  | _, _ => false
  end.

Definition mem_rune (l : list N) (c : N) : bool := existsb (N.eqb c) l.

Fixpoint assoc_rune (l : list (N * N)) (c : N) : N :=
  match l with
  | [] => c
  | (a, b) :: r => if a =? c then b else assoc_rune r c
  end.

(* model tree (number literals carry the lexeme) against the observed tree (number literals carry the
   canonical rendering of the decimal the lexeme denotes) *)
Fixpoint tree_match (m o : expr) {struct m} : bool :=
  match m, o with
  | ECtxRef a, ECtxRef b => text_eqb a b
  | EDot c l, EDot c' l' => tree_match c c' && text_eqb l l'
  | EIndex c l, EIndex c' l' => tree_match c c' && tree_match l l'
  | ECall f ps, ECall f' ps' =>
      tree_match f f' &&
      (fix go (xs ys : list expr) {struct xs} : bool :=
         match xs, ys with
         | [], [] => true
         | x :: xs', y :: ys' => tree_match x y && go xs' ys'
         | _, _ => false
         end) ps ps'
  | EAnon a b, EAnon a' b' => texts_eqb a a' && tree_match b b'
  | EBin o1 a b, EBin o2 a' b' => binop_eqb o1 o2 && tree_match a a' && tree_match b b'
  | ENeg a, ENeg a' => tree_match a a'
  | EParen a, EParen a' => tree_match a a'
  | EText v, EText v' => text_eqb v v'
  | ENum l, ENum r => text_eqb (num_render l) r
  | EBool x, EBool y => Bool.eqb x y
  | ENull, ENull => true
  | _, _ => false
  end.

Definition check (k : pcase) : bool :=
  match lex (p_in k) with
  | LOk ts =>
      match parse_tokens ts with
      | POk e =>
          p_ok k && tree_match e (p_tree k)
          && text_eqb (print (assoc_rune (p_low k)) (mem_rune (p_print k)) e) (p_str k)
      | PSyntax => negb (p_ok k)
      | POutside => false
      | PFuelOut => false
      end
  | _ => false
  end.

Fixpoint mismatches_from (i : N) (ks : list pcase) : list N :=
  match ks with
  | [] => []
  | k :: rest => (if check k then [] else [i]) ++ mismatches_from (i + 1) rest
  end.

Definition mismatches (ks : list pcase) : list N := mismatches_from 0 ks.
