(* LegacySyntax.v — syntax layer for property C17: code-point classes, tokens, the lexers and parsers
   of the two expression languages at the token/precedence level, and the canonical printer.
   No proofs here (proofs/LegacySyntaxProofs.v).

   What is modelled
   * /repo/antlr/Excellent3.g4 (new syntax) and /repo/antlr/Excellent1.g4 (legacy syntax): lexer rules
     with ANTLR semantics (longest match, ties broken by rule order, WS skipped, the catch-all ERROR rule),
     and the `expression` rule with ANTLR4's treatment of left recursion: precedence = order of the
     alternatives, binary operators left associative (`{precpred(p)}? op expression[p+1]`), the prefix
     minus parses its operand at its own (highest) precedence, so -2 ^ 2 is (-2) ^ 2 in both grammars.
   * UnicodeLetter / UnicodeDigit come from /repo/antlr/LexUnicode.g4 through gen/LegacyTable.v.
   * Not modelled: Excellent3's anonymous functions `(a, b) => e` (the ARROW token is lexed; the parser
     model rejects it: such input is outside the model, the legacy migrator cannot produce it).
   The generated ANTLR parsers and the ANTLR runtime are NOT verified: these definitions re-implement the
   .g4 semantics and are validated differentially against excellent.Parse and
   expressions.MigrateTemplate by harness/cmd/c17 on every run.

   Lexers are structurally recursive: `tok_at c r` returns the token starting at c and the number of
   further characters it spans; the loop skips that many characters (no fuel).
   Parsers use fuel (4 * number of tokens + 8 is always enough, see the proofs); None = syntax error
   (or out of fuel, excluded by the proofs on the inputs the theorems speak about). *)
From Coq Require Import List NArith Bool Ascii.
From Coq Require String.
Import String.StringSyntax.
Delimit Scope string_scope with string.
From Verif Require Import model.LegacyTy gen.LegacyTable.
Import ListNotations.
Open Scope N_scope.

(* ---------------------------------------------------------------------------------------------- *)
(* strings *)

Fixpoint s2t (s : String.string) : text :=
  match s with
  | String.EmptyString => []
  | String.String a r => N_of_ascii a :: s2t r
  end.

Fixpoint text_eqb (a b : text) : bool :=
  match a, b with
  | [], [] => true
  | x :: a', y :: b' => (x =? y) && text_eqb a' b'
  | _, _ => false
  end.

Fixpoint texts_eqb (a b : list text) : bool :=
  match a, b with
  | [], [] => true
  | x :: a', y :: b' => text_eqb x y && texts_eqb a' b'
  | _, _ => false
  end.

Fixpoint span (p : N -> bool) (s : text) : text * text :=
  match s with
  | [] => ([], [])
  | c :: r => if p c then let (a, b) := span p r in (c :: a, b) else ([], s)
  end.

Fixpoint is_prefix (p s : text) : bool :=
  match p, s with
  | [], _ => true
  | x :: p', y :: s' => (x =? y) && is_prefix p' s'
  | _ :: _, [] => false
  end.

Fixpoint join (sep : text) (xs : list text) : text :=
  match xs with
  | [] => []
  | [x] => x
  | x :: r => x ++ sep ++ join sep r
  end.

Definition c_dquote : N := 34.
Definition c_bslash : N := 92.

(* ---------------------------------------------------------------------------------------------- *)
(* code-point classes *)

Fixpoint in_ranges (c : N) (rs : list (N * N)) : bool :=
  match rs with
  | [] => false
  | (lo, hi) :: r => ((lo <=? c) && (c <=? hi)) || in_ranges c r
  end.

Definition ascii_digit (c : N) : bool := (48 <=? c) && (c <=? 57).
Definition ascii_upper (c : N) : bool := (65 <=? c) && (c <=? 90).
Definition ascii_lower (c : N) : bool := (97 <=? c) && (c <=? 122).
Definition ascii_letter (c : N) : bool := ascii_upper c || ascii_lower c.

(* LexUnicode.g4: fragment UnicodeLetter / UnicodeDigit *)
Definition uletter (c : N) : bool :=
  if c <? 128 then ascii_letter c else in_ranges c uletter_ranges.
Definition udigit (c : N) : bool :=
  if c <? 128 then ascii_digit c else in_ranges c udigit_ranges.

(* WS: [ \t\n\r]+ -> skip *)
Definition is_ws (c : N) : bool := (c =? 32) || (c =? 9) || (c =? 10) || (c =? 13).

(* Excellent3 NAME: (UnicodeLetter | '_')+ (UnicodeLetter | UnicodeDigit | '_')* *)
Definition name_start3 (c : N) : bool := uletter c || (c =? 95).
Definition name_char3 (c : N) : bool := uletter c || udigit c || (c =? 95).
(* Excellent1 NAME: UnicodeLetter+ (UnicodeLetter | UnicodeDigit | '_' | '.')* *)
Definition name_start1 (c : N) : bool := uletter c.
Definition name_char1 (c : N) : bool := uletter c || udigit c || (c =? 95) || (c =? 46).

(* strings.ToLower restricted to what the generators use: ASCII, Latin-1, Greek and Cyrillic capitals;
   every other code point is mapped to itself (assumption recorded in checks/C17.json) *)
Definition lower_cp (c : N) : N :=
  if ascii_upper c then c + 32
  else if (192 <=? c) && (c <=? 222) && negb (c =? 215) then c + 32
  else if (913 <=? c) && (c <=? 939) && negb (c =? 930) then c + 32
  else if (1040 <=? c) && (c <=? 1071) then c + 32
  else if (1024 <=? c) && (c <=? 1039) then c + 80
  else c.
Definition lower (s : text) : text := map lower_cp s.

(* ---------------------------------------------------------------------------------------------- *)
(* tokens (one type serves both grammars) *)

Inductive binop := OExp | OMul | ODiv | OAdd | OSub | OLte | OLt | OGte | OGt | OEq | ONeq | OAmp.

(* position of the alternative in the `expression` rule, highest binds tightest (same ladder in both .g4) *)
Definition prec (o : binop) : nat :=
  match o with
  | OExp => 6
  | OMul | ODiv => 5
  | OAdd | OSub => 4
  | OLte | OLt | OGte | OGt => 3
  | OEq | ONeq => 2
  | OAmp => 1
  end.
Definition neg_prec : nat := 7.

Definition binop_eqb (a b : binop) : bool :=
  match a, b with
  | OExp, OExp | OMul, OMul | ODiv, ODiv | OAdd, OAdd | OSub, OSub | OLte, OLte | OLt, OLt
  | OGte, OGte | OGt, OGt | OEq, OEq | ONeq, ONeq | OAmp, OAmp => true
  | _, _ => false
  end.

Inductive tok :=
| TComma | TLParen | TRParen | TLBrack | TRBrack | TDot | TArrow
| TOp (o : binop)          (* MINUS is TOp OSub, both as binary and as prefix operator *)
| TText (raw : text)       (* Excellent3 TEXT / Excellent1 STRING: the token text, quotes included *)
| TInt (raw : text)        (* Excellent3 INTEGER; Excellent1 DECIMAL without a fraction *)
| TDec (raw : text)        (* Excellent3 DECIMAL; Excellent1 DECIMAL with a fraction *)
| TTrue | TFalse | TNull
| TName (raw : text)
| TError (c : N).

(* ---------------------------------------------------------------------------------------------- *)
(* lexing *)

Definition t_true : text := Eval compute in s2t "true"%string.
Definition t_false : text := Eval compute in s2t "false"%string.
Definition t_null : text := Eval compute in s2t "null"%string.
Definition t_NULL : text := Eval compute in s2t "NULL"%string.

Definition lower_ascii (s : text) : text := map (fun c => if ascii_upper c then c + 32 else c) s.

(* TRUE / FALSE / NULL are listed before NAME: equal length, so the keyword rule wins *)
Definition classify3 (w : text) : tok :=
  let l := lower_ascii w in
  if text_eqb l t_true then TTrue
  else if text_eqb l t_false then TFalse
  else if text_eqb l t_null then TNull
  else TName w.

Definition classify1 (w : text) : tok :=
  let l := lower_ascii w in
  if text_eqb l t_true then TTrue
  else if text_eqb l t_false then TFalse
  else TName w.

(* Excellent3  TEXT: DQUOTE (~[DQUOTE] | BACKSLASH DQUOTE)* DQUOTE, longest match.  [s] is the input after
   the opening quote; the result is the number of characters up to and including the closing quote.
   A quote that directly follows a backslash may close the token or continue it (the rule does not know
   about escaped backslashes); any other quote closes it.  Longest match = continue when possible. *)
Fixpoint text3_len (s : text) (prev_bs : bool) : option nat :=
  match s with
  | [] => None
  | c :: r =>
      if c =? c_dquote then
        if prev_bs then
          match text3_len r false with
          | Some n => Some (S n)
          | None => Some 1%nat
          end
        else Some 1%nat
      else
        match text3_len r (c =? c_bslash) with
        | Some n => Some (S n)
        | None => None
        end
  end.

(* Excellent1  STRING: DQUOTE (~[DQUOTE] | DQUOTE DQUOTE)* DQUOTE, longest match.  A quote followed by a
   quote may close the token or start a doubled quote. *)
Fixpoint string1_len (fuel : nat) (s : text) : option nat :=
  match fuel with
  | O => None
  | S f =>
    match s with
    | [] => None
    | c :: r =>
        if c =? c_dquote then
          match r with
          | c2 :: r2 =>
              if c2 =? c_dquote then
                match string1_len f r2 with
                | Some n => Some (S (S n))
                | None => Some 1%nat
                end
              else Some 1%nat
          | [] => Some 1%nat
          end
        else
          match string1_len f r with
          | Some n => Some (S n)
          | None => None
          end
    end
  end.

(* digits [ '.' digits ]: number of further characters after the first digit, and whether a fraction was taken *)
Definition number_len (r : text) : nat * bool :=
  let (ds, r1) := span ascii_digit r in
  match r1 with
  | c1 :: c2 :: r2 =>
      if (c1 =? 46) && ascii_digit c2 then
        let (fs, _) := span ascii_digit r2 in
        (length ds + 2 + length fs, true)%nat
      else (length ds, false)
  | _ => (length ds, false)
  end.

(* token starting at [c] (not white space); [r] is the rest of the input.
   Result: the token and how many characters of [r] belong to it. *)
Definition tok_at3 (c : N) (r : text) : tok * nat :=
  let two (c2 : N) (yes no : tok) : tok * nat :=
    match r with
    | x :: _ => if x =? c2 then (yes, 1%nat) else (no, 0%nat)
    | [] => (no, 0%nat)
    end in
  if c =? 44 then (TComma, 0%nat)
  else if c =? 40 then (TLParen, 0%nat)
  else if c =? 41 then (TRParen, 0%nat)
  else if c =? 91 then (TLBrack, 0%nat)
  else if c =? 93 then (TRBrack, 0%nat)
  else if c =? 46 then (TDot, 0%nat)
  else if c =? 43 then (TOp OAdd, 0%nat)
  else if c =? 45 then (TOp OSub, 0%nat)
  else if c =? 42 then (TOp OMul, 0%nat)
  else if c =? 47 then (TOp ODiv, 0%nat)
  else if c =? 94 then (TOp OExp, 0%nat)
  else if c =? 38 then (TOp OAmp, 0%nat)
  else if c =? 61 then two 62 TArrow (TOp OEq)
  else if c =? 33 then two 61 (TOp ONeq) (TError c)
  else if c =? 60 then two 61 (TOp OLte) (TOp OLt)
  else if c =? 62 then two 61 (TOp OGte) (TOp OGt)
  else if c =? c_dquote then
    match text3_len r false with
    | Some n => (TText (c :: firstn n r), n)
    | None => (TError c, 0%nat)
    end
  else if ascii_digit c then
    let (n, frac) := number_len r in
    (if frac then TDec (c :: firstn n r) else TInt (c :: firstn n r), n)
  else if name_start3 c then
    let (w, _) := span name_char3 r in
    (classify3 (c :: w), length w)
  else (TError c, 0%nat).

Definition tok_at1 (c : N) (r : text) : tok * nat :=
  let two (c2 : N) (yes no : tok) : tok * nat :=
    match r with
    | x :: _ => if x =? c2 then (yes, 1%nat) else (no, 0%nat)
    | [] => (no, 0%nat)
    end in
  if c =? 44 then (TComma, 0%nat)
  else if c =? 40 then (TLParen, 0%nat)
  else if c =? 41 then (TRParen, 0%nat)
  else if c =? 43 then (TOp OAdd, 0%nat)
  else if c =? 45 then (TOp OSub, 0%nat)
  else if c =? 42 then (TOp OMul, 0%nat)
  else if c =? 47 then (TOp ODiv, 0%nat)
  else if c =? 94 then (TOp OExp, 0%nat)
  else if c =? 38 then (TOp OAmp, 0%nat)
  else if c =? 61 then (TOp OEq, 0%nat)
  else if c =? 60 then
    match r with
    | x :: _ => if x =? 62 then (TOp ONeq, 1%nat) else if x =? 61 then (TOp OLte, 1%nat) else (TOp OLt, 0%nat)
    | [] => (TOp OLt, 0%nat)
    end
  else if c =? 62 then two 61 (TOp OGte) (TOp OGt)
  else if c =? c_dquote then
    match string1_len (S (length r)) r with
    | Some n => (TText (c :: firstn n r), n)
    | None => (TError c, 0%nat)
    end
  else if ascii_digit c then
    let (n, frac) := number_len r in
    (if frac then TDec (c :: firstn n r) else TInt (c :: firstn n r), n)
  else if name_start1 c then
    let (w, _) := span name_char1 r in
    (classify1 (c :: w), length w)
  else (TError c, 0%nat).

Section LexLoop.
  Variable tok_at : N -> text -> tok * nat.
  Fixpoint lex_loop (skip : nat) (s : text) : list tok :=
    match s with
    | [] => []
    | c :: r =>
        match skip with
        | S k => lex_loop k r
        | O => if is_ws c then lex_loop O r
               else let (t, n) := tok_at c r in t :: lex_loop n r
        end
    end.
End LexLoop.

Definition lex3 (s : text) : list tok := lex_loop tok_at3 O s.
Definition lex1 (s : text) : list tok := lex_loop tok_at1 O s.

(* ---------------------------------------------------------------------------------------------- *)
(* Excellent3 trees: the node kinds of /repo/excellent/tree.go that the grammar can produce without
   anonymous functions; literals keep their token text *)

Inductive e3 :=
| X3Text (raw : text)
| X3Num (raw : text)
| X3True | X3False | X3Null
| X3Ref (name : text)
| X3Dot (c : e3) (lookup : text)
| X3Index (c : e3) (i : e3)
| X3Call (f : e3) (args : list e3)
| X3Paren (e : e3)
| X3Neg (e : e3)
| X3Bin (o : binop) (a b : e3).

Definition is_atom (t : e3) : bool :=
  match t with
  | X3Ref _ | X3Dot _ _ | X3Index _ _ | X3Call _ _ | X3Paren _ => true
  | _ => false
  end.

Definition parse_fuel (ts : list tok) : nat := (4 * length ts + 8)%nat.

Fixpoint pexpr3 (fuel : nat) (p : nat) (ts : list tok) {struct fuel} : option (e3 * list tok) :=
  match fuel with
  | O => None
  | S f =>
      match pprim3 f ts with
      | Some (l, r) => ploop3 f p l r
      | None => None
      end
  end
with pprim3 (fuel : nat) (ts : list tok) {struct fuel} : option (e3 * list tok) :=
  match fuel with
  | O => None
  | S f =>
      match ts with
      | TOp OSub :: r =>
          match pexpr3 f neg_prec r with
          | Some (e, r') => Some (X3Neg e, r')
          | None => None
          end
      | TText raw :: r => Some (X3Text raw, r)
      | TInt raw :: r => Some (X3Num raw, r)
      | TDec raw :: r => Some (X3Num raw, r)
      | TTrue :: r => Some (X3True, r)
      | TFalse :: r => Some (X3False, r)
      | TNull :: r => Some (X3Null, r)
      | TName n :: r => psuffix3 f (X3Ref n) r
      | TLParen :: r =>
          match pexpr3 f O r with
          | Some (e, TRParen :: r') => psuffix3 f (X3Paren e) r'
          | _ => None
          end
      | _ => None
      end
  end
with psuffix3 (fuel : nat) (a : e3) (ts : list tok) {struct fuel} : option (e3 * list tok) :=
  match fuel with
  | O => None
  | S f =>
      match ts with
      | TLParen :: TRParen :: r => psuffix3 f (X3Call a []) r
      | TLParen :: r =>
          match pargs3 f r with
          | Some (args, r') => psuffix3 f (X3Call a args) r'
          | None => None
          end
      | TDot :: TName n :: r => psuffix3 f (X3Dot a n) r
      | TDot :: TInt n :: r => psuffix3 f (X3Dot a n) r
      | TLBrack :: r =>
          match pexpr3 f O r with
          | Some (i, TRBrack :: r') => psuffix3 f (X3Index a i) r'
          | _ => None
          end
      | _ => Some (a, ts)
      end
  end
with pargs3 (fuel : nat) (ts : list tok) {struct fuel} : option (list e3 * list tok) :=
  match fuel with
  | O => None
  | S f =>
      match pexpr3 f O ts with
      | Some (e, TComma :: r) =>
          match pargs3 f r with
          | Some (es, r') => Some (e :: es, r')
          | None => None
          end
      | Some (e, TRParen :: r) => Some ([e], r)
      | _ => None
      end
  end
with ploop3 (fuel : nat) (p : nat) (l : e3) (ts : list tok) {struct fuel} : option (e3 * list tok) :=
  match fuel with
  | O => None
  | S f =>
      match ts with
      | TOp o :: r =>
          if Nat.leb p (prec o) then
            match pexpr3 f (S (prec o)) r with
            | Some (b, r') => ploop3 f p (X3Bin o l b) r'
            | None => None
            end
          else Some (l, ts)
      | _ => Some (l, ts)
      end
  end.

(* parse: expression EOF *)
Definition parse3_toks (ts : list tok) : option e3 :=
  match pexpr3 (parse_fuel ts) O ts with
  | Some (e, []) => Some e
  | _ => None
  end.

Definition parse3 (s : text) : option e3 := parse3_toks (lex3 s).

(* ---------------------------------------------------------------------------------------------- *)
(* canonical printing of Excellent3 trees: the spacing of Expression.String() in /repo/excellent/tree.go,
   which is also the spacing the legacy migrator emits; literals and names are printed as they were lexed
   (String() itself re-renders them: that is property C11, not C17) *)

Definition op_text (o : binop) : text :=
  match o with
  | OExp => [94] | OMul => [42] | ODiv => [47] | OAdd => [43] | OSub => [45]
  | OLte => [60; 61] | OLt => [60] | OGte => [62; 61] | OGt => [62]
  | OEq => [61] | ONeq => [33; 61] | OAmp => [38]
  end.

Definition comma_space : text := [44; 32].

Fixpoint print3 (t : e3) : text :=
  match t with
  | X3Text raw => raw
  | X3Num raw => raw
  | X3True => t_true
  | X3False => t_false
  | X3Null => t_NULL
  | X3Ref n => n
  | X3Dot c l => print3 c ++ 46 :: l
  | X3Index c i => print3 c ++ 91 :: print3 i ++ [93]
  | X3Call f args =>
      print3 f ++ 40 ::
      (fix pl (l : list e3) : text :=
         match l with
         | [] => []
         | [x] => print3 x
         | x :: r => print3 x ++ comma_space ++ pl r
         end) args ++ [41]
  | X3Paren e => 40 :: print3 e ++ [41]
  | X3Neg e => 45 :: print3 e
  | X3Bin o a b => print3 a ++ 32 :: op_text o ++ 32 :: print3 b
  end.

Definition has_dot (s : text) : bool := existsb (fun c => c =? 46) s.

Definition num_tok (raw : text) : tok := if has_dot raw then TDec raw else TInt raw.
Definition lookup_tok (l : text) : tok :=
  match l with
  | c :: _ => if ascii_digit c then TInt l else TName l
  | [] => TName l
  end.

(* the token sequence of a tree *)
Fixpoint flat3 (t : e3) : list tok :=
  match t with
  | X3Text raw => [TText raw]
  | X3Num raw => [num_tok raw]
  | X3True => [TTrue]
  | X3False => [TFalse]
  | X3Null => [TNull]
  | X3Ref n => [TName n]
  | X3Dot c l => flat3 c ++ [TDot; lookup_tok l]
  | X3Index c i => flat3 c ++ TLBrack :: flat3 i ++ [TRBrack]
  | X3Call f args =>
      flat3 f ++ TLParen ::
      (fix fl (l : list e3) : list tok :=
         match l with
         | [] => []
         | [x] => flat3 x
         | x :: r => flat3 x ++ TComma :: fl r
         end) args ++ [TRParen]
  | X3Paren e => TLParen :: flat3 e ++ [TRParen]
  | X3Neg e => TOp OSub :: flat3 e
  | X3Bin o a b => flat3 a ++ TOp o :: flat3 b
  end.

(* precedence level of the root: 8 for primaries *)
Definition lvl3 (t : e3) : nat :=
  match t with
  | X3Bin o _ _ => prec o
  | X3Neg _ => neg_prec
  | _ => 8%nat
  end.

(* the tree is the one the parser builds for its own token sequence (precedence-stable) *)
Fixpoint wf3b (t : e3) : bool :=
  match t with
  | X3Dot c _ => is_atom c && wf3b c
  | X3Index c i => is_atom c && wf3b c && wf3b i
  | X3Call f args => is_atom f && wf3b f && forallb wf3b args
  | X3Paren e => wf3b e
  | X3Neg e => Nat.leb neg_prec (lvl3 e) && wf3b e
  | X3Bin o a b => Nat.leb (prec o) (lvl3 a) && Nat.leb (S (prec o)) (lvl3 b) && wf3b a && wf3b b
  | _ => true
  end.

(* parentheses carry no meaning: erase them to compare groupings *)
Fixpoint erase3 (t : e3) : e3 :=
  match t with
  | X3Dot c l => X3Dot (erase3 c) l
  | X3Index c i => X3Index (erase3 c) (erase3 i)
  | X3Call f args => X3Call (erase3 f) (map erase3 args)
  | X3Paren e => erase3 e
  | X3Neg e => X3Neg (erase3 e)
  | X3Bin o a b => X3Bin o (erase3 a) (erase3 b)
  | _ => t
  end.

Fixpoint e3_eqb (a b : e3) : bool :=
  match a, b with
  | X3Text x, X3Text y => text_eqb x y
  | X3Num x, X3Num y => text_eqb x y
  | X3True, X3True | X3False, X3False | X3Null, X3Null => true
  | X3Ref x, X3Ref y => text_eqb x y
  | X3Dot c l, X3Dot c' l' => e3_eqb c c' && text_eqb l l'
  | X3Index c i, X3Index c' i' => e3_eqb c c' && e3_eqb i i'
  | X3Call f xs, X3Call f' ys =>
      e3_eqb f f' &&
      (fix eqs (l m : list e3) : bool :=
         match l, m with
         | [], [] => true
         | x :: l', y :: m' => e3_eqb x y && eqs l' m'
         | _, _ => false
         end) xs ys
  | X3Paren x, X3Paren y => e3_eqb x y
  | X3Neg x, X3Neg y => e3_eqb x y
  | X3Bin o x y, X3Bin o' x' y' => binop_eqb o o' && e3_eqb x x' && e3_eqb y y'
  | _, _ => false
  end.

(* ---------------------------------------------------------------------------------------------- *)
(* Excellent1 (legacy) trees and parser *)

Inductive e1 :=
| E1Str (raw : text)              (* STRING token text, quotes included, doubled quotes not yet resolved *)
| E1Dec (raw : text)              (* DECIMAL token text *)
| E1True | E1False
| E1Ref (name : text)             (* NAME token text: may contain dots, original case *)
| E1Paren (e : e1)
| E1Neg (e : e1)
| E1Bin (o : binop) (a b : e1)    (* ONeq is the legacy <> *)
| E1Call (fname : text) (args : list e1).   (* fnname: NAME text, or true / false for the keyword tokens *)

Fixpoint pexpr1 (fuel : nat) (p : nat) (ts : list tok) {struct fuel} : option (e1 * list tok) :=
  match fuel with
  | O => None
  | S f =>
      match pprim1 f ts with
      | Some (l, r) => ploop1 f p l r
      | None => None
      end
  end
with pprim1 (fuel : nat) (ts : list tok) {struct fuel} : option (e1 * list tok) :=
  match fuel with
  | O => None
  | S f =>
      let call (name : text) (r : list tok) : option (e1 * list tok) :=
        match r with
        | TRParen :: r' => Some (E1Call name [], r')
        | _ => match pargs1 f r with
               | Some (args, r') => Some (E1Call name args, r')
               | None => None
               end
        end in
      match ts with
      | TName n :: TLParen :: r => call n r
      | TTrue :: TLParen :: r => call t_true r
      | TFalse :: TLParen :: r => call t_false r
      | TOp OSub :: r =>
          match pexpr1 f neg_prec r with
          | Some (e, r') => Some (E1Neg e, r')
          | None => None
          end
      | TText raw :: r => Some (E1Str raw, r)
      | TInt raw :: r => Some (E1Dec raw, r)
      | TDec raw :: r => Some (E1Dec raw, r)
      | TTrue :: r => Some (E1True, r)
      | TFalse :: r => Some (E1False, r)
      | TName n :: r => Some (E1Ref n, r)
      | TLParen :: r =>
          match pexpr1 f O r with
          | Some (e, TRParen :: r') => Some (E1Paren e, r')
          | _ => None
          end
      | _ => None
      end
  end
with pargs1 (fuel : nat) (ts : list tok) {struct fuel} : option (list e1 * list tok) :=
  match fuel with
  | O => None
  | S f =>
      match pexpr1 f O ts with
      | Some (e, TComma :: r) =>
          match pargs1 f r with
          | Some (es, r') => Some (e :: es, r')
          | None => None
          end
      | Some (e, TRParen :: r) => Some ([e], r)
      | _ => None
      end
  end
with ploop1 (fuel : nat) (p : nat) (l : e1) (ts : list tok) {struct fuel} : option (e1 * list tok) :=
  match fuel with
  | O => None
  | S f =>
      match ts with
      | TOp o :: r =>
          if Nat.leb p (prec o) then
            match pexpr1 f (S (prec o)) r with
            | Some (b, r') => ploop1 f p (E1Bin o l b) r'
            | None => None
            end
          else Some (l, ts)
      | _ => Some (l, ts)
      end
  end.

Definition parse1_toks (ts : list tok) : option e1 :=
  match pexpr1 (parse_fuel ts) O ts with
  | Some (e, []) => Some e
  | _ => None
  end.

Definition parse1 (s : text) : option e1 := parse1_toks (lex1 s).

Definition lvl1 (t : e1) : nat :=
  match t with
  | E1Bin o _ _ => prec o
  | E1Neg _ => neg_prec
  | _ => 8%nat
  end.

(* image of the legacy parser: precedence-stable legacy trees *)
Fixpoint wf1b (t : e1) : bool :=
  match t with
  | E1Paren e => wf1b e
  | E1Neg e => Nat.leb neg_prec (lvl1 e) && wf1b e
  | E1Bin o a b => Nat.leb (prec o) (lvl1 a) && Nat.leb (S (prec o)) (lvl1 b) && wf1b a && wf1b b
  | E1Call _ args => forallb wf1b args
  | _ => true
  end.
