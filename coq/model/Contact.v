(* Contact.v — the contact record of goflow as the engine and the modifiers see it.

   Transcribed from /repo/flows/contact.go (type Contact, lines 47-63; ClearURNs, AddURN, RemoveURN, HasURN,
   UpdatePreferredChannel), flows/urn.go (ContactURN, URNList.Equal, SetChannel), flows/group.go (GroupList:
   FindByUUID, Add, Remove, Clear), flows/field.go (Value, Value.Equals, FieldValues.Get/Set),
   flows/tickets.go (Ticket).

   Representation:
   * text            = list of code points;
   * URNs, languages, time zones, channels, groups, fields, topics, users, datetimes, numbers, instants are opaque
     identifiers (N); everything the code does with the *inside* of a URN (Normalize, Validate, Identity,
     Scheme, SetChannel's rewrite of the query part) is an environment function (see Modifiers.v, record menv),
     because nyaruka/gocommon/urns is outside the verified code;
   * a contact URN is the pair the Go struct holds: the raw URN and the channel pointer (the two can disagree:
     AddURN(urn, nil) stores a nil pointer whatever the raw URN's ?channel= says);
   * group membership is the Go slice (ordered, duplicates representable);
   * field values are an association list key -> value; Go's map entry holding a nil *FieldValue is the
     absence of the key;
   * uuid, id, created_on are never written by any code under consideration and are left out.

   No proofs in this file. *)
From Coq Require Import List NArith Bool.
Import ListNotations.
Open Scope N_scope.

Definition text := list N.

Inductive status := Active | Blocked | Stopped | Archived.

Record curn := { cu_urn : N; cu_chan : option N }.

(* flows.Value: text + what the text parsed as *)
Record fvalue := {
  v_text : text; v_dt : option N; v_num : option N;
  v_state : text; v_district : text; v_ward : text }.

Record ticket := { t_uuid : N; t_topic : option N; t_assignee : option N }.

Record contact := {
  c_name : text;
  c_lang : N;                 (* 0 = i18n.NilLanguage *)
  c_status : status;
  c_tz : option N;            (* nil *time.Location = None; locations are compared by name *)
  c_last_seen : option N;
  c_urns : list curn;
  c_groups : list N;
  c_fields : list (N * fvalue);
  c_ticket : option ticket }.

(* ---- setters (Go: one assignment each) -------------------------------------------------------------- *)
Definition with_name (c : contact) (n : text) : contact :=
  {| c_name := n; c_lang := c_lang c; c_status := c_status c; c_tz := c_tz c; c_last_seen := c_last_seen c;
     c_urns := c_urns c; c_groups := c_groups c; c_fields := c_fields c; c_ticket := c_ticket c |}.
Definition with_lang (c : contact) (l : N) : contact :=
  {| c_name := c_name c; c_lang := l; c_status := c_status c; c_tz := c_tz c; c_last_seen := c_last_seen c;
     c_urns := c_urns c; c_groups := c_groups c; c_fields := c_fields c; c_ticket := c_ticket c |}.
Definition with_status (c : contact) (s : status) : contact :=
  {| c_name := c_name c; c_lang := c_lang c; c_status := s; c_tz := c_tz c; c_last_seen := c_last_seen c;
     c_urns := c_urns c; c_groups := c_groups c; c_fields := c_fields c; c_ticket := c_ticket c |}.
Definition with_tz (c : contact) (tz : option N) : contact :=
  {| c_name := c_name c; c_lang := c_lang c; c_status := c_status c; c_tz := tz; c_last_seen := c_last_seen c;
     c_urns := c_urns c; c_groups := c_groups c; c_fields := c_fields c; c_ticket := c_ticket c |}.
Definition with_last_seen (c : contact) (t : option N) : contact :=
  {| c_name := c_name c; c_lang := c_lang c; c_status := c_status c; c_tz := c_tz c; c_last_seen := t;
     c_urns := c_urns c; c_groups := c_groups c; c_fields := c_fields c; c_ticket := c_ticket c |}.
Definition with_urns (c : contact) (us : list curn) : contact :=
  {| c_name := c_name c; c_lang := c_lang c; c_status := c_status c; c_tz := c_tz c; c_last_seen := c_last_seen c;
     c_urns := us; c_groups := c_groups c; c_fields := c_fields c; c_ticket := c_ticket c |}.
Definition with_groups (c : contact) (gs : list N) : contact :=
  {| c_name := c_name c; c_lang := c_lang c; c_status := c_status c; c_tz := c_tz c; c_last_seen := c_last_seen c;
     c_urns := c_urns c; c_groups := gs; c_fields := c_fields c; c_ticket := c_ticket c |}.
Definition with_fields (c : contact) (fs : list (N * fvalue)) : contact :=
  {| c_name := c_name c; c_lang := c_lang c; c_status := c_status c; c_tz := c_tz c; c_last_seen := c_last_seen c;
     c_urns := c_urns c; c_groups := c_groups c; c_fields := fs; c_ticket := c_ticket c |}.
Definition with_ticket (c : contact) (t : option ticket) : contact :=
  {| c_name := c_name c; c_lang := c_lang c; c_status := c_status c; c_tz := c_tz c; c_last_seen := c_last_seen c;
     c_urns := c_urns c; c_groups := c_groups c; c_fields := c_fields c; c_ticket := t |}.

(* ---- boolean equalities ------------------------------------------------------------------------------- *)
Fixpoint text_eqb (a b : text) : bool :=
  match a, b with
  | [], [] => true
  | x :: a', y :: b' => N.eqb x y && text_eqb a' b'
  | _, _ => false
  end.

Definition status_eqb (a b : status) : bool :=
  match a, b with
  | Active, Active | Blocked, Blocked | Stopped, Stopped | Archived, Archived => true
  | _, _ => false
  end.

Definition optN_eqb (a b : option N) : bool :=
  match a, b with
  | None, None => true
  | Some x, Some y => N.eqb x y
  | _, _ => false
  end.

Fixpoint listN_eqb (a b : list N) : bool :=
  match a, b with
  | [], [] => true
  | x :: a', y :: b' => N.eqb x y && listN_eqb a' b'
  | _, _ => false
  end.

(* Value.Equals on two non-nil values (number and datetime components are identified with their
   canonical rendering, see the header of Modifiers.v) *)
Definition fvalue_eqb (a b : fvalue) : bool :=
  text_eqb (v_text a) (v_text b) && optN_eqb (v_dt a) (v_dt b) && optN_eqb (v_num a) (v_num b)
  && text_eqb (v_state a) (v_state b) && text_eqb (v_district a) (v_district b) && text_eqb (v_ward a) (v_ward b).

(* Value.Equals including the nil cases *)
Definition ofvalue_eqb (a b : option fvalue) : bool :=
  match a, b with
  | None, None => true
  | Some x, Some y => fvalue_eqb x y
  | _, _ => false
  end.

Definition ticket_eqb (a b : ticket) : bool :=
  N.eqb (t_uuid a) (t_uuid b) && optN_eqb (t_topic a) (t_topic b) && optN_eqb (t_assignee a) (t_assignee b).

Definition oticket_eqb (a b : option ticket) : bool :=
  match a, b with
  | None, None => true
  | Some x, Some y => ticket_eqb x y
  | _, _ => false
  end.

(* ---- GroupList (flows/group.go) -------------------------------------------------------------------- *)
Definition gmem (g : N) (gs : list N) : bool := existsb (N.eqb g) gs.      (* FindByUUID != nil *)

(* Remove: deletes the first entry with that UUID *)
Fixpoint gremove (g : N) (gs : list N) : list N :=
  match gs with
  | [] => []
  | x :: rest => if N.eqb x g then rest else x :: gremove g rest
  end.

(* Add: appends unless present; reports whether it appended *)
Definition gadd (g : N) (gs : list N) : list N * bool :=
  if gmem g gs then (gs, false) else (gs ++ [g], true).

(* ---- FieldValues (flows/field.go) ------------------------------------------------------------------ *)
Fixpoint fget (k : N) (fs : list (N * fvalue)) : option fvalue :=
  match fs with
  | [] => None
  | (k', v) :: rest => if N.eqb k' k then Some v else fget k rest
  end.

Definition fdel (k : N) (fs : list (N * fvalue)) : list (N * fvalue) :=
  filter (fun kv => negb (N.eqb (fst kv) k)) fs.

(* Set: a nil value or a value with empty text clears the entry *)
Definition fset (k : N) (v : option fvalue) (fs : list (N * fvalue)) : list (N * fvalue) :=
  match v with
  | Some x => match v_text x with
              | [] => fdel k fs
              | _ => fdel k fs ++ [(k, x)]
              end
  | None => fdel k fs
  end.

(* ---- URNList.Equal: compares the raw URNs only ------------------------------------------------------ *)
Definition raw_urns (us : list curn) : list N := map cu_urn us.
Definition urns_equal (a b : list curn) : bool := listN_eqb (raw_urns a) (raw_urns b).

(* ---- what json.Marshal(contact) shows: everything but the channel pointers ---------------------------- *)
Definition erase_urn (u : curn) : curn := {| cu_urn := cu_urn u; cu_chan := None |}.
Definition erase (c : contact) : contact := with_urns c (map erase_urn (c_urns c)).
