(* QuoteCorr.v — comparison of lib/Quote.v with observations of the real strconv.Quote / strconv.Unquote
   (written by harness/cmd/c14, stream "quote").  No proofs. *)
From Coq Require Import List NArith Bool.
From Verif Require Import lib.Quote.
Import ListNotations.
Open Scope N_scope.

Fixpoint cps_eqb (a b : list N) : bool :=
  match a, b with
  | [], [] => true
  | x :: a', y :: b' => N.eqb x y && cps_eqb a' b'
  | _, _ => false
  end.

(* observed result of strconv.Unquote: 0 = ok with the given (valid UTF-8) string, 1 = ErrSyntax,
   2 = ok but the result is not valid UTF-8 (outside the code-point model) *)
Record qcase := {
  q_in : list N;          (* input string *)
  q_printable : list N;   (* the code points of q_in for which unicode.IsPrint holds *)
  q_quoted : list N;      (* strconv.Quote(q_in) *)
  q_ukind : N;            (* strconv.Unquote(q_in): kind *)
  q_uout : list N         (* ... and result when kind = 0 *)
}.

Definition table_printable (t : list N) (c : N) : bool := existsb (N.eqb c) t.

Definition uresult_matches (r : uresult) (kind : N) (out : list N) : bool :=
  match r with
  | UOk s => N.eqb kind 0 && cps_eqb s out
  | USyntax => N.eqb kind 1
  | UOutside => N.eqb kind 2 || N.eqb kind 0   (* Go accepts; the model abstains on the result *)
  | UFuel => false
  end.

(* inputs quoted with ' or ` are not described by the model *)
Definition other_quote_style (s : list N) : bool :=
  match s with c :: _ => N.eqb c 39 || N.eqb c 96 | [] => false end.

Definition qcheck (k : qcase) : bool :=
  cps_eqb (quote (table_printable (q_printable k)) (q_in k)) (q_quoted k)
  && (other_quote_style (q_in k) || uresult_matches (unquote (q_in k)) (q_ukind k) (q_uout k))
  (* Lemma Q on the implementation's own output *)
  && uresult_matches (unquote (q_quoted k)) 0 (q_in k).

Fixpoint qmismatches_from (i : N) (ks : list qcase) : list N :=
  match ks with
  | [] => []
  | k :: rest => (if qcheck k then [] else [i]) ++ qmismatches_from (i + 1) rest
  end.

Definition qmismatches (ks : list qcase) : list N := qmismatches_from 0 ks.
