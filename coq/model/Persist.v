(* Persist.v — model of how goflow persists a session between waits (property C02).

   Transcribed from
     flows/engine/session.go   sessionEnvelope, session.MarshalJSON, readSession, session.addRun / GetRun
                               (runsByUUID), prepareForSprint, and the assignments to the per-call fields
                               batchStart / currentResume / parentRun in NewSession (engine.go), Resume, tryToResume
     flows/runs/run.go         runEnvelope, run.MarshalJSON, ReadRun (parent looked up by UUID among the runs
                               read so far, results defaulted, path and events copied)

   The in-memory session is Engine.session (status, type, trigger, runs, input, pushedFlow) plus the three
   per-call fields of the Go struct that Engine.v does not need, collected in [transient].  The persisted
   form [psession] has exactly the members of the two envelopes that the core flow language can populate:
   type, trigger (with its flow reference), runs, status, input; per run uuid, flow, path, events, results,
   status, parent_uuid, exited_on (as a boolean).  Not modelled: session uuid, environment, contact (no CFL
   action changes them; they are written and re-read verbatim), created_on / modified_on, and the run fields
   webhook / legacyExtra (the two exemptions of the statement; no CFL template reads them).

   Run UUIDs: Engine.run has no uuid member; the n-th run created in a session is given the UUID n (this is
   also how the harness canonicalises the random UUIDs of the implementation).  ReadRun resolves parent_uuid
   through session.GetRun, i.e. in the map of the runs read *so far*; an unknown UUID is an error
   ("unable to read run %d: unable to find run with UUID").  A Go map keeps the last writer of a key.

   No proofs in this file. *)

From Coq Require Import List NArith ZArith Bool.
From Verif Require Import model.Lang model.Engine.
Import ListNotations.
Open Scope N_scope.

Definition uuid := N.

(* ---- persisted forms ---------------------------------------------------------------------------------- *)

(* runEnvelope *)
Record prun := {
  pr_uuid : uuid;
  pr_flow : id;
  pr_path : list step;
  pr_events : list event;
  pr_results : list result;
  pr_status : rstatus;
  pr_parent_uuid : option uuid;          (* parent_uuid,omitempty *)
  pr_exited : bool                       (* exited_on is not null *)
}.

(* sessionEnvelope *)
Record psession := {
  ps_type : N;
  ps_trigger : trigger;
  ps_trigger_flow : id;                  (* the flow reference inside the trigger *)
  ps_trigger_batch : bool;               (* "batch" inside the trigger *)
  ps_runs : list prun;
  ps_status : sstatus;
  ps_input : option text                 (* input,omitempty *)
}.

(* ---- the Go session: Engine.session + the per-call fields ------------------------------------------------ *)

Record transient := {
  t_batch : bool;                        (* session.batchStart *)
  t_resume : option resume;              (* session.currentResume *)
  t_parent : bool                        (* session.parentRun != nil *)
}.

Record live := {
  lv_core : session;
  lv_batch_trigger : bool;               (* trigger.Batch(): part of the trigger, which Engine.trigger does not carry *)
  lv_tr : transient
}.

Definition is_flow_action (t : trigger) : bool := match t with TFlowAction => true | _ => false end.

(* ---- MarshalJSON ------------------------------------------------------------------------------------------ *)

Definition run_uuid (i : nat) : uuid := N.of_nat i.

Definition persist_run (i : nat) (r : run) : prun :=
  {| pr_uuid := run_uuid i;
     pr_flow := r_flow r;
     pr_path := r_path r;
     pr_events := r_events r;
     pr_results := r_results r;
     pr_status := r_status r;
     pr_parent_uuid := option_map run_uuid (r_parent r);    (* if r.parent != nil { e.ParentUUID = r.parent.UUID() } *)
     pr_exited := r_exited r |}.

Fixpoint persist_runs (i : nat) (rs : list run) : list prun :=
  match rs with
  | [] => []
  | r :: rest => persist_run i r :: persist_runs (S i) rest
  end.

Definition persist (lv : live) : psession :=
  let s := lv_core lv in
  {| ps_type := s_type s;
     ps_trigger := s_trigger s;
     ps_trigger_flow := s_flow s;
     ps_trigger_batch := lv_batch_trigger lv;
     ps_runs := persist_runs 0 (s_runs s);
     ps_status := s_status s;
     ps_input := s_input s |}.

(* ---- readSession / ReadRun ---------------------------------------------------------------------------------- *)

(* session.GetRun on runsByUUID as filled by addRun for the runs read so far (position = index in s.runs);
   the last run added under a UUID is the one the map holds *)
Fixpoint lookup_uuid_from (i : nat) (seen : list uuid) (u : uuid) (found : option nat) : option nat :=
  match seen with
  | [] => found
  | x :: rest => lookup_uuid_from (S i) rest u (if N.eqb x u then Some i else found)
  end.
Definition lookup_uuid (seen : list uuid) (u : uuid) : option nat := lookup_uuid_from 0 seen u None.

Inductive restored (A : Type) := Restored (x : A) | RestoreError (run_index : nat).
Arguments Restored {A}. Arguments RestoreError {A}.

(* ReadRun for the run at position [length acc]; [seen] are the UUIDs of the runs in [acc] *)
Definition restore_run (seen : list uuid) (p : prun) : option run :=
  let mk (parent : option nat) :=
    {| r_flow := pr_flow p; r_parent := parent; r_status := pr_status p; r_exited := pr_exited p;
       r_path := pr_path p; r_events := pr_events p; r_results := pr_results p |} in
  match pr_parent_uuid p with
  | None => Some (mk None)
  | Some u => match lookup_uuid seen u with
              | Some i => Some (mk (Some i))
              | None => None                                   (* session.GetRun: unable to find run with UUID *)
              end
  end.

Fixpoint restore_runs (prs : list prun) (seen : list uuid) (acc : list run) : restored (list run) :=
  match prs with
  | [] => Restored acc
  | p :: rest =>
      match restore_run seen p with
      | None => RestoreError (length acc)
      | Some r => restore_runs rest (seen ++ [pr_uuid p]) (acc ++ [r])
      end
  end.

(* the per-call fields of a session made by readSession: batchStart false, currentResume nil, parentRun loaded from the trigger
   (since goflow f4c75dd readSession calls prepareForSprint: the parent run of a flow_action trigger is loaded when the
   session is read, no longer at the next Resume) *)
Definition transient_after_read (t : trigger) : transient :=
  {| t_batch := false; t_resume := None; t_parent := is_flow_action t |}.

Definition restore (p : psession) : restored live :=
  match restore_runs (ps_runs p) [] [] with
  | RestoreError i => RestoreError i
  | Restored rs =>
      Restored
        {| lv_core := {| s_status := ps_status p; s_type := ps_type p; s_trigger := ps_trigger p; s_flow := ps_trigger_flow p;
                         s_runs := rs; s_input := ps_input p; s_pushed := None |};
           lv_batch_trigger := ps_trigger_batch p;
           lv_tr := transient_after_read (ps_trigger p) |}
  end.

(* ---- engine calls on the Go session --------------------------------------------------------------------------- *)

(* Engine.NewSession: batchStart: trigger.Batch(); start() calls prepareForSprint, which loads the parent run
   summary when the trigger carries one (flow_action) *)
Definition transient_at_start (t : trigger) (batch : bool) : transient :=
  {| t_batch := batch; t_resume := None; t_parent := is_flow_action t |}.

(* prepareForSprint: if s.parentRun == nil and the trigger has a run summary, load it *)
Definition prepare_for_sprint (t : trigger) (tr : transient) : transient :=
  {| t_batch := t_batch tr; t_resume := t_resume tr; t_parent := t_parent tr || is_flow_action t |}.

(* does tryToResume reach `s.currentResume = resume; s.batchStart = false` ?  (the guards of Resume and
   tryToResume, in order: status, waiting run, flow asset, resume limit, path location, router with wait,
   Accepts) *)
Definition resume_applies (a : assets) (s : session) (r : resume) : bool :=
  sstatus_eqb (s_status s) SWaiting &&
  match waiting_run s with
  | None => false
  | Some wi =>
      (* flow asset present, and not a voice flow in a session without a call (Engine.run_flow_unusable) *)
      negb (run_flow_unusable a s wi) &&
      negb (Z.of_nat (count_waits s) >=? max_resumes (a_opts a))%Z &&
      match path_location a s wi with
      | None => false
      | Some (_, n) =>
          match n_router n with
          | Some {| rt_wait := Some w |} => accepts w r
          | _ => false
          end
      end
  end.

(* the per-call fields as the actions of the sprint see them (and as they are left after the call) *)
Definition transient_in_resume (a : assets) (s : session) (tr : transient) (r : resume) : transient :=
  let tr := prepare_for_sprint (s_trigger s) tr in
  if resume_applies a s r
  then {| t_batch := false; t_resume := Some r; t_parent := t_parent tr |}
  else tr.

Definition live_start (a : assets) (t : trigger) (flow : id) (batch : bool) : result_ * transient :=
  (start a t flow, transient_at_start t batch).

Definition live_resume (a : assets) (lv : live) (r : resume) (tmo : text) : resume_result * transient :=
  (resume_session a (lv_core lv) r tmo, transient_in_resume a (lv_core lv) (lv_tr lv) r).

(* ---- observations ------------------------------------------------------------------------------------------------ *)

(* what the statement compares for one call: the outcome, the sprint (events, segments), the resulting session
   JSON; [o_context] is the part of the per-call fields an action or template can read during the sprint
   (Session.BatchStart(), @resume, @parent of a flow_action session) *)
Inductive outcome_ :=
| OOk (sp : sprint) (after : psession)
| ORejected (code : N)
| OGoError
| OPanic
| OOutOfFuel
| ORestoreError (run_index : nat).

Record obs := { o_outcome : outcome_; o_context : transient }.

(* the Go session after a call, or None when the history ends (error return other than an engine rejection) *)
Definition after_call (lv : live) (res : resume_result) (tr : transient) : option live :=
  match res with
  | Rejected _ => Some {| lv_core := lv_core lv; lv_batch_trigger := lv_batch_trigger lv; lv_tr := tr |}
  | Resumed (ROk x) => Some {| lv_core := session_ x; lv_batch_trigger := lv_batch_trigger lv; lv_tr := tr |}
  | Resumed _ => None
  end.

Definition outcome_of (batch_trigger : bool) (res : resume_result) (tr : transient) : outcome_ :=
  match res with
  | Rejected c => ORejected c
  | Resumed (ROk x) => OOk (sprint_ x) (persist {| lv_core := session_ x; lv_batch_trigger := batch_trigger; lv_tr := tr |})
  | Resumed (RGoError _) => OGoError
  | Resumed RPanic => OPanic
  | Resumed ROutOfFuel => OOutOfFuel
  end.

(* a history of resumes; the boolean says whether the host restarts (marshal + ReadSession) before the resume *)
Fixpoint run_resumes (a : assets) (tmo : text) (lv : live) (ops : list (bool * resume)) : list obs :=
  match ops with
  | [] => []
  | (restart, r) :: rest =>
      let lv0 := if restart then restore (persist lv) else Restored lv in
      match lv0 with
      | RestoreError i => [{| o_outcome := ORestoreError i; o_context := transient_after_read (s_trigger (lv_core lv)) |}]
      | Restored lv1 =>
          let '(res, tr) := live_resume a lv1 r tmo in
          {| o_outcome := outcome_of (lv_batch_trigger lv1) res tr; o_context := tr |} ::
          match after_call lv1 res tr with
          | Some lv2 => run_resumes a tmo lv2 rest
          | None => []
          end
      end
  end.

(* the per-call fields of the session right after every restart of a history, before the next engine call (what
   Session.BatchStart() / CurrentResume() / ParentRun() answer on the object ReadSession returned) *)
Fixpoint reread_contexts (a : assets) (tmo : text) (lv : live) (ops : list (bool * resume)) : list transient :=
  match ops with
  | [] => []
  | (restart, r) :: rest =>
      let lv0 := if restart then restore (persist lv) else Restored lv in
      match lv0 with
      | RestoreError _ => []
      | Restored lv1 =>
          (if restart then [lv_tr lv1] else []) ++
          let '(res, tr) := live_resume a lv1 r tmo in
          match after_call lv1 res tr with
          | Some lv2 => reread_contexts a tmo lv2 rest
          | None => []
          end
      end
  end.

Definition history_reread_contexts (a : assets) (tmo : text) (t : trigger) (flow : id) (batch : bool) (ops : list (bool * resume)) : list transient :=
  let '(res, tr) := live_start a t flow batch in
  match res with
  | ROk x => reread_contexts a tmo {| lv_core := session_ x; lv_batch_trigger := batch; lv_tr := tr |} ops
  | _ => []
  end.

(* restart pattern [bs] applied to the resumes [rs] (a pattern that is too short is continued with "keep alive") *)
Fixpoint with_pattern (bs : list bool) (rs : list resume) : list (bool * resume) :=
  match rs with
  | [] => []
  | r :: rs' => match bs with
                | [] => (false, r) :: with_pattern [] rs'
                | b :: bs' => (b, r) :: with_pattern bs' rs'
                end
  end.

Definition never (rs : list resume) : list (bool * resume) := with_pattern [] rs.

Definition run_history (a : assets) (tmo : text) (t : trigger) (flow : id) (batch : bool) (ops : list (bool * resume)) : list obs :=
  let '(res, tr) := live_start a t flow batch in
  {| o_outcome := outcome_of batch (Resumed res) tr; o_context := tr |} ::
  match res with
  | ROk x => run_resumes a tmo {| lv_core := session_ x; lv_batch_trigger := batch; lv_tr := tr |} ops
  | _ => []
  end.
