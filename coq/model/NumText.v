(* NumText.v — model of the text form of numbers (C13).  No proofs here.

   Transcribed from
     excellent/types/number.go   XNumber.Render (= decimal.String), decimalRegexp, newXNumberFromString,
                                 ToXNumber (XText case), ToXText (XNumber case)
     shopspring/decimal v1.4.0   Decimal.string(trimTrailingZeros=true), NewFromString, rescale
     excellent/operators/builtin.go  Equal (textualBinary: compares the Render()ings)
   Strings are lists of code points.  A decimal is lib/Dec.v's [dec] (mantissa : big.Int, exponent : int32). *)
From Coq Require Import ZArith NArith List Bool.
From Verif Require Import lib.Dec.
Import ListNotations.

Definition text := list N.

Fixpoint text_eqb (a b : text) : bool :=
  match a, b with
  | [], [] => true
  | x :: a', y :: b' => N.eqb x y && text_eqb a' b'
  | _, _ => false
  end.

Fixpoint drop_while (p : N -> bool) (s : text) : text :=
  match s with
  | [] => []
  | c :: r => if p c then drop_while p r else s
  end.

Fixpoint span (p : N -> bool) (s : text) : text * text :=
  match s with
  | [] => ([], [])
  | c :: r => if p c then let (a, b) := span p r in (c :: a, b) else ([], s)
  end.

(* unicode.IsSpace (strings.TrimSpace) *)
Definition is_space (c : N) : bool :=
  ((c =? 9) || (c =? 10) || (c =? 11) || (c =? 12) || (c =? 13) || (c =? 32) || (c =? 133) || (c =? 160)
   || (c =? 5760) || ((8192 <=? c) && (c <=? 8202)) || (c =? 8232) || (c =? 8233) || (c =? 8239)
   || (c =? 8287) || (c =? 12288))%N.

Definition trim_with (p : N -> bool) (s : text) : text := rev (drop_while p (rev (drop_while p s))).
Definition trim_space : text -> text := trim_with is_space.

(* the loop in Decimal.string that drops trailing '0's of the fractional part *)
Definition trim_zeros (s : text) : text := rev (drop_while (N.eqb 48) (rev s)).

(* ------------------------------------------------------------------------------------------------ *)
(* Decimal.String() *)

Definition render (d : dec) : text :=
  if (0 <=? dexp d)%Z then
    (* d.rescale(0).value.String() *)
    let v := (mant d * 10 ^ dexp d)%Z in
    (if (v <? 0)%Z then [45%N] else []) ++ digits (Z.abs_N v)
  else
    let str := digits (Z.abs_N (mant d)) in
    let k := Z.to_nat (- dexp d) in
    let len := length str in
    let '(ip, fp) :=
      if (k <? len)%nat then (firstn (len - k) str, skipn (len - k) str)
      else ([48%N], repeat 48%N (k - len) ++ str) in
    let fp := trim_zeros fp in
    let number := ip ++ (match fp with [] => [] | _ => 46%N :: fp end) in
    if (mant d <? 0)%Z then 45%N :: number else number.

(* ------------------------------------------------------------------------------------------------ *)
(* decimal.NewFromString *)

Definition all_digits (s : text) : bool := forallb is_digit s.

(* strconv.ParseInt(s, 10, _) / big.Int.SetString(s, 10) without the range check: optional sign, >= 1 digits *)
Definition parse_signed (s : text) : option Z :=
  let '(neg, ds) := match s with
                    | 45%N :: r => (true, r)
                    | 43%N :: r => (false, r)
                    | _ => (false, s)
                    end in
  match ds with
  | [] => None
  | _ => if all_digits ds then Some (if neg then (- Z.of_N (undigits ds))%Z else Z.of_N (undigits ds)) else None
  end.

(* strings.IndexAny(value, "Ee") as a split *)
Fixpoint split_at (p : N -> bool) (s : text) : option (text * text) :=
  match s with
  | [] => None
  | c :: r => if p c then Some ([], r)
              else match split_at p r with Some (a, b) => Some (c :: a, b) | None => None end
  end.

Definition count (c : N) (s : text) : nat := length (filter (N.eqb c) s).

(* [chk] is the exponent range test (in_int32 in the code); it is a function argument only so that proofs can
   speak about the conversion with and without the range test *)
Definition new_from_string_with (chk : Z -> bool) (value : text) : option dec :=
  (* scientific notation *)
  let r1 := match split_at (fun c => (c =? 69) || (c =? 101))%N value with
            | Some (v, e) => match parse_signed e with
                             | Some x => if chk x then Some (v, x) else None
                             | None => None
                             end
            | None => Some (value, 0%Z)
            end in
  match r1 with
  | None => None
  | Some (value, exp) =>
    if (1 <? count 46 value)%nat then None     (* too many .s *)
    else
      let '(int_string, exp) :=
        match split_at (N.eqb 46) value with
        | None => (value, exp)
        | Some (a, b) => (a ++ b, (exp - Z.of_nat (length b))%Z)
        end in
      match parse_signed int_string with
      | None => None
      | Some v => if chk exp then Some (Dec v exp) else None
      end
  end.

Definition new_from_string : text -> option dec := new_from_string_with in_int32.

(* ------------------------------------------------------------------------------------------------ *)
(* newXNumberFromString: TrimSpace, decimalRegexp  ^-?(([0-9]+)|([0-9]+\.[0-9]+)|(\.[0-9]+))$ , NewFromString *)

Definition strip_minus (s : text) : text := match s with 45%N :: r => r | _ => s end.

Definition decimal_regexp (s : text) : bool :=
  let s := strip_minus s in
  let (a, r) := span is_digit s in
  match r with
  | [] => negb (match a with [] => true | _ => false end)
  | 46%N :: b => negb (match b with [] => true | _ => false end) && all_digits b
  | _ => false
  end.

(* ToXNumber on a text value; None = "unable to convert" *)
Definition parse_number_with (chk : Z -> bool) (s : text) : option dec :=
  let s := trim_space s in
  if decimal_regexp s then new_from_string_with chk s else None.
Definition parse_number : text -> option dec := parse_number_with in_int32.

(* ------------------------------------------------------------------------------------------------ *)
(* the "=" operator on two numbers: textualBinary converts both with ToXText (Render) and compares *)

Definition equal_num (a b : dec) : bool := text_eqb (render a) (render b).

(* ToXText of a number and the "=" operator since the render size limit (excellent/types/base.go CheckRenderSize,
   MaxRenderSize = 10^6): a number is charged 1 + BitLen(coefficient)/3 + |exponent|; above the limit ToXText is an
   error value, and so is "=" when either operand is (None = error) *)
Definition max_render_size_num : Z := 1000000.
Definition bit_len_num (m : Z) : Z := if (m =? 0)%Z then 0%Z else (Z.log2 (Z.abs m) + 1)%Z.
Definition num_render_size (d : dec) : Z := (1 + bit_len_num (mant d) / 3 + Z.abs (dexp d))%Z.
Definition num_render_ok (d : dec) : bool := (num_render_size d <=? max_render_size_num)%Z.

Definition to_text_num (d : dec) : option text := if num_render_ok d then Some (render d) else None.

Definition equal_op_num (a b : dec) : option bool :=
  match to_text_num a, to_text_num b with
  | Some x, Some y => Some (text_eqb x y)
  | _, _ => None
  end.

Definition equal_op_num_text (a : dec) (s : text) : option bool :=
  match to_text_num a with Some x => Some (text_eqb x s) | None => None end.

(* a number against a text: the text operand is compared as it is (1 = "1.0" is false, 1 = "1" is true) *)
Definition equal_num_text (a : dec) (s : text) : bool := text_eqb (render a) s.

(* ------------------------------------------------------------------------------------------------ *)
(* the JSON form of a number inside stored values (flows.Value.Number in contact fields, session JSON):
   XNumber.MarshalJSON writes decimal.String() (decimal.MarshalJSONWithoutQuotes), XNumber.UnmarshalJSON reads the
   token with decimal.NewFromString and refuses an exponent beyond max(1000, length of the token): whatever is
   written out in full is readable, a short text in exponent notation with a huge exponent is not *)
Definition num_marshal (d : dec) : text := render d.

Definition stored_exp_ok (len : nat) (e : Z) : bool :=
  let limit := Z.max 1000 (Z.of_nat len) in ((- limit <=? e) && (e <=? limit))%Z.

(* [s] is a valid JSON number token: encoding/json refuses anything else ("+1", ".5") before this conversion sees it,
   and the driver only submits valid tokens *)
Definition num_unmarshal (s : text) : option dec :=
  match new_from_string s with
  | Some d => if stored_exp_ok (length s) (dexp d) then Some d else None
  | None => None
  end.
