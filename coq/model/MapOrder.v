(* MapOrder.v -- model for property C08 (engine output is a deterministic function of its inputs;
   Go map iteration order must not leak).  Definitions only; proofs are in proofs/MapOrder*.v.

   A Go map is an association list with duplicate-free keys; `for k, v := range m` visits ANY
   permutation of it (the Go runtime randomises the start and order of every map iteration).

   Part 1  site descriptors: the vocabulary of gen/MapRangeSites.v (written by translators/cmd/maprange
           from the goflow working tree on every run) and the classification `classified_ok`.
   Part 2  generic building blocks (insertion sort = the unique result of any stable sort, association
           list operations, string order).
   Part 3  loop-body language: the statement kinds a `range` body is made of, with a sequential
           interpreter.  The theorem in proofs/MapOrderLoop.v says that every body made of the kinds that
           `effect_safe` accepts computes the same final state for every visiting order.
   Part 4  schemas for the order-sensitive shapes (FirstMatch, AppendInOrder, stable sort by a key,
           BuildMap through a key transformer) with their exact side conditions.
   Part 5  hand transcriptions of the goflow pipelines named in the property's anchors:
           excellent/types/object.go   XObject.Properties / Get / Format+Render (via Properties) / MarshalJSON
           flows/results.go            Results.format, Results.Context
           flows/field.go              FieldValues.Context
           flows/runs/legacy.go        legacyExtra.addResults
           flows/definition/localization.go  localization.Languages;  flows/inspect/templates.go Translations
           flows/inspect/issues/base.go      Check
           flows/definition/migrations/base.go  migrate (version order), objectProperties, remapUUIDs (copy)
           services/classification/luis, wit; services/airtime/dtone  (map-derived service results)
   Part 6  the committed exception table: sites whose shape is order-sensitive but whose enclosing pipeline
           is invariant for another reason; every entry names the reason, and proofs/MapOrderSites.v proves
           the statement attached to every reason. *)
From Coq Require Import List String NArith ZArith Bool.
Import ListNotations.

(* ================================================================================================ *)
(** * Part 1: site descriptors *)

Inductive sortkind := SortNone | SortTotal | SortBy.

(* the effects by which a loop body (or an order-exposing call) can carry the visiting order outside *)
Inductive effect :=
| EMapWriteKey            (* dst[k] = e            with k the loop key (possibly converted) *)
| EMapWriteOther          (* dst[f(..)] = e        key computed otherwise *)
| EMapDeleteKey           (* delete(dst, k) *)
| EMapDeleteOther
| EAppend (s : sortkind)  (* x = append(x, ..);   s = what sorts x before control can leave the function *)
| EOrderCall (s : sortkind) (* maps.Keys / maps.Values / reflect MapKeys ..., s = SortTotal when wrapped in slices.Sorted *)
| EAccumInt               (* integer += / |= / ... , max/min *)
| EAccumFloat             (* float accumulation: not associative *)
| EAccumBool              (* b = b || e, b = b && e *)
| EStringBuild            (* string concatenation / builder writes surviving the iteration *)
| EAssignOuter            (* x = e for x declared outside the body: last writer wins *)
| EFlagSet                (* x = constant, the same constant at every such assignment to x in the body *)
| EElemWrite              (* v.f = e through the loop value *)
| ELoopCarried            (* the body reads (outside its own accumulation statement) a variable it also writes *)
| EReturnConst            (* return of constants only, the same constants at every return in the body *)
| EReturnErr              (* return of an error value built in the body *)
| EReturnValue            (* return of anything else *)
| EBreak
| ECallback               (* call of a function value *)
| ECallStmt               (* call statement (result discarded) on state that outlives the iteration *)
| ECallImpure             (* call in value position whose callee may write state that outlives the iteration (through its
                             receiver, its arguments, package-level variables, or in ways the call summary cannot see) *)
| EStreamConsume          (* consumes the injected uuid / clock / random stream *)
| ENestedMapRange
| EChan | EGo | EDefer | EPanic
| EUnknown (what : string).

Record site := {
  s_pkg : string;        (* package path relative to the module *)
  s_func : string;       (* enclosing function ("Recv.Method") or "var:<name>" *)
  s_ord : nat;           (* ordinal of the site inside that function *)
  s_maptype : string;    (* static type of the ranged expression, package-qualified *)
  s_callers : nat;       (* static call sites of the enclosing function in non-test goflow code *)
  s_effects : list effect
}.

(* a reference, in library code, to incidental process state: wall clock, global random source, process identity ...
   (the property fixes clock, UUID source and random source as INPUTS: goflow takes them from injectable generators) *)
Record ambient_call := { am_pkg : string; am_func : string; am_callee : string }.

Definition ambient_ok (allowed : list (string * string * string)) (a : ambient_call) : bool :=
  existsb (fun x => String.eqb (am_pkg a) (fst (fst x)) && String.eqb (am_func a) (snd (fst x)) && String.eqb (am_callee a) (snd x)) allowed.

Definition sortkind_eqb (a b : sortkind) : bool :=
  match a, b with
  | SortNone, SortNone | SortTotal, SortTotal | SortBy, SortBy => true
  | _, _ => false
  end.

Definition effect_eqb (a b : effect) : bool :=
  match a, b with
  | EMapWriteKey, EMapWriteKey | EMapWriteOther, EMapWriteOther | EMapDeleteKey, EMapDeleteKey
  | EMapDeleteOther, EMapDeleteOther | EAccumInt, EAccumInt | EAccumFloat, EAccumFloat
  | EAccumBool, EAccumBool | EStringBuild, EStringBuild | EAssignOuter, EAssignOuter
  | EFlagSet, EFlagSet | EElemWrite, EElemWrite | ELoopCarried, ELoopCarried
  | EReturnConst, EReturnConst | EReturnErr, EReturnErr
  | EReturnValue, EReturnValue | EBreak, EBreak | ECallback, ECallback | ECallStmt, ECallStmt
  | ECallImpure, ECallImpure | EStreamConsume, EStreamConsume | ENestedMapRange, ENestedMapRange | EChan, EChan | EGo, EGo
  | EDefer, EDefer | EPanic, EPanic => true
  | EAppend s, EAppend t => sortkind_eqb s t
  | EOrderCall s, EOrderCall t => sortkind_eqb s t
  | EUnknown s, EUnknown t => String.eqb s t
  | _, _ => false
  end.

Fixpoint effects_eqb (a b : list effect) : bool :=
  match a, b with
  | [], [] => true
  | x :: a', y :: b' => effect_eqb x y && effects_eqb a' b'
  | _, _ => false
  end.

(* effects whose loop-body statement kind is order-insensitive (Part 3 / proofs/MapOrderLoop.v) *)
Definition effect_safe (e : effect) : bool :=
  match e with
  | EMapWriteKey | EMapDeleteKey | EAppend SortTotal | EOrderCall SortTotal
  | EAccumInt | EAccumBool | EFlagSet | EReturnConst => true
  | _ => false
  end.

Definition is_return (e : effect) : bool :=
  match e with EReturnConst | EReturnErr | EReturnValue | EBreak => true | _ => false end.

(* a body that can leave the loop early must do nothing else: what it wrote before leaving would be a
   partial, order-dependent state *)
Definition shape_safe (effs : list effect) : bool :=
  forallb effect_safe effs &&
  (if existsb is_return effs then forallb is_return effs else true).

(* why an order-sensitive looking site is nevertheless accepted *)
Inductive reason :=
| RRegistration        (* init(): copies a composite-literal map into a registry map through Register*(name, fn): BuildMap by the key *)
| RKeyGuardedAssign    (* the outer assignment is guarded by `key == constant`: at most one key takes it; the rest is BuildMap by the key *)
| RMinMatch            (* XObject.Get: keeps the SMALLEST matching key: a minimum, not a first match *)
| RValueKeyedByOwnKey  (* Contact.MarshalJSON: dst[v.field.Key()] with the FieldValues invariant key = v.field.Key() *)
| RErrPresence         (* only returns an error: presence of an error is order-insensitive; the named outputs do not exist then *)
| RConflictChecked     (* migrateRuleSet airtime: dst[f v] = g v with an error whenever two entries collide on f *)
| RStableSortInjective (* migrate: collected versions are sorted by a key that is injective on the registered versions *)
| RNoCaller            (* order-exposing helper without any caller in the library *)
| RFirstMatchUnique    (* flowAssets.FindByName: first match; invariant when at most one cached flow has the name *)
| RHeaderDefaults      (* webhooks service: defaults written through http.Header canonical names from engine configuration *)
| RKeySelected         (* jsonpath.visit: `k == selector` selects at most one key; the wildcard branch writes by the key *)
| RKeyPartitioned      (* every iteration reads and writes only dst[k] for its own key k *)
| RKnownFinding (cls : string)   (* order-DEPENDENT, in a dependency outside the goflow module: recorded in KNOWN_FINDINGS.txt under
                          this class; the determinism driver carries a probe that reports it on every run *)
| RCanonicalKeyWrite   (* dst.Set(canonical(k), v): BuildMap through a key transformer; invariant when it is injective on the keys *)
| RMonotoneBudget      (* types.spendSize: every entry takes a NON-NEGATIVE cost off a budget, the walk stops (false) as soon as the
                          budget is overdrawn; the callers read the budget only after `true` *)
| RPureCalleeReviewed  (* a value-position callee the call summary cannot clear (interface dispatch over-approximated by method
                          name, parser outside the module) was reviewed: its result is a function of its arguments and it writes
                          nothing that outlives the call; the body is then an accepted body *).

(* a budget walk: entry a costs `cost a`; None = the budget did not last (what is left is not observed then) *)
Fixpoint spend {A : Type} (cost : A -> nat) (l : list A) (b : nat) : option nat :=
  match l with
  | [] => Some b
  | a :: r => if Nat.leb (cost a) b then spend cost r (Nat.sub b (cost a)) else None
  end.

(* An entry is keyed STRUCTURALLY: package, static type of the ranged map, and the exact effect descriptor it was
   reviewed for.  The function name and ordinal are kept for the reader only: a pure refactor that moves the loop
   into a helper of the same package, or renames the function, keeps the classification; a change of what the loop
   does (another effect kind) or of what it ranges over does not. *)
Record exception_entry := {
  x_pkg : string; x_func : string; x_ord : nat;
  x_maptype : string;
  x_effects : list effect;     (* the exact descriptor the entry was reviewed for *)
  x_reason : reason
}.

Definition site_matches (s : site) (x : exception_entry) : bool :=
  String.eqb (s_pkg s) (x_pkg x) && String.eqb (s_maptype s) (x_maptype x)
  && effects_eqb (s_effects s) (x_effects x)
  && match x_reason x with RNoCaller => Nat.eqb (s_callers s) 0 | _ => true end.

Definition classified_ok (exceptions : list exception_entry) (s : site) : bool :=
  shape_safe (s_effects s) || existsb (site_matches s) exceptions.

(* ONE SITE PER ENTRY.  Entries are keyed structurally, so an entry could cover a second loop with the same key that
   nobody reviewed.  A site that needs an exception is claimed by the FIRST entry of the table that matches it; no entry
   may claim more than one site.  A second loop over the same map type with the same effects in the same package
   re-opens the obligation. *)
Fixpoint first_idx (s : site) (xs : list exception_entry) (i : nat) : option nat :=
  match xs with
  | [] => None
  | e :: r => if site_matches s e then Some i else first_idx s r (S i)
  end.

Definition claims (xs : list exception_entry) (sites : list site) (i : nat) : nat :=
  List.length (filter (fun s => negb (shape_safe (s_effects s)) &&
                               match first_idx s xs 0 with Some j => Nat.eqb i j | None => false end) sites).

Definition one_site_per_entry (xs : list exception_entry) (sites : list site) : bool :=
  forallb (fun i => Nat.leb (claims xs sites i) 1) (seq 0 (List.length xs)).

(* the same for the reviewed ambient sources: one reviewed use per (package, function, callee) *)
Definition one_call_per_allowed (allowed : list (string * string * string)) (calls : list ambient_call) : bool :=
  forallb (fun x => Nat.leb (List.length (filter (fun a => String.eqb (am_pkg a) (fst (fst x)) && String.eqb (am_func a) (snd (fst x))
                                                           && String.eqb (am_callee a) (snd x)) calls)) 1) allowed.

(* the sites that fail: printed by the check when the obligation re-opens *)
Definition unclassified (exceptions : list exception_entry) (sites : list site) : list site :=
  filter (fun s => negb (classified_ok exceptions s)) sites.

(* exception entries that no longer match any site (stale): reported, not an error *)
Definition stale_exceptions (exceptions : list exception_entry) (sites : list site) : list exception_entry :=
  filter (fun x => negb (existsb (fun s => site_matches s x) sites)) exceptions.

(* ================================================================================================ *)
(** * Part 2: building blocks *)

Definition str := list N.          (* a Go string as its code points (= byte order for valid UTF-8) *)

Fixpoint str_eqb (a b : str) : bool :=
  match a, b with
  | [], [] => true
  | x :: a', y :: b' => N.eqb x y && str_eqb a' b'
  | _, _ => false
  end.

(* Go's `<=` on strings: lexicographic *)
Fixpoint str_leb (a b : str) : bool :=
  match a, b with
  | [], _ => true
  | _ :: _, [] => false
  | x :: a', y :: b' => if N.ltb x y then true else if N.ltb y x then false else str_leb a' b'
  end.

Definition str_ltb (a b : str) : bool := negb (str_leb b a).

Section Sorting.
  Context {A : Type}.
  Variable leb : A -> A -> bool.

  (* x goes before the first element it is <= to: equal elements keep their input order *)
  Fixpoint insert (x : A) (l : list A) : list A :=
    match l with
    | [] => [x]
    | y :: t => if leb x y then x :: y :: t else y :: insert x t
    end.

  (* the result every stable sort produces (sort.Stable, sort.SliceStable, slices.SortStableFunc); for a
     total order in which equivalent elements are equal also what sort.Strings / slices.Sort produce *)
  Definition isort (l : list A) : list A := fold_right insert [] l.
End Sorting.

Section Assoc.
  Context {K V : Type}.
  Variable keq : K -> K -> bool.

  Fixpoint lookup (k : K) (m : list (K * V)) : option V :=
    match m with
    | [] => None
    | (k', v) :: t => if keq k k' then Some v else lookup k t
    end.

  (* m[k] = v *)
  Fixpoint upsert (k : K) (v : V) (m : list (K * V)) : list (K * V) :=
    match m with
    | [] => [(k, v)]
    | (k', v') :: t => if keq k k' then (k, v) :: t else (k', v') :: upsert k v t
    end.

  (* delete(m, k) *)
  Fixpoint remove_key (k : K) (m : list (K * V)) : list (K * V) :=
    match m with
    | [] => []
    | (k', v') :: t => if keq k k' then remove_key k t else (k', v') :: remove_key k t
    end.
End Assoc.

(* entries of a string-keyed map in key order: what `for _, k := range slices.Sorted(maps.Keys(m))` visits,
   and what encoding/json writes for a map *)
Definition sorted_entries {V : Type} (m : list (str * V)) : list (str * V) :=
  isort (fun a b => str_leb (fst a) (fst b)) m.

Definition sorted_keys {V : Type} (m : list (str * V)) : list str := isort str_leb (map fst m).

Fixpoint join (sep : str) (l : list str) : str :=
  match l with
  | [] => []
  | [x] => x
  | x :: t => x ++ sep ++ join sep t
  end.

(* ================================================================================================ *)
(** * Part 3: loop bodies *)

Section Loop.
  Variables K V I : Type.            (* key, value, and the type of computed items *)
  Variable keq : K -> K -> bool.
  Variable ieq : I -> I -> bool.

  Inductive cell :=
  | CMap (m : list (K * I))          (* a map declared outside the loop *)
  | CList (l : list I)               (* a slice declared outside the loop *)
  | CInt (z : Z)
  | COr (b : bool) | CAnd (b : bool)
  | CFlag (o : option I).            (* a scalar that is only ever assigned constants *)

  Inductive stmt :=
  | SMapWriteKey (dst : nat) (cond : K -> V -> bool) (g : K -> V -> I)   (* if cond { dst[k] = g k v } *)
  | SMapDeleteKey (dst : nat) (cond : K -> V -> bool)                    (* if cond { delete(dst, k) } *)
  | SAppend (dst : nat) (cond : K -> V -> bool) (g : K -> V -> I)        (* if cond { dst = append(dst, g k v) } *)
  | SAccumInt (dst : nat) (g : K -> V -> Z)                              (* dst += g k v *)
  | SAccumOr (dst : nat) (g : K -> V -> bool)                            (* dst = dst || g k v *)
  | SAccumAnd (dst : nat) (g : K -> V -> bool)
  | SFlagSet (dst : nat) (cond : K -> V -> bool) (c : I)                 (* if cond { dst = c } *)
  | SAssignAtKey (dst : nat) (c : K) (g : K -> V -> I)                   (* if k == c { dst = g k v }: at most one key takes it *)
  | SUpdateAtKey (dst : nat) (h : K -> V -> option I -> I)               (* dst[k] = h k v dst[k]: reads and writes its own element only *)
  (* order-sensitive kinds *)
  | SAssign (dst : nat) (cond : K -> V -> bool) (g : K -> V -> I)        (* if cond { dst = g k v } *)
  | SMapWriteOther (dst : nat) (f : K -> V -> K) (g : K -> V -> I).      (* dst[f k v] = g k v *)

  Definition stmt_dst (s : stmt) : nat :=
    match s with
    | SMapWriteKey d _ _ | SMapDeleteKey d _ | SAppend d _ _ | SAccumInt d _ | SAccumOr d _
    | SAccumAnd d _ | SFlagSet d _ _ | SAssignAtKey d _ _ | SUpdateAtKey d _ | SAssign d _ _ | SMapWriteOther d _ _ => d
    end.

  (* what one statement does to the cell it addresses, for the visited pair (k, v); a statement addressing
     a cell of another kind does not type-check in Go: modelled as no change *)
  Definition apply_stmt (s : stmt) (k : K) (v : V) (c : cell) : cell :=
    match s, c with
    | SMapWriteKey _ cond g, CMap m => if cond k v then CMap (upsert keq k (g k v) m) else c
    | SMapDeleteKey _ cond, CMap m => if cond k v then CMap (remove_key keq k m) else c
    | SAppend _ cond g, CList l => if cond k v then CList (l ++ [g k v]) else c
    | SAccumInt _ g, CInt z => CInt (z + g k v)
    | SAccumOr _ g, COr b => COr (b || g k v)
    | SAccumAnd _ g, CAnd b => CAnd (b && g k v)
    | SFlagSet _ cond x, CFlag _ => if cond k v then CFlag (Some x) else c
    | SAssignAtKey _ x g, CFlag _ => if keq k x then CFlag (Some (g k v)) else c
    | SUpdateAtKey _ h, CMap m => CMap (upsert keq k (h k v (lookup keq k m)) m)
    | SAssign _ cond g, CFlag _ => if cond k v then CFlag (Some (g k v)) else c
    | SMapWriteOther _ f g, CMap m => CMap (upsert keq (f k v) (g k v) m)
    | _, _ => c
    end.

  Fixpoint upd (i : nat) (f : cell -> cell) (st : list cell) {struct st} : list cell :=
    match st, i with
    | [], _ => []
    | c :: t, O => f c :: t
    | c :: t, S j => c :: upd j f t
    end.

  Definition exec_stmt (k : K) (v : V) (st : list cell) (s : stmt) : list cell :=
    upd (stmt_dst s) (apply_stmt s k v) st.

  (* one iteration: the statements in program order *)
  Definition exec_body (body : list stmt) (st : list cell) (kv : K * V) : list cell :=
    fold_left (exec_stmt (fst kv) (snd kv)) body st.

  (* the whole loop over the pairs in the order the runtime happens to visit them *)
  Definition run_loop (body : list stmt) (st : list cell) (visited : list (K * V)) : list cell :=
    fold_left (exec_body body) visited st.

  (* the statement kinds accepted without further argument; their effect descriptor is effect_of_stmt *)
  Definition stmt_safe (s : stmt) : bool :=
    match s with
    | SAssign _ _ _ | SMapWriteOther _ _ _ => false
    | _ => true
    end.

  (* all constant assignments to one variable assign the same constant; all key-guarded assignments to one variable
     are guarded by the same key; a variable takes either constants or a key-guarded value, not both *)
  Definition flags_agree (s1 s2 : stmt) : bool :=
    match s1, s2 with
    | SFlagSet d1 _ c1, SFlagSet d2 _ c2 => negb (Nat.eqb d1 d2) || ieq c1 c2
    | SAssignAtKey d1 c1 _, SAssignAtKey d2 c2 _ => negb (Nat.eqb d1 d2) || keq c1 c2
    | SAssignAtKey d1 _ _, SFlagSet d2 _ _ | SFlagSet d1 _ _, SAssignAtKey d2 _ _ => negb (Nat.eqb d1 d2)
    | _, _ => true
    end.

  Definition body_safe (body : list stmt) : bool :=
    forallb stmt_safe body && forallb (fun s1 => forallb (flags_agree s1) body) body.

  (* what a statement looks like to the translator; `sorted` says whether the slice a SAppend targets is
     sorted by a total order before it leaves the function *)
  Definition effect_of_stmt (sorted : nat -> bool) (s : stmt) : effect :=
    match s with
    | SMapWriteKey _ _ _ => EMapWriteKey
    | SMapDeleteKey _ _ => EMapDeleteKey
    | SAppend d _ _ => EAppend (if sorted d then SortTotal else SortNone)
    | SAccumInt _ _ => EAccumInt
    | SAccumOr _ _ | SAccumAnd _ _ => EAccumBool
    | SFlagSet _ _ _ => EFlagSet
    | SAssignAtKey _ _ _ => EAssignOuter     (* the translator does not see the guard: needs a reviewed exception *)
    | SUpdateAtKey _ _ => EMapWriteKey
    | SAssign _ _ _ => EAssignOuter
    | SMapWriteOther _ _ _ => EMapWriteOther
    end.

  (* search loops: `for k, v := range m { if p k v { return c1 } }; return c2` *)
  Definition search_loop {R : Type} (p : K -> V -> bool) (c1 c2 : R) (visited : list (K * V)) : R :=
    if existsb (fun kv => p (fst kv) (snd kv)) visited then c1 else c2.
End Loop.

Arguments CMap {K I}. Arguments CList {K I}. Arguments CInt {K I}. Arguments COr {K I}.
Arguments CAnd {K I}. Arguments CFlag {K I}.
Arguments SMapWriteKey {K V I}. Arguments SMapDeleteKey {K V I}. Arguments SAppend {K V I}.
Arguments SAccumInt {K V I}. Arguments SAccumOr {K V I}. Arguments SAccumAnd {K V I}.
Arguments SFlagSet {K V I}. Arguments SAssign {K V I}. Arguments SMapWriteOther {K V I}.
Arguments SAssignAtKey {K V I}. Arguments SUpdateAtKey {K V I}.

(* ================================================================================================ *)
(** * Part 4: order-sensitive schemas *)

Section Schemas.
  Context {K V R : Type}.

  (* FirstMatch: `for k, v := range m { if p k v { return f k v } }` *)
  Definition first_match (p : K * V -> bool) (f : K * V -> R) (visited : list (K * V)) : option R :=
    match find p visited with Some kv => Some (f kv) | None => None end.

  (* AppendInOrder: `for k, v := range m { out = append(out, f k v) }` with no sort afterwards *)
  Definition append_in_order (f : K * V -> R) (visited : list (K * V)) : list R := map f visited.

  (* CollectThenStableSortBy: append, then sort.SliceStable by `leb` on the collected items *)
  Definition collect_then_stable_sort (leb : R -> R -> bool) (f : K * V -> R) (visited : list (K * V)) : list R :=
    isort leb (map f visited).
End Schemas.

(* BuildMap through a key transformer: `for k, v := range m { out[f k] = g k v }` *)
Definition build_map {K V K2 V2 : Type} (keq2 : K2 -> K2 -> bool) (f : K -> K2) (g : K -> V -> V2)
  (visited : list (K * V)) : list (K2 * V2) :=
  fold_left (fun acc kv => upsert keq2 (f (fst kv)) (g (fst kv) (snd kv)) acc) visited [].

(* BuildMap with a conflict check (legacy migrateRuleSet, airtime): error as soon as two entries map to the
   same new key with values that are not the same *)
Definition build_map_checked {K V K2 V2 : Type} (keq2 : K2 -> K2 -> bool) (veq : V2 -> V2 -> bool)
  (f : V -> K2) (g : V -> V2) (visited : list (K * V)) : option (list (K2 * V2)) :=
  fold_left (fun acc kv =>
    match acc with
    | None => None
    | Some m => match lookup keq2 (f (snd kv)) m with
                | Some old => if veq old (g (snd kv)) then Some (upsert keq2 (f (snd kv)) (g (snd kv)) m) else None
                | None => Some (upsert keq2 (f (snd kv)) (g (snd kv)) m)
                end
    end) visited (Some []).

(* ================================================================================================ *)
(** * Part 5: goflow pipelines, transcribed *)

(* ---- excellent/types/object.go ------------------------------------------------------------ *)

(* XObject.Properties: collect the names, sort.Strings *)
Definition xobject_properties {V : Type} (props : list (str * V)) : list str :=
  isort str_leb (append_in_order fst props).

(* XObject.Format / Render / String: `for _, k := range x.Properties() { ... x.properties()[k] ... }` *)
Definition xobject_entries {V : Type} (props : list (str * V)) : list (str * option V) :=
  map (fun k => (k, lookup str_eqb k props)) (xobject_properties props).

(* XObject.MarshalJSON.  The code today (object.go writeJSON, after e7a2eae): collect the names of the properties that pass
   the filter in map order, sort.Strings, then write `name:json(v)` per name, leaving out a property whose value cannot be
   marshaled.  The transcription below is the earlier shape (`marshaled[p] = json(v)`, entries written in key order): same
   output as a function of the map - the kept entries sorted by name - with `keep` standing for filter AND marshalability.
   NOT modelled: the extra `__default__` member of an object with a default and marshalDefault (a constant name appended
   before the sort; the KMarshal cases never build such an object). *)
Definition xobject_marshal {V J : Type} (keep : str -> V -> bool) (tojson : V -> J) (props : list (str * V)) : list (str * J) :=
  sorted_entries (fold_left (fun acc kv => if keep (fst kv) (snd kv) then upsert str_eqb (fst kv) (tojson (snd kv)) acc else acc) props []).

(* XObject.Get (after fix c2f4026): among the properties whose lower-cased name equals the lower-cased key keep
   the smallest name.  `lower` stands for strings.ToLower. *)
Definition xobject_get_step (lower : str -> str) (key : str) (acc : option str) (p : str) : option str :=
  if str_eqb (lower p) key then
    match acc with
    | None => Some p
    | Some m => if str_ltb p m then Some p else acc
    end
  else acc.

Definition xobject_get {V : Type} (lower : str -> str) (key : str) (props : list (str * V)) : option (str * option V) :=
  match fold_left (xobject_get_step lower (lower key)) (map fst props) None with
  | Some m => Some (m, lookup str_eqb m props)
  | None => None
  end.

(* XObject.Get as it was before the fix: return at the first match *)
Definition xobject_get_first {V : Type} (lower : str -> str) (key : str) (props : list (str * V)) : option (str * V) :=
  first_match (fun kv => str_eqb (lower (fst kv)) (lower key)) (fun kv => kv) props.

(* ---- flows/results.go ------------------------------------------------------------------------- *)

Record result := { r_name : str; r_value : str; r_created : N; r_extra : option (list (str * str)) }.

Definition colon_space : str := [58; 32]%N.
Definition newline : str := [10]%N.

(* Results.format: one "name: value" line per result, sort.Strings, joined by newlines *)
Definition results_format (rs : list (str * result)) : str :=
  join newline (isort str_leb (append_in_order (fun kv => r_name (snd kv) ++ colon_space ++ r_value (snd kv)) rs)).

(* Results.Context: entries["__default__"] = format; entries[k] = Context(v): a Go map, observed as its
   sorted entries *)
Definition default_key : str := [95; 95; 100; 101; 102; 97; 117; 108; 116; 95; 95]%N.  (* __default__ *)

Definition results_context {X : Type} (ctx : result -> X) (of_text : str -> X) (rs : list (str * result)) : list (str * X) :=
  sorted_entries (fold_left (fun acc kv => upsert str_eqb (fst kv) (ctx (snd kv)) acc) rs
                     [(default_key, of_text (results_format rs))]).

(* ---- flows/field.go --------------------------------------------------------------------------- *)

(* FieldValues.Context: entries[k] = value; a "name: rendered" line for every non-nil value; sort.Strings *)
Definition field_values_context {Val X : Type} (to_x : Val -> option X) (field_name : Val -> str) (render : X -> str)
  (of_text : str -> X) (fs : list (str * Val)) : list (str * option X) :=
  let entries := fold_left (fun acc kv => upsert str_eqb (fst kv) (to_x (snd kv)) acc) fs [] in
  let lines := fold_left (fun acc kv => match to_x (snd kv) with
                                         | Some x => acc ++ [field_name (snd kv) ++ colon_space ++ render x]
                                         | None => acc end) fs [] in
  sorted_entries (upsert str_eqb default_key (Some (of_text (join newline (isort str_leb lines)))) entries).

(* ---- flows/runs/legacy.go --------------------------------------------------------------------- *)

(* legacyExtra.addResults: results in key order, stably re-sorted by creation time, then added one by one:
   values[snakify(name)] = extra text; every property of the extra object overwrites values[key] *)
Definition legacy_add_result (snakify : str -> str) (values : list (str * str)) (r : result) : list (str * str) :=
  match r_extra r with
  | None => values
  | Some props =>
      fold_left (fun acc kv => upsert str_eqb (fst kv) (snd kv) acc) (sorted_entries props)
                (upsert str_eqb (snakify (r_name r)) (r_value r) values)
  end.

Definition legacy_add_results (snakify : str -> str) (values : list (str * str)) (rs : list (str * result)) : list (str * str) :=
  let by_key := map snd (sorted_entries rs) in
  let by_time := isort (fun a b => N.leb (r_created a) (r_created b)) by_key in
  fold_left (legacy_add_result snakify) by_time values.

(* the same without the preliminary key order (the code before fix 068cff8): collected in visiting order *)
Definition legacy_add_results_unsorted (snakify : str -> str) (values : list (str * str)) (rs : list (str * result)) : list (str * str) :=
  let by_time := isort (fun a b => N.leb (r_created a) (r_created b)) (map snd rs) in
  fold_left (legacy_add_result snakify) by_time values.

(* ---- flows/definition/localization.go, flows/inspect/templates.go ----------------------------- *)

(* localization.Languages: collect the language codes, slices.Sort *)
Definition localization_languages {T : Type} (loc : list (str * T)) : list str :=
  isort str_leb (append_in_order fst loc).

(* inspect.Translations: for every language in that order, every translated value of the item *)
Definition inspect_translations {T : Type} (item_translation : T -> list str) (loc : list (str * T)) : list (str * str) :=
  flat_map (fun lang => match lookup str_eqb lang loc with
                        | Some t => map (fun v => (lang, v)) (item_translation t)
                        | None => [] end)
           (localization_languages loc).

(* the same over the unsorted language list (before fix 86ca973) *)
Definition inspect_translations_unsorted {T : Type} (item_translation : T -> list str) (loc : list (str * T)) : list (str * str) :=
  flat_map (fun kv => map (fun v => (fst kv, v)) (item_translation (snd kv))) loc.

(* inspect.NewDependencies: first occurrence of every reference key, in the order of the references *)
Fixpoint dedup_by {A : Type} (key : A -> str) (seen : list str) (l : list A) : list A :=
  match l with
  | [] => []
  | x :: t => if existsb (str_eqb (key x)) seen then dedup_by key seen t else x :: dedup_by key (key x :: seen) t
  end.

Definition inspect_dependencies {T : Type} (item_translation : T -> list str) (ref_key : str * str -> str) (loc : list (str * T)) : list (str * str) :=
  dedup_by ref_key [] (inspect_translations item_translation loc).

(* ---- flows/inspect/issues/base.go ------------------------------------------------------------- *)

(* Check: the registered checks in type-name order, each reporting issues; then a stable sort by node position *)
Definition issues_check {Issue : Type} (node_pos : Issue -> N) (registered : list (str * list Issue)) : list Issue :=
  isort (fun a b => N.leb (node_pos a) (node_pos b)) (flat_map snd (sorted_entries registered)).

Definition issues_check_unsorted {Issue : Type} (node_pos : Issue -> N) (registered : list (str * list Issue)) : list Issue :=
  isort (fun a b => N.leb (node_pos a) (node_pos b)) (flat_map snd registered).

(* ---- flows/definition/migrations/base.go ------------------------------------------------------ *)

Definition version := (N * N * N)%type.

Definition version_ltb (a b : version) : bool :=
  let '(a1, a2, a3) := a in let '(b1, b2, b3) := b in
  N.ltb a1 b1 || (N.eqb a1 b1 && (N.ltb a2 b2 || (N.eqb a2 b2 && N.ltb a3 b3))).

Definition version_leb (a b : version) : bool := negb (version_ltb b a).

Definition version_eqb (a b : version) : bool :=
  let '(a1, a2, a3) := a in let '(b1, b2, b3) := b in N.eqb a1 b1 && N.eqb a2 b2 && N.eqb a3 b3.

(* migrate: the registered versions newer than `from` (and not newer than `to`), earliest first.
   sort.SliceStable with less = LessThan. *)
Definition migrate_versions {F : Type} (from : version) (to : option version) (registered : list (version * F)) : list version :=
  isort version_leb
    (map fst (filter (fun kv => version_ltb from (fst kv) &&
                                match to with Some t => version_leb (fst kv) t | None => true end) registered)).

(* objectProperties: property names of a generic JSON object, sort.Strings *)
Definition object_properties {V : Type} (obj : list (str * V)) : list str := isort str_leb (append_in_order fst obj).

(* remapUUIDs: `mapping[k] = v` for every entry of depMapping *)
Definition remap_copy (dep : list (str * str)) : list (str * str) := build_map str_eqb (fun k => k) (fun _ v => v) dep.

(* ---- services (after the services fix) -------------------------------------------------------- *)

(* luis: intents by name, then sort.SliceStable by descending score *)
Definition luis_intents (intents : list (str * N)) : list (str * N) :=
  isort (fun a b => N.leb (snd b) (snd a)) (sorted_entries intents).

(* luis before the fix: collected in visiting order, then the same stable sort *)
Definition luis_intents_unsorted (intents : list (str * N)) : list (str * N) :=
  collect_then_stable_sort (fun a b => N.leb (snd b) (snd a)) (fun kv => kv) intents.

(* wit: entities keyed "name:role" are filed under "name", the entry visited last wins; visited in key order *)
Definition wit_entities {E : Type} (base_name : str -> str) (entities : list (str * E)) : list (str * E) :=
  sorted_entries (build_map str_eqb base_name (fun _ e => e) (sorted_entries entities)).

Definition wit_entities_unsorted {E : Type} (base_name : str -> str) (entities : list (str * E)) : list (str * E) :=
  sorted_entries (build_map str_eqb base_name (fun _ e => e) entities).

(* dtone: `for currency in sorted keys { for p in products { if match { product = p; break } } }`: the break only
   leaves the inner loop, so the LAST currency (in key order) for which a product matches is kept *)
Definition dtone_step {A P : Type} (matching : str -> A -> option P) (acc : option (str * P)) (kv : str * A) : option (str * P) :=
  match matching (fst kv) (snd kv) with Some p => Some (fst kv, p) | None => acc end.

Definition dtone_pick {A P : Type} (matching : str -> A -> option P) (amounts : list (str * A)) : option (str * P) :=
  fold_left (dtone_step matching) (sorted_entries amounts) None.

(* dtone before the fix: the last matching currency in visiting order *)
Definition dtone_pick_unsorted {A P : Type} (matching : str -> A -> option P) (amounts : list (str * A)) : option (str * P) :=
  fold_left (dtone_step matching) amounts None.

(* ---- the known dependency findings as models (gocommon; goflow cannot repair them) -------------------------------- *)

(* gocommon urns/parser.go:105 `unescape`: `for ch, esc := range escapes { s = strings.ReplaceAll(s, esc, string(ch)) }` with
   escapes = {'#': "%23", '%': "%25", '?': "%3F"}: one replacement pass per map entry, in visiting order.  An escape is
   three code points (a b c), its replacement one (r). *)
Fixpoint replace3 (a b c r : N) (s : str) : str :=
  match s with
  | [] => []
  | x :: t =>
      match t with
      | y :: z :: u => if (N.eqb x a && N.eqb y b && N.eqb z c)%bool then r :: replace3 a b c r u else x :: replace3 a b c r t
      | _ => x :: replace3 a b c r t
      end
  end.

Definition urn_escape := (N * (N * N * N))%type.      (* character, the three code points of its escape *)

Definition urns_unescape (visited : list urn_escape) (s : str) : str :=
  fold_left (fun acc e => let '(ch, (a, b, c)) := e in replace3 a b c ch acc) visited s.

(* '#' = 35 "%23" = 37 50 51;  '%' = 37 "%25" = 37 50 53;  '?' = 63 "%3F" = 37 51 70 *)
Definition urn_escapes : list urn_escape := [(35, (37, 50, 51)); (37, (37, 50, 53)); (63, (37, 51, 70))]%N.

(* the classes the tables record as known findings *)
Definition known_classes (xs : list exception_entry) : list string :=
  flat_map (fun e => match x_reason e with RKnownFinding c => [c] | _ => [] end) xs.
