(* SharedStateAllow.v -- property C09: the committed lists used to classify gen/SharedState.v.
   Everything not covered by a general rule of model/Conc.v (constructor-like function, under the owner's mutex,
   inside sync.Once, start-up registration reachable only from init()) must be listed here WITH its reason; a new
   write site that is not listed makes `c09_code_discipline_ok` fail.

   al_private_types: types whose instances belong to exactly one session's goroutine (or to one builder before
   Build()).  That no instance of them is stored in shared assets is a review judgement (see the notes), not
   something the translator derives; the -race driver is the check of it.
     flows/engine.session, flows/runs.run|step|legacyExtra       the session and its runs: created by NewSession / ReadSession
     flows.Contact|ContactURN|GroupList|FieldValues|Value        the session's contact (triggers/resumes carry their own copy)
     flows.Results|Result                                        run results
     flows.BaseMsg|MsgIn, flows/events.BaseEvent                 messages and events of one sprint
     flows/triggers.*, flows.EngineOptions, flows/engine.services   builders: written before Build()
     excellent/types.XObject|XArray|baseValue                    values of one evaluation; the package-level instances are
                                                                 listed separately (global_shared_vars) and must be eager
     utils/smtpx.MockSender                                      test double
   al_field_writes (package, function):
     envs EnvironmentBuilder.With*             builder: the environment is published by Build()
     (helpers that only run while an object is being built, e.g. envs LocationHierarchy.initializeFromRoot, are recognised by
      the translator: unexported and every caller chain starts in a constructor-like function)
     flows/definition flow.ChangeLanguage      writes the COPY made by flow.copy() (marshal + ReadFlow), never the receiver
     flows/definition languageTranslation.setTextArray   called by ChangeLanguage on the copy's fresh translation and by
                                               SetItemTranslation
     flows/definition localization.SetItemTranslation   editing API used by flows/translation (PO import) on flows loaded
                                               for that purpose; the engine never calls it
     flows/routers baseRouter.EnumerateLocalizables   the write closure is only invoked by ChangeLanguage on the copy
     flows/modifiers FieldModifier.Apply       normalises the text of the value it is about to store in the session's contact
     flows/runs run.SaveResult                 truncates the value of the result being saved into the run
   al_global_writes (package, function):
     RegisterXFunction, RegisterXWork, RegisterXTest, RegisterValidatorTag, RegisterValidatorAlias   exported start-up registration; in the
                                               library only reachable from init(); documented as configuration
     utils/smtpx SetSender                     test hook replacing the SMTP sender *)
(* al_mutators (type of a package-level instance, mutating method):
     baseValue.SetDeprecated (promoted into every XValue type)   its three callers apply it to a value they have just built:
        flows/results.go:86-90 (types.NewXArray), flows/runs/legacy.go:55 (types.NewXObject), flows/runs/summary.go:74 (types.NewXText),
        flows/services.go:77 (types.JSONToXValue, which always allocates); never to XObjectEmpty / XTextEmpty / ... *)
From Coq Require Import List String.
From Verif Require Import model.Conc.
Import ListNotations.
Open Scope string_scope.

Definition shared_state_allow : allow_lists := {|
  al_private_types := [
    "flows/engine.session"; "flows/runs.run"; "flows/runs.step"; "flows/runs.legacyExtra";
    "flows.Contact"; "flows.ContactURN"; "flows.GroupList"; "flows.FieldValues"; "flows.Value";
    "flows.Results"; "flows.Result"; "flows.BaseMsg"; "flows.MsgIn"; "flows/events.BaseEvent";
    "flows/triggers.baseTrigger"; "flows/triggers.ManualTrigger"; "flows/triggers.MsgTrigger";
    "flows.EngineOptions"; "flows/engine.services";
    "excellent/types.XObject"; "excellent/types.XArray"; "excellent/types.baseValue";
    "utils/smtpx.MockSender" ];
  al_field_writes := [
    ("envs", "EnvironmentBuilder.WithAllowedLanguages"); ("envs", "EnvironmentBuilder.WithDateFormat");
    ("envs", "EnvironmentBuilder.WithDefaultCountry"); ("envs", "EnvironmentBuilder.WithInputCollation");
    ("envs", "EnvironmentBuilder.WithNumberFormat"); ("envs", "EnvironmentBuilder.WithRedactionPolicy");
    ("envs", "EnvironmentBuilder.WithTimeFormat"); ("envs", "EnvironmentBuilder.WithTimezone");
    ("flows/definition", "flow.ChangeLanguage"); ("flows/definition", "languageTranslation.setTextArray");
    ("flows/definition", "localization.SetItemTranslation");
    ("flows/routers", "baseRouter.EnumerateLocalizables");
    ("flows/modifiers", "FieldModifier.Apply"); ("flows/runs", "run.SaveResult") ];
  al_global_writes := [
    ("excellent/functions", "RegisterXFunction"); ("excellent/functions", "RegisterXWork"); ("flows/routers/cases", "RegisterXTest");
    ("utils", "RegisterValidatorTag"); ("utils", "RegisterValidatorAlias"); ("utils/smtpx", "SetSender") ];
  al_mutators := [
    ("excellent/types.XArray", "baseValue.SetDeprecated"); ("excellent/types.XBoolean", "baseValue.SetDeprecated");
    ("excellent/types.XDateTime", "baseValue.SetDeprecated"); ("excellent/types.XDate", "baseValue.SetDeprecated");
    ("excellent/types.XNumber", "baseValue.SetDeprecated"); ("excellent/types.XObject", "baseValue.SetDeprecated");
    ("excellent/types.XText", "baseValue.SetDeprecated"); ("excellent/types.XTime", "baseValue.SetDeprecated") ]
|}.
