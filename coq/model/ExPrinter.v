(* ExPrinter.v — model of Expression.String() for every node type of /repo/excellent/tree.go,
   with types.XText.Describe (strconv.Quote, lib/Quote.v), types.XNumber.Describe
   (decimal.Decimal.String of the parsed literal) and types.XBoolean.Describe.  No proofs.
   Library functions enter as section variables: `lower` = unicode.ToLower (strings.ToLower maps it over a
   valid UTF-8 string), `printable` = unicode.IsPrint (used by strconv.Quote). *)
From Coq Require Import List NArith Bool.
From Verif Require Import lib.Quote model.ExSyntax.
Import ListNotations.
Open Scope N_scope.

(* decimal.RequireFromString(lexeme).String() for a lexeme of the form digits or digits.digits:
   leading zeros of the integer part dropped (one digit kept), trailing zeros of the fraction dropped,
   no point when the fraction becomes empty *)
Fixpoint drop_zeros (l : text) : text :=
  match l with
  | c :: r => if c =? 48 then drop_zeros r else l
  | [] => []
  end.

Definition int_render (l : text) : text :=
  match drop_zeros l with [] => [48] | l' => l' end.

Definition frac_render (l : text) : text := rev (drop_zeros (rev l)).

Fixpoint split_dot (l : text) : text * option text :=
  match l with
  | [] => ([], None)
  | c :: r => if c =? 46 then ([], Some r)
              else let (a, b) := split_dot r in (c :: a, b)
  end.

Definition num_render (lexeme : text) : text :=
  match split_dot lexeme with
  | (ip, None) => int_render ip
  | (ip, Some fp) =>
      match frac_render fp with
      | [] => int_render ip
      | fp' => int_render ip ++ [46] ++ fp'
      end
  end.

Definition op_symbol (o : binop) : text :=
  match o with
  | OConcat => [38] | OAdd => [43] | OSub => [45] | OMul => [42] | ODiv => [47] | OExp => [94]
  | OEq => [61] | ONeq => [33; 61] | OLt => [60] | OLte => [60; 61] | OGt => [62] | OGte => [62; 61]
  end.

(* strings.Join(xs, ", ") *)
Fixpoint join_comma (xs : list text) : text :=
  match xs with
  | [] => []
  | [x] => x
  | x :: r => x ++ [44; 32] ++ join_comma r
  end.

(* isDigits (tree.go): non-empty and every rune in '0'..'9' *)
Definition is_digits (l : text) : bool :=
  match l with
  | [] => false
  | _ => forallb (fun c => (48 <=? c) && (c <=? 57)) l
  end.

(* endsInNumericLookup (tree.go): the printed text ends in a '.' followed by one or more digits (a numeric dot lookup,
   the fraction of a number literal, or a reference that was renamed to a path ending in a number) *)
Definition digit_rune (c : N) : bool := (48 <=? c) && (c <=? 57).

Fixpoint strip_digits (r : text) : text :=
  match r with
  | c :: r' => if digit_rune c then strip_digits r' else r
  | [] => []
  end.

Definition ends_numeric (s : text) : bool :=
  match rev s with
  | c :: r' => digit_rune c && match strip_digits r' with d :: _ => d =? 46 | [] => false end
  | [] => false
  end.

(* the separator DotLookup.String writes before the lookup: " ." when a numeric lookup directly follows text that
   ends in a numeric lookup (foo.1 .2 — printed without the space the two would be read back as one decimal), else "."
   (pc = the printed container) *)
Definition dot_sep (pc : text) (l : text) : text :=
  if is_digits l && ends_numeric pc then [32; 46] else [46].

Section Printer.
Variable lower : N -> N.
Variable printable : N -> bool.

Fixpoint print (e : expr) : text :=
  match e with
  | ECtxRef n => map lower n                                         (* strings.ToLower(x.Name) *)
  | EDot c l => print c ++ dot_sep (print c) l ++ l                  (* "%s.%s", or "%s .%s" after a numeric lookup *)
  | EIndex c l => print c ++ [91] ++ print l ++ [93]                 (* "%s[%s]" *)
  | ECall f ps => print f ++ [40] ++ join_comma (map print ps) ++ [41]   (* "%s(%s)", params joined by ", " *)
  | EAnon args b => [40] ++ join_comma args ++ [41; 32; 61; 62; 32] ++ print b   (* "(%s) => %s" *)
  | EBin o a b => print a ++ [32] ++ op_symbol o ++ [32] ++ print b  (* "%s op %s" *)
  | ENeg a => [45] ++ print a                                        (* "-%s" *)
  | EParen a => [40] ++ print a ++ [41]                              (* "(%s)" *)
  | EText v => quote printable v                                     (* strconv.Quote *)
  | ENum l => num_render l
  | EBool true => [116; 114; 117; 101]
  | EBool false => [102; 97; 108; 115; 101]
  | ENull => [110; 117; 108; 108]
  end.

End Printer.
