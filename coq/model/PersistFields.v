(* PersistFields.v — classification of every member of goflow's in-memory session / run / step structs with respect to
   persistence, checked against the tables that translators/c02fields.py regenerates from the Go source on every run
   (gen/C02Fields.v: struct fields, envelope fields with json keys, envelope fields assigned by MarshalJSON, envelope
   fields used by the reading function).

   Each member is exactly one of
     Persisted key m   written under json key [key] and read back; [m] names the member of Persist.psession / prun /
                       Engine.step that carries it in the model ("" = outside the CFL model, direct oracle only)
     Rebuilt how m     not persisted; rebuilt by the reading function from persisted members and the assets
     PerCall m         not persisted; reset by the reading function and re-derived at the start of the next engine call
                       before anything reads it (c02_context_rederived), or empty at every wait (pushedFlow:
                       EngineInv.post_inv, used by c02_resume_bisim).  parentRun was in this class until goflow f4c75dd;
                       readSession now rebuilds it (c02_reread_keeps_parent)
     Exempt            the two values the property statement exempts (@webhook, @legacy_extra)
     Host              supplied by the caller of ReadSession (engine, session assets) or a back pointer
   No proofs in this file. *)

From Coq Require Import List String Bool.
Import ListNotations.
Open Scope string_scope.

Inductive fclass :=
| Persisted (key : string) (model : string)
| Rebuilt (how : string) (model : string)
| PerCall (model : string)
| Exempt
| Host.

Definition session_classes : list (string * fclass) :=
  [ ("assets", Host);
    ("uuid", Persisted "uuid" "");
    ("type_", Persisted "type" "ps_type");
    ("env", Persisted "environment" "");
    ("trigger", Persisted "trigger" "ps_trigger, ps_trigger_flow, ps_trigger_batch");
    ("currentResume", PerCall "t_resume");
    ("contact", Persisted "contact" "");
    ("runs", Persisted "runs" "ps_runs");
    ("status", Persisted "status" "ps_status");
    ("input", Persisted "input" "ps_input");
    ("batchStart", PerCall "t_batch");
    ("runsByUUID", Rebuilt "filled by addRun for every run read, in order" "lookup_uuid over the runs read so far");
    ("pushedFlow", PerCall "s_pushed");
    ("parentRun", Rebuilt "prepareForSprint in readSession (since goflow f4c75dd), from the run summary in the trigger" "t_parent");
    ("engine", Host) ].

Definition run_classes : list (string * fclass) :=
  [ ("uuid", Persisted "uuid" "pr_uuid");
    ("session", Host);
    ("flow", Rebuilt "looked up in the session assets by the persisted flow reference; nil + missing callback when absent"
                     "Engine.get_flow at every use");
    ("flowRef", Persisted "flow" "pr_flow");
    ("parent", Persisted "parent_uuid" "pr_parent_uuid (pointer rebuilt through session.GetRun: restore_run)");
    ("results", Persisted "results" "pr_results");
    ("path", Persisted "path" "pr_path");
    ("events", Persisted "events" "pr_events");
    ("status", Persisted "status" "pr_status");
    ("createdOn", Persisted "created_on" "");
    ("modifiedOn", Persisted "modified_on" "");
    ("exitedOn", Persisted "exited_on" "pr_exited (as: is not null)");
    ("webhook", Exempt);
    ("legacyExtra", Exempt) ].

Definition step_classes : list (string * fclass) :=
  [ ("stepUUID", Persisted "uuid" "position in the path (Engine.stepref)");
    ("nodeUUID", Persisted "node_uuid" "st_node");
    ("exitUUID", Persisted "exit_uuid" "st_exit");
    ("arrivedOn", Persisted "arrived_on" "") ].

(* envelope keys that exist only for reading old data: declared, never written, never read *)
Definition session_legacy_keys : list string := ["wait"].

(* ---- the check ------------------------------------------------------------------------------------------------- *)

Fixpoint mem (x : string) (l : list string) : bool :=
  match l with [] => false | y :: rest => String.eqb x y || mem x rest end.

Fixpoint list_eqb (a b : list string) : bool :=
  match a, b with
  | [], [] => true
  | x :: a', y :: b' => String.eqb x y && list_eqb a' b'
  | _, _ => false
  end.

Definition keys_of (classes : list (string * fclass)) : list string :=
  flat_map (fun p => match snd p with Persisted k _ => [k] | _ => [] end) classes.

Fixpoint go_field_of (env : list (string * string)) (key : string) : option string :=
  match env with
  | [] => None
  | (gf, k) :: rest => if String.eqb k key then Some gf else go_field_of rest key
  end.

Fixpoint nodup_b (l : list string) : bool :=
  match l with [] => true | x :: rest => negb (mem x rest) && nodup_b rest end.

Record tables := {
  tb_fields : list string;
  tb_envelope : list (string * string);
  tb_written : list string;
  tb_read : list string
}.

Definition kind_ok (t : tables) (classes : list (string * fclass)) (legacy : list string) : bool :=
  (* every struct member is classified, none is stale, in declaration order *)
  list_eqb (map fst classes) (tb_fields t)
  (* every persisted member has an envelope key that MarshalJSON assigns and the reader uses; no key claimed twice *)
  && forallb (fun k => match go_field_of (tb_envelope t) k with
                       | Some gf => mem gf (tb_written t) && mem gf (tb_read t)
                       | None => false
                       end) (keys_of classes)
  && nodup_b (keys_of classes)
  (* every envelope key carries a classified member, or is a legacy key that is neither written nor read *)
  && forallb (fun p => let '(gf, k) := p in
                       if mem k legacy then negb (mem gf (tb_written t)) && negb (mem gf (tb_read t))
                       else mem k (keys_of classes)) (tb_envelope t).

Definition names_with (p : fclass -> bool) (classes : list (string * fclass)) : list string :=
  map fst (filter (fun x => p (snd x)) classes).
Definition is_per_call (c : fclass) : bool := match c with PerCall _ => true | _ => false end.
Definition is_exempt (c : fclass) : bool := match c with Exempt => true | _ => false end.

(* what is reset by a read (Persist.transient's t_batch, t_resume and Engine.s_pushed), and the statement's two exemptions *)
Definition per_call_members : list string := ["currentResume"; "batchStart"; "pushedFlow"].
(* unpersisted members the reader rebuilds from persisted ones *)
Definition rebuilt_session_members : list string := ["runsByUUID"; "parentRun"].
Definition is_rebuilt (c : fclass) : bool := match c with Rebuilt _ _ => true | _ => false end.
Definition exempt_members : list string := ["webhook"; "legacyExtra"].
