(* C13Corr.v — comparison of the C13 models (NumText.v, JsonText.v, DateText.v) with observations of the real
   code written by harness/cmd/c13.  No proofs. *)
From Coq Require Import ZArith NArith List Bool.
From Verif Require Import lib.Dec lib.Json model.NumText model.Civil model.DateText model.JsonText.
Import ListNotations.

Definition dec_same (a b : dec) : bool := ((mant a =? mant b) && (dexp a =? dexp b))%Z.

Definition opt_dec_same (a : option dec) (b : option (Z * Z)) : bool :=
  match a, b with
  | None, None => true
  | Some d, Some (m, e) => dec_same d (Dec m e)
  | _, _ => false
  end.

Inductive ncase :=
  (* XNumber(m*10^e): ToXText gave txt; ToXNumber(txt) gave back (coefficient, exponent) or failed *)
| KNum (m e : Z) (txt : text) (back : option (Z * Z))
  (* ToXNumber on an arbitrary text *)
| KNumParse (s : text) (r : option (Z * Z))
  (* operators.Equal on two numbers, and Decimal.Equal on them *)
| KNumEq (m1 e1 m2 e2 : Z) (op_equal : bool) (dec_equal : bool)
  (* decimal.NewFromString on a number literal (exponent notation included) *)
| KNumNew (s : text) (r : option (Z * Z))
  (* operators.Equal on a number and a text *)
| KNumTextEq (m e : Z) (s : text) (op_equal : bool)
  (* ToXText of the number is an error value (render size) *)
| KNumTextErr (m e : Z)
  (* operators.Equal on two numbers is an error value (render size of an operand) *)
| KNumEqErr (m1 e1 m2 e2 : Z)
  (* types.MaxRenderSize as the driver reads it from the code *)
| KRenderLimit (n : Z)
  (* XNumber.MarshalJSON gave js; XNumber.UnmarshalJSON of it gave back *)
| KNumStored (m e : Z) (js : text) (back : option (Z * Z))
  (* XNumber.UnmarshalJSON on a valid JSON number token (the driver filters: encoding/json refuses "+1" or ".5" before
     the conversion sees them); the coefficient is compared modulo 1000000007 (a numeral of thousands of digits in a
     cases file costs more to read than the case costs to evaluate) *)
| KNumUnmarshalBig (s : text) (r : option (Z * Z)).

Definition ncheck (k : ncase) : bool :=
  match k with
  | KNum m e txt back =>
      match to_text_num (Dec m e) with
      | Some t => text_eqb t txt && opt_dec_same (parse_number txt) back
      | None => false
      end
  | KNumParse s r => opt_dec_same (parse_number s) r
  | KNumEq m1 e1 m2 e2 o d =>
      match equal_op_num (Dec m1 e1) (Dec m2 e2) with
      | Some r => Bool.eqb r o && Bool.eqb (dec_eqb (Dec m1 e1) (Dec m2 e2)) d
      | None => false
      end
  | KNumNew s r => opt_dec_same (new_from_string s) r
  | KNumTextEq m e s o => match equal_op_num_text (Dec m e) s with Some r => Bool.eqb r o | None => false end
  | KNumTextErr m e => match to_text_num (Dec m e) with None => true | Some _ => false end
  | KNumEqErr m1 e1 m2 e2 => match equal_op_num (Dec m1 e1) (Dec m2 e2) with None => true | Some _ => false end
  | KRenderLimit n => (max_render_size_num =? n)%Z && (JsonText.max_render_size =? n)%Z
  | KNumStored m e js back => text_eqb (num_marshal (Dec m e)) js && opt_dec_same (num_unmarshal js) back
  | KNumUnmarshalBig s r =>
      match num_unmarshal s, r with
      | None, None => true
      | Some d, Some (m, e) => ((mant d mod 1000000007 =? m) && (dexp d =? e))%Z
      | _, _ => false
      end
  end.

Fixpoint mismatches_from {A} (chk : A -> bool) (i : N) (ks : list A) : list N :=
  match ks with
  | [] => []
  | k :: rest => (if chk k then [] else [i]) ++ mismatches_from chk (i + 1)%N rest
  end.

Definition nmismatches (ks : list ncase) : list N := mismatches_from ncheck 0%N ks.

(* ------------------------------------------------------------------------------------------------ *)
(* datetimes, dates, times *)

(* a zone as sampled from tzdata: periods (start, end, offset), unix seconds, end exclusive *)
Definition ztable := list (Z * Z * Z).

Fixpoint offset_of (tbl : ztable) (x : Z) : Z :=
  match tbl with
  | [] => 777777%Z      (* outside the sampled periods: a value no zone has, so that a consultation shows up *)
  | (s, e, o) :: rest => if ((s <=? x) && (x <? e))%Z then o else offset_of rest x
  end.

(* end of the zone period an instant lies in (Time.ZoneBounds); the far-future bound stands for "no end" *)
Fixpoint zend_of (tbl : ztable) (x : Z) : option Z :=
  match tbl with
  | [] => None
  | (s, e, o) :: rest => if ((s <=? x) && (x <? e))%Z then (if (e =? 1152921504606846976)%Z then None else Some e)
                         else zend_of rest x
  end.

Definition opt_Z_same (a b : option Z) : bool :=
  match a, b with None, None => true | Some x, Some y => (x =? y)%Z | _, _ => false end.

Definition opt_date_same (a : option date) (b : option (Z * Z * Z)) : bool :=
  match a, b with
  | None, None => true
  | Some (y, m, d), Some (y', m', d') => ((y =? y') && (m =? m') && (d =? d'))%Z
  | _, _ => false
  end.

Definition opt_tod_same (a : option tod) (b : option (Z * Z * Z * Z)) : bool :=
  match a, b with
  | None, None => true
  | Some t, Some (h, mi, s, ns) => ((t_hour t =? h) && (t_min t =? mi) && (t_sec t =? s) && (t_ns t =? ns))%Z
  | _, _ => false
  end.

Inductive dcase :=
  (* instant t (ns) held in a value whose zone is vz; environment e with zone ez: Render gave iso_txt, ToXDateTime of
     it gave iso_back; Format(env) gave fmt_txt, ToXDateTime of it gave fmt_back *)
| KDt (vz ez : ztable) (e : env) (t : Z) (iso_txt : text) (iso_back : option Z) (fmt_txt : text) (fmt_back : option Z)
  (* ToXDateTime on an arbitrary text *)
| KDtParse (ez : ztable) (e : env) (s : text) (r : option Z)
| KDate (e : env) (y m d : Z) (rtxt ftxt : text) (rback fback : option (Z * Z * Z))
| KDateParse (e : env) (s : text) (r : option (Z * Z * Z))
| KTime (e : env) (h mi s ns : Z) (rtxt ftxt : text) (rback fback : option (Z * Z * Z * Z))
| KTimeParse (s : text) (r : option (Z * Z * Z * Z))
  (* FieldValues.Parse on a raw text: has a value at all, its number, its datetime (fill = current time of day) *)
| KField (ez : ztable) (e : env) (fh fm fs fns : Z) (raw : text) (r : option (option (Z * Z) * option Z)).

Definition dcheck (k : dcase) : bool :=
  match k with
  | KDt vz ez e t iso_txt iso_back fmt_txt fmt_back =>
      text_eqb (iso (offset_of vz) t) iso_txt
      && opt_Z_same (datetime_from_string (offset_of ez) (zend_of ez) e iso_txt) iso_back
      && text_eqb (format_datetime (offset_of ez) e t) fmt_txt
      && opt_Z_same (datetime_from_string (offset_of ez) (zend_of ez) e fmt_txt) fmt_back
  | KDtParse ez e s r => opt_Z_same (datetime_from_string (offset_of ez) (zend_of ez) e s) r
  | KDate e y m d rtxt ftxt rback fback =>
      text_eqb (render_date (y, m, d)) rtxt && text_eqb (format_date e (y, m, d)) ftxt
      && opt_date_same (date_from_string e rtxt) rback && opt_date_same (date_from_string e ftxt) fback
  | KDateParse e s r => opt_date_same (date_from_string e s) r
  | KTime e h mi s ns rtxt ftxt rback fback =>
      text_eqb (render_time (Tod h mi s ns)) rtxt && text_eqb (format_time e (Tod h mi s ns)) ftxt
      && opt_tod_same (time_from_string rtxt) rback && opt_tod_same (time_from_string ftxt) fback
  | KTimeParse s r => opt_tod_same (time_from_string s) r
  | KField ez e fh fm fs fns raw r =>
      match field_parse (Tod fh fm fs fns) (offset_of ez) (zend_of ez) e raw, r with
      | None, None => true
      | Some (n, d), Some (n', d') => opt_dec_same n n' && opt_Z_same d d'
      | _, _ => false
      end
  end.

Definition dmismatches (ks : list dcase) : list N := mismatches_from dcheck 0%N ks.

(* ------------------------------------------------------------------------------------------------ *)
(* JSON: the tree of the input document, and the tree of what json(parse_json(doc)) wrote (None = error value) *)

(* [dc]: the charge per nesting level of the render size, as measured on the code by the driver *)
Inductive jcase := KJson (dc : Z) (doc : json) (out : option json).

Definition jcheck (k : jcase) : bool :=
  match k with
  | KJson dc doc out =>
      match json_roundtrip dc doc, out with
      | Some a, Some b => json_eqb a b
      | None, None => true
      | _, _ => false
      end
  end.

Definition jmismatches (ks : list jcase) : list N := mismatches_from jcheck 0%N ks.
