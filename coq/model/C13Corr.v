(* C13Corr.v — comparison of the C13 models (NumText.v, JsonText.v, DateText.v) with observations of the real
   code written by harness/cmd/c13.  No proofs. *)
From Coq Require Import ZArith NArith List Bool.
From Verif Require Import lib.Dec model.NumText.
Import ListNotations.

Definition dec_same (a b : dec) : bool := ((mant a =? mant b) && (dexp a =? dexp b))%Z.

Definition opt_dec_same (a : option dec) (b : option (Z * Z)) : bool :=
  match a, b with
  | None, None => true
  | Some d, Some (m, e) => dec_same d (Dec m e)
  | _, _ => false
  end.

Inductive ncase :=
  (* XNumber(m*10^e): ToXText gave txt; ToXNumber(txt) gave back (coefficient, exponent) or failed *)
| KNum (m e : Z) (txt : text) (back : option (Z * Z))
  (* ToXNumber on an arbitrary text *)
| KNumParse (s : text) (r : option (Z * Z))
  (* operators.Equal on two numbers, and Decimal.Equal on them *)
| KNumEq (m1 e1 m2 e2 : Z) (op_equal : bool) (dec_equal : bool).

Definition ncheck (k : ncase) : bool :=
  match k with
  | KNum m e txt back => text_eqb (render (Dec m e)) txt && opt_dec_same (parse_number txt) back
  | KNumParse s r => opt_dec_same (parse_number s) r
  | KNumEq m1 e1 m2 e2 o d =>
      Bool.eqb (equal_num (Dec m1 e1) (Dec m2 e2)) o && Bool.eqb (dec_eqb (Dec m1 e1) (Dec m2 e2)) d
  end.

Fixpoint mismatches_from {A} (chk : A -> bool) (i : N) (ks : list A) : list N :=
  match ks with
  | [] => []
  | k :: rest => (if chk k then [] else [i]) ++ mismatches_from chk (i + 1)%N rest
  end.

Definition nmismatches (ks : list ncase) : list N := mismatches_from ncheck 0%N ks.
