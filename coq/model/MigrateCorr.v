(* MigrateCorr.v -- comparison of model/Migrate.v with observations of the real migrations.MigrateToVersion /
   definition.ReadFlow (written by harness/cmd/c16).  No proofs. *)
From Coq Require Import List NArith ZArith Bool String.
From Verif Require Import lib.Json model.Migrate model.MigrateValid.
Import ListNotations.
Open Scope N_scope.

(* one call of MigrateToVersion *)
Record mcase := {
  mc_in : json;                      (* the definition handed in, decoded *)
  mc_to : option version;            (* target version (None: MigrateToLatest) *)
  mc_fresh : list str;               (* the UUIDs the implementation drew during the call, in order *)
  mc_rename : list (str * str);      (* refactor.Template on every text of the definition it changes *)
  mc_out : option json;              (* what the implementation returned (None: an error) *)
  mc_valid_src : bool;               (* the generator built the input as valid at its version *)
  mc_reads : option bool             (* definition.ReadFlow on the output succeeded (when the target is the current version) *)
}.

Fixpoint rename_lookup (t : list (str * str)) (x : str) : str :=
  match t with
  | [] => x
  | (k, v) :: r => if str_eqb k x then v else rename_lookup r x
  end.

Definition check (c : mcase) : bool :=
  let '(r, rest) := migrate_to (rename_lookup (mc_rename c)) (mc_in c) (mc_to c) (mc_fresh c) in
  (* same result; every drawn UUID accounted for *)
  (match r, mc_out c with
   | MSame, Some out => json_sim (mc_in c) out
   | MOut j, Some out => json_sim j out
   | MNoHeader, None => true
   | _, _ => false
   end)
  && (match rest with [] => true | _ => false end)
  (* the source is valid at its version in the model's sense too *)
  && (negb (mc_valid_src c) || valid_source_full false (mc_in c))
  (* the model's restatement of the reader's checks agrees with the reader on the output *)
  && (match mc_reads c, mc_out c with
      | Some b, Some out => Bool.eqb (valid_current_full out) b
      | _, _ => true
      end)
  (* the hypothesis of c16_valid_after_partial on the refactoring function holds of refactor.Template on every text
     of this definition it changes (on the others it is the identity) *)
  && forallb (fun kv : str * str => tx_keeps_on (rename_lookup (mc_rename c)) (fst kv)) (mc_rename c).

Fixpoint mismatches_from {A : Type} (chk : A -> bool) (i : N) (ks : list A) : list N :=
  match ks with
  | [] => []
  | k :: rest => (if chk k then [] else [i]) ++ mismatches_from chk (i + 1) rest
  end.

(* one read of a (possibly damaged) current definition: the reader's verdict against valid_current *)
Record rcase := {
  rc_in : json;
  rc_reads : bool
}.

Definition check_read (c : rcase) : bool := Bool.eqb (valid_current_full (rc_in c)) (rc_reads c).

(* a legacy definition and the graph of what the implementation made of it *)
Record lcase := {
  lc_in : json;
  lc_out : option (str * list (str * list (str * str)))   (* flow uuid, nodes with (exit, destination) *)
}.

Definition check_legacy (c : lcase) : bool :=
  match lc_out c with
  | Some (u, g) => legacy_graph_ok (lc_in c) u g
  | None => true
  end.

Class CaseKind (A : Type) := case_check : A -> bool.
#[export] Instance mcase_kind : CaseKind mcase := check.
#[export] Instance rcase_kind : CaseKind rcase := check_read.
#[export] Instance lcase_kind : CaseKind lcase := check_legacy.

Definition mismatches {A : Type} `{CaseKind A} (ks : list A) : list N := mismatches_from case_check 0 ks.
