(* Groups.v — a small executable fragment of contact queries, used to instantiate [matches] of
   Modifiers.menv in the correspondence run (the theorems are proved for every [matches]; query evaluation
   itself is property C15's subject).

   The fragment mirrors /repo/contactql/evaluator.go (evaluateCondition's existence checks, textComparison's
   lower-casing and trimming, bool combinations) over /repo/flows/contact.go QueryProperty and
   flows/field.go QueryValue, for conditions whose value needs no number/date parsing:
     name = "x" | name != "" | language = "x" | language != "" | <scheme> != "" | <scheme> = ""
     | last_seen_on != "" | last_seen_on = "" | last_seen_on <comparison> <date> | tickets > 0 | tickets = 0
     | <text field> = "x" | <field> != "" | <field> = "" | AND | OR
   ([QLastSeenCmp k]: the k-th date comparison the harness knows; whether an instant satisfies it is a table filled from
   the real evaluator per instant, so that a group over it can be evaluated on every contact state of a sprint)
   plus [QConst b] for queries outside the fragment, whose result on the one contact they are evaluated on
   is taken from the real evaluator (only used where a case evaluates each group on a single contact).

   Lower-casing is ASCII only and trimming removes spaces only; the generators keep to such names.
   No proofs in this file. *)
From Coq Require Import List NArith Bool.
From Verif Require Import model.Contact model.Modifiers.
Import ListNotations.
Open Scope N_scope.

Inductive query :=
| QNameIs (t : text) | QNameSet
| QLangIs (l : N) | QLangSet
| QHasScheme (s : N) | QNoScheme (s : N)
| QLastSeenSet | QLastSeenUnset | QLastSeenCmp (k : N)
| QHasTicket | QNoTicket
| QFieldTextIs (f : N) (t : text)
| QFieldSet (f : N) | QFieldUnset (f : N)
| QAnd (a b : query) | QOr (a b : query)
| QConst (b : bool).

Definition lower1 (n : N) : N := if (65 <=? n) && (n <=? 90) then n + 32 else n.

Fixpoint drop_spaces (s : text) : text :=
  match s with
  | 32 :: rest => drop_spaces rest
  | _ => s
  end.

Definition trim (s : text) : text := rev (drop_spaces (rev (drop_spaces s))).

Definition fold_text (s : text) : text := trim (map lower1 s).

(* FieldValue.QueryValue != nil, by field type *)
Definition field_has_query_value (ft : ftype) (v : option fvalue) : bool :=
  match v with
  | None => false
  | Some x => match ft with
              | FText => true
              | FNumber => match v_num x with Some _ => true | None => false end
              | FDatetime => match v_dt x with Some _ => true | None => false end
              | FState => negb (text_eqb (v_state x) [])
              | FDistrict => negb (text_eqb (v_district x) [])
              | FWard => negb (text_eqb (v_ward x) [])
              end
  end.

Fixpoint qeval (scheme_of : N -> N) (ftypes : list ftype) (seen_cmp : N -> N -> bool) (q : query) (c : contact) : bool :=
  match q with
  | QNameIs t => match c_name c with [] => false | n => text_eqb (fold_text n) (fold_text t) end
  | QNameSet => negb (text_eqb (c_name c) [])
  | QLangIs l => N.eqb (c_lang c) l && negb (N.eqb l 0)
  | QLangSet => negb (N.eqb (c_lang c) 0)
  | QHasScheme s => existsb (fun u => N.eqb (scheme_of (cu_urn u)) s) (c_urns c)
  | QNoScheme s => negb (existsb (fun u => N.eqb (scheme_of (cu_urn u)) s) (c_urns c))
  | QLastSeenSet => match c_last_seen c with Some _ => true | None => false end
  | QLastSeenUnset => match c_last_seen c with Some _ => false | None => true end
  | QLastSeenCmp k => match c_last_seen c with Some t => seen_cmp k t | None => false end
  | QHasTicket => match c_ticket c with Some _ => true | None => false end
  | QNoTicket => match c_ticket c with Some _ => false | None => true end
  | QFieldTextIs f t => match fget f (c_fields c) with
                        | None => false
                        | Some v => text_eqb (fold_text (v_text v)) (fold_text t)
                        end
  | QFieldSet f => field_has_query_value (nth (N.to_nat f) ftypes FText) (fget f (c_fields c))
  | QFieldUnset f => negb (field_has_query_value (nth (N.to_nat f) ftypes FText) (fget f (c_fields c)))
  | QAnd a b => qeval scheme_of ftypes seen_cmp a c && qeval scheme_of ftypes seen_cmp b c
  | QOr a b => qeval scheme_of ftypes seen_cmp a c || qeval scheme_of ftypes seen_cmp b c
  | QConst b => b
  end.

(* The declared fragment as a checked predicate: outside it [qeval] returns a plausible boolean that need not be the
   real evaluator's answer (`language = ""` / `name = ""` are existence checks there; an unknown field key is an
   error).  Every case of the correspondence run asserts [in_fragment] of every group query (ModifiersCorr.v), so a
   generator change cannot silently leave the fragment.  No theorem depends on this file. *)
Fixpoint in_fragment (ftypes : list ftype) (q : query) : bool :=
  match q with
  | QNameIs t => negb (text_eqb (fold_text t) [])
  | QLangIs l => negb (N.eqb l 0)
  | QFieldTextIs f t => Nat.ltb (N.to_nat f) (length ftypes) && ftype_eqb (nth (N.to_nat f) ftypes FNumber) FText
                        && negb (text_eqb (fold_text t) [])
  | QFieldSet f | QFieldUnset f => Nat.ltb (N.to_nat f) (length ftypes)
  | QAnd a b | QOr a b => in_fragment ftypes a && in_fragment ftypes b
  | _ => true
  end.
