(* ExLambdaCorr.v — comparison of model/ExLambda.v with the real evaluator on expressions built from integer
   literals, +, variables, anonymous functions and application (harness/cmd/c04/lambdagen.go parses and evaluates the
   same tree, printed as Excellent source, through excellent.Parse + Evaluate). *)
From Coq Require Import ZArith NArith List Bool.
From Verif Require Import model.ExLambda.
Import ListNotations.

Inductive limpl :=
| LINum (z : Z)          (* a whole number *)
| LIErr                  (* an error value (unknown name, not a function, wrong arity, a limit reached, + on a function) *)
| LIFn                   (* a function value *)
| LIPanic.               (* panic, or the worker died / hung *)

Record lcase := LCase { lc_e : lexpr; lc_impl : limpl }.

Definition lfuel (e : lexpr) : nat := (max_anon_function_depth + 2) * (height e + 2).

Definition lrun (e : lexpr) : lres := fst (leval_limited (lfuel e) lstate0 ENil e).

Definition lcheck (c : lcase) : bool :=
  match lrun (lc_e c), lc_impl c with
  | LRet (LVNum z), LINum z' => Z.eqb z z'
  | LRet LVErr, LIErr => true
  | LRet (LVClo _ _ _), LIFn => true
  | _, _ => false
  end.

Fixpoint lmismatches_from (i : N) (cs : list lcase) : list N :=
  match cs with
  | [] => []
  | c :: r => if lcheck c then lmismatches_from (i + 1) r else i :: lmismatches_from (i + 1) r
  end.

Definition lmismatches (cs : list lcase) : list N := lmismatches_from 0 cs.
