(* LangCorr.v — comparison of model/Lang.v with observations of the real engine (written by
   harness/cmd/c18).  No proofs. *)
From Coq Require Import List NArith Bool.
From Verif Require Import model.Lang.
Import ListNotations.
Open Scope N_scope.

Record lcase := {
  k_clang : lang; k_allowed : list lang;
  k_text : text; k_atts : list text; k_qrs : list text; k_args : list text;
  k_tr_text : translations; k_tr_atts : translations; k_tr_qrs : translations;
  k_tr_args : translations; k_tr_name : translations; k_tr_cat : translations;
  (* observed on the implementation *)
  k_o_text : text; k_o_atts : list text; k_o_qrs : list text; k_o_lang : lang;
  k_o_setres : text; k_o_matched : bool; k_o_catl : text;
  (* send_broadcast: languages the localization has entries for (sorted, as the code ranges them) and the
     translations of the broadcast_created event sorted by language: (language, text, attachments, quick replies) *)
  k_loc_langs : list lang;
  k_o_bcast : list (lang * (text * (list text * list text)));
  (* send_email (same flow), say_msg and play_audio (a voice flow run for the same contact and environment):
     base values, translations, and what was observed (None = the action was skipped with an error event) *)
  k_audio : text;                                   (* say_msg's base audio URL ("" = none) *)
  k_play : text;                                    (* play_audio's base audio URL *)
  k_tr_subject : translations; k_tr_body : translations;
  k_tr_say_text : translations; k_tr_say_audio : translations; k_tr_play_audio : translations;
  (* every non-empty text of the message evaluates to "" (the harness uses an expression reading an unset field) *)
  k_eval_empty : bool;
  k_say_blank : bool;                               (* say_msg's texts evaluate to a blank: spoken text (trimmed) is empty *)
  (* templated send_msg (a flow of its own): base template variables, their translations, the values observed in the
     message's templating (the template translation has 2 variables) *)
  k_tvars : list text; k_tr_tvars : translations; k_o_tvars : list text;
  (* BroadcastTranslations.ForContact for a recipient of each language 0..4: content and language of the locale *)
  k_o_forc : list (lang * (text * (list text * list text)));
  k_o_forc_lang : list lang;
  k_o_email : option (text * text);
  k_o_say : option (text * (text * lang));
  k_o_play : option (text * (text * lang))
}.

Fixpoint texts_eqb (a b : list text) : bool :=
  match a, b with
  | [], [] => true
  | x :: a', y :: b' => text_eqb x y && texts_eqb a' b'
  | _, _ => false
  end.

(* the event's map view of the translations: one entry per language (the last one written), sorted by language *)
Fixpoint bc_insert (e : lang * msg_out) (l : list (lang * msg_out)) : list (lang * msg_out) :=
  match l with
  | [] => [e]
  | x :: rest => if N.eqb (fst e) (fst x) then e :: rest
                 else if N.ltb (fst e) (fst x) then e :: x :: rest else x :: bc_insert e rest
  end.
Definition bcast_view (bc : list (lang * msg_out)) : list (lang * (text * (list text * list text))) :=
  map (fun e => (fst e, (o_text (snd e), (o_atts (snd e), o_qrs (snd e)))))
      (fold_left (fun acc e => bc_insert e acc) bc []).
Fixpoint bcast_eqb (a b : list (lang * (text * (list text * list text)))) : bool :=
  match a, b with
  | [], [] => true
  | (l, (t, (at_, qr))) :: a', (l', (t', (at', qr'))) :: b' =>
      N.eqb l l' && text_eqb t t' && texts_eqb at_ at' && texts_eqb qr qr' && bcast_eqb a' b'
  | _, _ => false
  end.

Definition ivr_view (o : option ivr_out) : option (text * (text * lang)) :=
  match o with None => None | Some i => Some (i_text i, (i_audio i, i_lang i)) end.
Definition ivr_eqb (a b : option (text * (text * lang))) : bool :=
  match a, b with
  | None, None => true
  | Some (t, (u, l)), Some (t', (u', l')) => text_eqb t t' && text_eqb u u' && N.eqb l l'
  | _, _ => false
  end.
Definition email_eqb (a b : option (text * text)) : bool :=
  match a, b with
  | None, None => true
  | Some (s, b0), Some (s', b') => text_eqb s s' && text_eqb b0 b'
  | _, _ => false
  end.

Fixpoint langs_eqb (a b : list lang) : bool :=
  match a, b with
  | [], [] => true
  | x :: a', y :: b' => N.eqb x y && langs_eqb a' b'
  | _, _ => false
  end.

(* the attachment rule of say_msg / play_audio: "audio:" ++ url must not be longer than flows.MaxAttachmentLength
   (2048) bytes; the harness's URLs are ASCII, so bytes = characters *)
Definition keep_audio (a : text) : text := if Nat.ltb 2042 (length a) then [] else a.

(* what evaluateMessage leaves of a chosen list: the harness's only unsendable values are "attachments" beginning
   with "nope" (not of the form type:url) and the quick reply "@fields.caption" (evaluates to "") *)
Definition nope : text := [110; 111; 112; 101].
Definition empty_expr : text := [64; 102; 105; 101; 108; 100; 115; 46; 99; 97; 112; 116; 105; 111; 110].
Definition keep_atts (l : list text) : list text := filter (fun a => negb (text_eqb (firstn 4 a) nope)) l.
Definition keep_qrs (l : list text) : list text := filter (fun q => negb (text_eqb q empty_expr)) l.

Definition base_lang : lang := 1.
(* the fixed base values of the harness's flows: "subj", "body", "say", "http://x.io/play.mp3" *)
Definition subj : text := [115; 117; 98; 106].
Definition body : text := [98; 111; 100; 121].
Definition say : text := [115; 97; 121].
Definition play_url : text :=
  [104; 116; 116; 112; 58; 47; 47; 120; 46; 105; 111; 47; 112; 108; 97; 121; 46; 109; 112; 51].
Definition range_1_10 : list text := [[49]; [49; 48]].
Definition cat : text := [67; 97; 116].

Definition check (k : lcase) : bool :=
  let m := {| m_text := k_text k; m_atts := k_atts k; m_qrs := k_qrs k;
              tr_text := k_tr_text k; tr_atts := k_tr_atts k; tr_qrs := k_tr_qrs k |} in
  let ev_text := if k_eval_empty k then (fun _ : text => @nil N) else (fun t : text => t) in
  let o := evaluate_message_gen ev_text keep_atts keep_qrs (k_clang k) (k_allowed k) base_lang m in
  let args := case_arguments (k_clang k) (k_allowed k) base_lang (k_args k) (k_tr_args k) in
  let matched := texts_eqb args range_1_10 in
  let catl := category_localized (k_clang k) (k_allowed k) base_lang (k_tr_name k) in
  (* set_run_result: localized category, blanked when equal to the base category *)
  let sr := set_run_result_category_localized (k_clang k) (k_allowed k) base_lang cat (k_tr_cat k) in
  (* send_broadcast: the last content written per language, in language order *)
  let bc := broadcast_translations_gen ev_text keep_atts keep_qrs base_lang (k_loc_langs k) m in
  let recipients := [0; 1; 2; 3; 4] in
  let forc := map (fun rl => for_contact rl (k_allowed k) base_lang bc) recipients in
  text_eqb (o_text o) (k_o_text k) && texts_eqb (o_atts o) (k_o_atts k)
  && texts_eqb (o_qrs o) (k_o_qrs k) && N.eqb (o_lang o) (k_o_lang k)
  && text_eqb sr (k_o_setres k) && Bool.eqb matched (k_o_matched k)
  && (negb matched || text_eqb catl (k_o_catl k))
  && bcast_eqb (bcast_view bc) (k_o_bcast k)
  && texts_eqb (template_variables (k_clang k) (k_allowed k) base_lang 2 (k_tvars k) (k_tr_tvars k)) (k_o_tvars k)
  && bcast_eqb (combine recipients (map (fun o => (o_text o, (o_atts o, o_qrs o))) forc)) (k_o_forc k)
  && langs_eqb (map o_lang forc) (k_o_forc_lang k)
  && email_eqb (send_email_texts (k_clang k) (k_allowed k) base_lang subj body (k_tr_subject k) (k_tr_body k))
               (k_o_email k)
  && ivr_eqb (ivr_view (say_msg_out_gen (if k_say_blank k then (fun _ : text => @nil N) else ev_text) keep_audio (k_clang k) (k_allowed k) base_lang say (k_audio k)
                                    (k_tr_say_text k) (k_tr_say_audio k))) (k_o_say k)
  && ivr_eqb (ivr_view (play_audio_out_gen (fun t => t) keep_audio (k_clang k) (k_allowed k) base_lang (k_play k) (k_tr_play_audio k)))
             (k_o_play k).

(* indices of the cases on which model and implementation differ *)
Fixpoint mismatches_from (i : N) (ks : list lcase) : list N :=
  match ks with
  | [] => []
  | k :: rest => (if check k then [] else [i]) ++ mismatches_from (i + 1) rest
  end.

Definition mismatches (ks : list lcase) : list N := mismatches_from 0 ks.
