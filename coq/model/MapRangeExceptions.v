(* MapRangeExceptions.v -- property C08: the committed exception table for gen/MapRangeSites.v.
   A site listed here has a shape descriptor that `shape_safe` (model/MapOrder.v) does not accept; it was reviewed
   and is accepted for the reason given, for EXACTLY the descriptor recorded here: an edit that adds another kind of
   effect to the loop changes the descriptor, the entry no longer matches, and the obligation
   `c08_sites_classified` re-opens.  proofs/MapOrderSites.v proves the statement attached to every reason
   (`reason_statement`).  Review notes (file:line of the goflow tree the entry was written against):

   excellent/functions init, flows/routers/cases init   builtin.go:145, tests.go:71
        `for name, fn := range builtin { RegisterXFunction(name, fn) }`: RegisterX* stores under the given name.
   excellent/types XObject.Get            object.go:166   keeps the smallest matching name (fix c2f4026).
   excellent/types spendSize              base.go:203     (fix 1fba51e) takes len(name) + size(value) >= 0 off *budget for every property
        and returns false as soon as the budget is overdrawn, `*budget >= 0` at the end: whether the budget lasts and what is
        left when it does are functions of the SUM; after `false` no caller reads the budget (CheckRenderSize, CheckFormatSize,
        ForEach, ForEachValue all return an error).  The nested call is the cost of the value (same walk, by induction).
   excellent/types XObject.initialize     object.go:248   `if p == "__default__" { x.def = v } else { x.props[p] = v }`.
   flows Contact.MarshalJSON              contact.go:677  `ce.Fields[v.field.Key()] = v.Value`; FieldValues.Set stores
        every value under its field's key, so v.field.Key() is the loop key.
   (flows/actions CallWebhookAction.Validate and luis Entities.UnmarshalJSON were listed here with reason RErrPresence until the
    review showed that the error TEXT named whichever offending key came first and reaches engine output; fixed in goflow as
    f501005: both now visit sorted keys and need no exception.)
   flows Results.Context                  results.go:149   `entries[k] = Context(env, v)`: flows.Context dispatches v.Context(env) through an
        interface, which the call summary over-approximates by every Context method of the module; for *Result the method builds
        an object from the result's own fields.
   flows FieldValues.Context              field.go:284    `v.ToXValue(env)` may consult env.LocationResolver() (supplied by the embedder: unknown to
        the summary); it reads the value and the environment only.  types.Render is pure.
   flows/definition/legacy addTranslationMap / MultiMap  also call expressions.MigrateTemplate (ANTLR parser, outside the module): a function
        of its text argument (that is C17's subject).
   (flows/definition flowAssets.FindByName was listed here with reason RFirstMatchUnique under the ASSUMPTION that flow names are
    unique up to case; the bug hunt supplied two flows named "Registration" / "registration": what the name resolved to followed
    map order and what other sessions had loaded.  Fixed in goflow as 968ef02: the source resolves the name; the loop is gone.)
   flows/definition languageTranslation.Enumerate  localization.go:61,62   unexported type, no caller.
   flows/definition/legacy TransformTranslations  utils.go:63   every iteration only touches transformed[language].
   flows/definition/legacy addTranslationMap / addTranslationMultiMap  v13.go:99,113
        `if language == baseLanguage { inBase = .. } else { l.addTranslation(language, ..) }`.
   flows/definition/migrations Migrate13_5  13_x.go:126   per language: translation of that language only.
   flows/definition/migrations migrate     base.go:81   collected versions, sort.SliceStable by LessThan; the early
        `return data, nil` between loop and sort does not return the slice (descriptor [EAppend SortNone]); the same loop
        with the sort recognised, e.g. after the collection moved into a helper that sorts before it returns, has
        descriptor [EAppend SortBy]: both are listed, the reason (sort key injective on the registered versions) is the same.
   services/webhooks service.Call          service.go:41   default headers from the engine configuration.
   utils/jsonpath visit                    path.go:101   `k == selector || selector == "*"`, typed[k] = tx(..). *)
From Coq Require Import List String.
From Verif Require Import model.MapOrder.
Import ListNotations.
Open Scope string_scope.

Definition x (pkg func : string) (ord : nat) (maptype : string) (effs : list effect) (r : reason) : exception_entry :=
  {| x_pkg := pkg; x_func := func; x_ord := ord; x_maptype := maptype; x_effects := effs; x_reason := r |}.

Definition map_range_exceptions : list exception_entry := [
  x "excellent/functions" "init" 0 "map[string]excellent/types.XFunc" [ECallStmt] RRegistration;
  x "flows/routers/cases" "init" 0 "map[string]excellent/types.XFunc" [ECallStmt] RRegistration;
  x "excellent/types" "spendSize" 0 "map[string]excellent/types.XValue" [EAccumInt; ECallImpure; ELoopCarried; EReturnConst] RMonotoneBudget;
  x "excellent/types" "XObject.Get" 0 "map[string]excellent/types.XValue" [EAssignOuter; EFlagSet; ELoopCarried] RMinMatch;
  x "excellent/types" "XObject.initialize" 0 "map[string]excellent/types.XValue" [EAssignOuter; EMapWriteKey] RKeyGuardedAssign;
  x "flows" "Contact.MarshalJSON" 0 "flows.FieldValues" [EMapWriteOther] RValueKeyedByOwnKey;
  x "flows/definition" "languageTranslation.Enumerate" 0 "flows/definition.languageTranslation" [ECallback; ENestedMapRange] RNoCaller;
  x "flows/definition" "languageTranslation.Enumerate" 1 "flows/definition.itemTranslation" [ECallback] RNoCaller;
  x "flows/definition/legacy" "TransformTranslations" 0 "flows/definition/legacy.Translations" [EAssignOuter; EMapWriteKey] RKeyPartitioned;
  x "flows/definition/legacy" "migratedLocalization.addTranslationMap" 0 "flows/definition/legacy.Translations" [EAssignOuter; ECallImpure; ECallStmt] RKeyGuardedAssign;
  x "flows/definition/legacy" "migratedLocalization.addTranslationMultiMap" 0 "map[gocommon/i18n.Language][]string" [EAssignOuter; ECallImpure; ECallStmt] RKeyGuardedAssign;
  x "flows" "Results.Context" 0 "flows.Results" [ECallImpure; EMapWriteKey] RPureCalleeReviewed;
  x "flows" "FieldValues.Context" 0 "flows.FieldValues" [EAppend SortTotal; ECallImpure; EMapWriteKey] RPureCalleeReviewed;
  x "flows/definition/migrations" "Migrate13_5" 0 "map[gocommon/i18n.Language][]string" [ECallStmt] RKeyPartitioned;
  x "flows/definition/migrations" "migrate" 0 "map[*github.com/Masterminds/semver.Version]flows/definition/migrations.MigrationFunc" [EAppend SortNone] RStableSortInjective;
  x "flows/definition/migrations" "migrate" 0 "map[*github.com/Masterminds/semver.Version]flows/definition/migrations.MigrationFunc" [EAppend SortBy] RStableSortInjective;
  x "services/webhooks" "service.Call" 0 "map[string]string" [ECallStmt] RHeaderDefaults;
  x "utils/jsonpath" "visit" 0 "map[string]any" [ECallStmt; ECallback; EMapWriteKey] RKeySelected
].

(* reviewed uses of ambient process state in library code (package, function, callee).
   time.LoadLocation answers the zone of the PROCESS for the name "Local":
   - envs.LoadTimezone refuses that name before it calls time.LoadLocation (the four sites that take a zone name from a
     contact's message, a flow expression or a modifier go through it);
   - envs.ReadEnvironment and flows.ReadContact read host-stored JSON: known finding
     process-env:stored-timezone-local (a host must not supply the name "Local").
   time.Unix returns a time in the zone of the process: DateTimeFromEpoch moves it at once with .In(env.Timezone()), so the
   instant and the zone of the result are functions of the arguments and the environment.
   Each entry covers ONE call (one_call_per_allowed). *)
Definition ambient_allowed : list (string * string * string) :=
  [("excellent/functions", "DateTimeFromEpoch", "time.Unix");
   ("envs", "LoadTimezone", "time.LoadLocation");
   ("envs", "ReadEnvironment", "time.LoadLocation");
   ("flows", "ReadContact", "time.LoadLocation")].

(* The packages of github.com/nyaruka/gocommon that goflow imports (second table of gen/MapRangeSites.v, read from the module
   cache).  goflow cannot repair these; the three order-dependent ones are known findings with a probe in the driver:
     gocommon/dates init 0        dates/i18n.go:34   the BCP47 matcher is built from maps.Keys(translations) in map order: for a locale
                                  with several equally good matches (fra-SN, ara-PS ...) month / day names differ between PROCESSES
     gocommon/dates parseError    dates/parse.go:62  reverse lookup of a layout token over a map in which `t` and `tt` map to the same
                                  sequence: the error text of parse_time / parse_datetime names either
     gocommon/urns unescape       urns/parser.go:106 undoes the escapes in map order: a path with a literal "%2523" parses to "%23" or "#"
     gocommon/dates init 1        i18n.go:37         writes only the element it visits
     gocommon/httpx NewRequest    http.go:171        r.Header.Set(key, value) for caller supplied headers
     gocommon/httpx MockRequestor.Do, MockResponse.Make   test doubles: no reference from goflow's library code (callers = 0) *)
Definition dep_map_range_exceptions : list exception_entry := [
  x "gocommon/dates" "init" 0 "map[string]*dates.Translation" [EOrderCall SortNone] (RKnownFinding "dates:locale-match-map-order");
  x "gocommon/dates" "init" 1 "map[string]*dates.Translation" [EElemWrite] RKeyPartitioned;
  x "gocommon/dates" "parseError" 0 "map[string]struct{mapped string; seqType int; parseable bool}" [EAssignOuter; EBreak] (RKnownFinding "dates:parse-error-ambiguous-layout-token");
  x "gocommon/httpx" "MockRequestor.Do" 0 "map[string][]*httpx.MockResponse" [EOrderCall SortNone] RNoCaller;
  x "gocommon/httpx" "MockResponse.Make" 0 "map[string]string" [ECallStmt] RNoCaller;
  x "gocommon/httpx" "NewRequest" 0 "map[string]string" [ECallStmt] RCanonicalKeyWrite;
  x "gocommon/urns" "unescape" 0 "map[rune]string" [EAssignOuter; ELoopCarried] (RKnownFinding "urns:percent-escape-map-order")
].
