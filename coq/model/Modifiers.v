(* Modifiers.v — the contact modifiers of goflow, statement by statement.

   Transcribed from /repo/flows/modifiers: base.go (Apply, ReevaluateGroups), name.go, language.go, status.go,
   timezone.go, field.go, groups.go, urns.go, channel.go, ticket.go; with the Contact methods they call
   (flows/contact.go: ClearURNs, AddURN, RemoveURN, HasURN, UpdatePreferredChannel,
   ReevaluateQueryBasedGroups; flows/field.go: FieldValues.Parse, getFirstLocationValue; flows/group.go:
   CheckQueryBasedMembership) and the engine-side writers of the session contact (flows/engine/session.go:
   SetInput, ensureQueryBasedGroups; flows/resumes/base.go: Apply's contact refresh).

   Everything outside goflow's own logic enters through the environment record [menv] (universally
   quantified in every theorem; filled from the real code in the correspondence run):
     - nyaruka/gocommon/urns: Normalize, Validate, Identity, Scheme; ContactURN.SetChannel's rewrite of the
       raw URN (url.ParseQuery + urns.NewFromParts);
     - assets: which channels can send / support which scheme, which groups exist and which use a query,
       the field types in asset order;
     - value parsing (types.ToXNumber, types.ToXDateTimeWithTimeFill — which reads the clock —, the
       location resolver): functions of the raw text (and, for locations, of the parent location found on
       the contact, which the model computes itself);
     - contact query evaluation (contactql.EvaluateQuery over Contact.QueryProperty): [matches g v] where
       v is the contact with its group list and channel pointers erased — QueryProperty reads neither;
     - stringsx.Truncate is modelled directly (firstn on code points).
   Number/datetime components of field values are identified with their canonical rendering, so
   Value.Equals is equality of identifiers (the code's Equals is coarser only between renderings of the
   same number/instant, which never makes it report a change where there is none).

   No proofs in this file. *)
From Coq Require Import List NArith Bool.
From Verif Require Import model.Contact.
Import ListNotations.
Open Scope N_scope.

Inductive ftype := FText | FNumber | FDatetime | FState | FDistrict | FWard.

Definition ftype_eqb (a b : ftype) : bool :=
  match a, b with
  | FText, FText | FNumber, FNumber | FDatetime, FDatetime | FState, FState | FDistrict, FDistrict
  | FWard, FWard => true
  | _, _ => false
  end.

Record menv := {
  max_field_chars : N;                       (* eng.Options().MaxFieldChars *)
  (* gocommon/urns *)
  urn_norm1 : N -> N;                          (* one call of urns.URN.Normalize *)
  urn_valid : N -> bool;
  urn_identity : N -> N;
  urn_scheme : N -> N;
  urn_set_channel : option N -> N -> N;       (* raw URN after ContactURN.SetChannel(channel) *)
  urn_channel : N -> option N;               (* the channel a raw URN names in its channel query, if the assets have
                                                it (flows.ParseRawURN) *)
  tel_scheme : N;                            (* urns.Phone.Prefix *)
  (* channel assets *)
  chan_can_send : N -> bool;                 (* HasRole(ChannelRoleSend) *)
  chan_supports : N -> N -> bool;            (* SupportsScheme *)
  (* field assets, in asset order: field key k is the k-th entry *)
  field_types : list ftype;
  (* value parsing *)
  parse_num : text -> option N;
  parse_dt : text -> option N;
  parse_loc : ftype -> option text -> text -> text * text * text;   (* field type, parent location, raw *)
  (* group assets *)
  all_groups : list N;                       (* GroupAssets.All(), asset order *)
  uses_query : N -> bool;
  matches : N -> contact -> bool             (* applied to [qview c] only *)
}.

(* flows.NormalizeURN (fix F3n): Normalize until it no longer changes the URN, at most 20 rounds.  gocommon's Normalize is
   not idempotent (tel:+4400858870981 -> +440858870981 -> +44858870981); the URNs modifier and Contact.HasURN use this *)
Fixpoint norm_iter (E : menv) (fuel : nat) (u : N) : N :=
  match fuel with
  | O => u
  | S f => let v := urn_norm1 E u in if N.eqb v u then u else norm_iter E f v
  end.

Definition urn_normalize (E : menv) (u : N) : N := norm_iter E 20 u.

(* ---- events, as far as a caller mirrors them ---------------------------------------------------------- *)
Inductive event :=
| ENameChanged (n : text)
| ELanguageChanged (l : N)
| EStatusChanged (s : status)
| ETimezoneChanged (tz : option N)
| EURNsChanged (raw : list N)
| EGroupsChanged (added removed : list N)
| EFieldChanged (f : N) (v : option fvalue)
| ETicketOpened (t : ticket) (note : text)
| EContactRefreshed (c : contact)            (* the marshalled contact: channel pointers erased *)
| EMsgReceived (seen : N)                    (* with the time of the trigger / resume *)
| EError.

Inductive urns_modification := UAppend | URemove | USet.
Inductive groups_modification := GAdd | GRemove.

Inductive modifier :=
| MName (n : text)
| MLanguage (l : N)
| MStatus (s : status)
| MTimezone (tz : option N)
| MField (f : N) (raw : text)
| MGroups (gs : list N) (md : groups_modification)
| MURNs (us : list N) (md : urns_modification)
| MChannel (ch : option N)
| MTicket (topic : option N) (assignee : option N) (note : text).

(* ---- stringsx.Truncate ---------------------------------------------------------------------------- *)
Definition truncate (limit : N) (s : text) : text := firstn (N.to_nat limit) s.

(* ---- URNs (flows/contact.go) ------------------------------------------------------------------------ *)
Definition has_urn (E : menv) (us : list curn) (u : N) : bool :=
  let u' := urn_normalize E u in
  existsb (fun x => N.eqb (urn_identity E (cu_urn x)) (urn_identity E u')) us.

(* URNsModifier passes AddURN the channel the URN itself names (fix F3g; before, always nil) *)
Definition add_urn (E : menv) (us : list curn) (u : N) : list curn :=
  if has_urn E us u then us else us ++ [{| cu_urn := u; cu_chan := urn_channel E u |}].

Definition remove_urn (E : menv) (us : list curn) (u : N) : list curn :=
  if negb (has_urn E us u) then us
  else filter (fun x => negb (N.eqb (urn_identity E (cu_urn x)) (urn_identity E u))) us.

(* the loop of URNsModifier.Apply *)
Fixpoint urns_loop (E : menv) (md : urns_modification) (todo : list N) (cur : list curn) (evs : list event)
  : list curn * list event :=
  match todo with
  | [] => (cur, evs)
  | u :: rest =>
      let u' := urn_normalize E u in
      if negb (urn_valid E u') then urns_loop E md rest cur (evs ++ [EError])
      else match md with
           | URemove => urns_loop E md rest (remove_urn E cur u') evs
           | _ => urns_loop E md rest (add_urn E cur u') evs
           end
  end.

Definition apply_urns (E : menv) (us : list N) (md : urns_modification) (c : contact)
  : contact * list event * bool :=
  let old := raw_urns (c_urns c) in
  let start := match md with USet => [] | _ => c_urns c end in
  let '(cur, evs) := urns_loop E md us start [] in
  let c' := with_urns c cur in
  if negb (listN_eqb old (raw_urns cur)) then (c', evs ++ [EURNsChanged (raw_urns cur)], true)
  else (c', evs, false).

(* ---- preferred channel (Contact.UpdatePreferredChannel, ContactURN.SetChannel) --------------------- *)
Definition set_channel (E : menv) (ch : option N) (u : curn) : curn :=
  {| cu_urn := urn_set_channel E ch (cu_urn u); cu_chan := ch |}.

Definition prefer_step (E : menv) (k : N) (u : curn) : curn :=
  let u1 := if N.eqb (urn_scheme E (cu_urn u)) (tel_scheme E) && chan_supports E k (tel_scheme E)
            then set_channel E (Some k) u else u in
  match cu_chan u1 with
  | None => if chan_supports E k (urn_scheme E (cu_urn u1)) then set_channel E (Some k) u1 else u1
  | Some _ => u1
  end.

Definition has_chan (k : N) (u : curn) : bool := optN_eqb (cu_chan u) (Some k).

Definition update_preferred_channel (E : menv) (ch : option N) (us : list curn) : list curn * bool :=
  match ch with
  | None => let us' := map (set_channel E None) us in (us', negb (urns_equal us us'))
  | Some k =>
      if negb (chan_can_send E k) then (us, false)
      else let us1 := map (prefer_step E k) us in
           let us' := filter (has_chan k) us1 ++ filter (fun u => negb (has_chan k u)) us1 in
           (us', negb (urns_equal us us'))
  end.

Definition apply_channel (E : menv) (ch : option N) (c : contact) : contact * list event * bool :=
  let blocked := match ch with Some k => negb (chan_can_send E k) | None => false end in
  if blocked then (c, [EError], false)
  else let '(us', changed) := update_preferred_channel E ch (c_urns c) in
       let c' := with_urns c us' in
       if changed then (c', [EURNsChanged (raw_urns us')], true) else (c', [], false).

(* ---- fields (FieldModifier.Apply, FieldValues.Parse, getFirstLocationValue) ------------------------- *)
Definition field_type (E : menv) (k : N) : ftype := nth (N.to_nat k) (field_types E) FText.

(* FieldAssets.FirstOfType *)
Fixpoint first_of_type_from (i : N) (ts : list ftype) (t : ftype) : option N :=
  match ts with
  | [] => None
  | x :: rest => if ftype_eqb x t then Some i else first_of_type_from (i + 1) rest t
  end.
Definition first_of_type (E : menv) (t : ftype) : option N := first_of_type_from 0 (field_types E) t.

(* FieldValue.ToXValue for the location types: the path, if set *)
Definition location_text (t : ftype) (v : fvalue) : option text :=
  let p := match t with FState => v_state v | FDistrict => v_district v | FWard => v_ward v | _ => [] end in
  match p with [] => None | _ => Some p end.

(* getFirstLocationValue, up to the lookup of the path (part of parse_loc) *)
Definition first_location_value (E : menv) (fs : list (N * fvalue)) (t : ftype) : option text :=
  match first_of_type E t with
  | None => None
  | Some k => match fget k fs with
              | None => None
              | Some v => location_text t v
              end
  end.

Definition parent_type (t : ftype) : option ftype :=
  match t with FWard => Some FDistrict | FDistrict => Some FState | _ => None end.

Definition parse_value (E : menv) (fs : list (N * fvalue)) (f : N) (raw : text) : option fvalue :=
  match raw with
  | [] => None
  | _ =>
      let t := field_type E f in
      let parent := match parent_type t with Some pt => first_location_value E fs pt | None => None end in
      let '(st, di, wa) := parse_loc E t parent raw in
      Some {| v_text := raw; v_dt := parse_dt E raw; v_num := parse_num E raw;
              v_state := st; v_district := di; v_ward := wa |}
  end.

(* FieldModifier.Apply: the value is cut to MaxFieldChars first and then parsed, so the typed values are those of the
   stored text (fix F3h; before, the whole text was parsed and only Text was cut); a value cut to nothing is no value
   (parse_value of the empty text) *)
Definition apply_field (E : menv) (f : N) (raw : text) (c : contact) : contact * list event * bool :=
  let old := fget f (c_fields c) in
  let new := parse_value E (c_fields c) f (truncate (max_field_chars E) raw) in
  if negb (ofvalue_eqb new old)
  then (with_fields c (fset f new (c_fields c)), [EFieldChanged f new], true)
  else (c, [], false).

(* ---- groups (GroupsModifier.Apply) ------------------------------------------------------------------- *)
Fixpoint groups_add_loop (E : menv) (todo : list N) (cur : list N) (diff : list N) (evs : list event)
  : list N * list N * list event :=
  match todo with
  | [] => (cur, diff, evs)
  | g :: rest =>
      if uses_query E g then groups_add_loop E rest cur diff (evs ++ [EError])
      else if gmem g cur then groups_add_loop E rest cur diff evs
      else groups_add_loop E rest (cur ++ [g]) (diff ++ [g]) evs
  end.

Fixpoint groups_remove_loop (E : menv) (todo : list N) (cur : list N) (diff : list N) (evs : list event)
  : list N * list N * list event :=
  match todo with
  | [] => (cur, diff, evs)
  | g :: rest =>
      if uses_query E g then groups_remove_loop E rest cur diff (evs ++ [EError])
      else if negb (gmem g cur) then groups_remove_loop E rest cur diff evs
      else groups_remove_loop E rest (gremove g cur) (diff ++ [g]) evs
  end.

Definition apply_groups (E : menv) (gs : list N) (md : groups_modification) (c : contact)
  : contact * list event * bool :=
  if negb (status_eqb (c_status c) Active) then (c, [EError], false)
  else match md with
       | GAdd =>
           let '(cur, diff, evs) := groups_add_loop E gs (c_groups c) [] [] in
           let c' := with_groups c cur in
           match diff with
           | [] => (c', evs, false)
           | _ => (c', evs ++ [EGroupsChanged diff []], true)
           end
       | GRemove =>
           let '(cur, diff, evs) := groups_remove_loop E gs (c_groups c) [] [] in
           let c' := with_groups c cur in
           match diff with
           | [] => (c', evs, false)
           | _ => (c', evs ++ [EGroupsChanged [] diff], true)
           end
       end.

(* ---- the simple ones ---------------------------------------------------------------------------------- *)
Definition apply_name (E : menv) (n : text) (c : contact) : contact * list event * bool :=
  let name := truncate (max_field_chars E) n in
  if negb (text_eqb (c_name c) name) then (with_name c name, [ENameChanged name], true) else (c, [], false).

Definition apply_language (l : N) (c : contact) : contact * list event * bool :=
  if negb (N.eqb (c_lang c) l) then (with_lang c l, [ELanguageChanged l], true) else (c, [], false).

Definition apply_status (s : status) (c : contact) : contact * list event * bool :=
  if negb (status_eqb (c_status c) s) then (with_status c s, [EStatusChanged s], true) else (c, [], false).

Definition apply_timezone (tz : option N) (c : contact) : contact * list event * bool :=
  if negb (optN_eqb (c_tz c) tz) then (with_tz c tz, [ETimezoneChanged tz], true) else (c, [], false).

(* TicketModifier.Apply; [fresh] is the UUID the generator hands out *)
Definition apply_ticket (fresh : N) (topic assignee : option N) (note : text) (c : contact)
  : contact * list event * bool :=
  match c_ticket c with
  | Some _ => (c, [], false)
  | None => let t := {| t_uuid := fresh; t_topic := topic; t_assignee := assignee |} in
            (with_ticket c (Some t), [ETicketOpened t note], true)
  end.

(* mod.Apply(eng, env, sa, contact, log) *)
Definition apply_inner (E : menv) (fresh : N) (m : modifier) (c : contact) : contact * list event * bool :=
  match m with
  | MName n => apply_name E n c
  | MLanguage l => apply_language l c
  | MStatus s => apply_status s c
  | MTimezone tz => apply_timezone tz c
  | MField f raw => apply_field E f raw c
  | MGroups gs md => apply_groups E gs md c
  | MURNs us md => apply_urns E us md c
  | MChannel ch => apply_channel E ch c
  | MTicket topic assignee note => apply_ticket fresh topic assignee note c
  end.

(* ---- query based groups ------------------------------------------------------------------------------- *)
Definition is_active (c : contact) : bool := status_eqb (c_status c) Active.

(* what Contact.QueryProperty can see *)
Definition qview (c : contact) : contact := erase (with_groups c []).

(* Group.CheckQueryBasedMembership *)
Definition qualifies (E : menv) (g : N) (c : contact) : bool := is_active c && matches E g (qview c).

(* the loop of Contact.ReevaluateQueryBasedGroups; [c] supplies the attributes, [cur] is the group list
   as mutated so far *)
Fixpoint reeval_loop (E : menv) (c : contact) (todo : list N) (cur added removed : list N)
  : list N * list N * list N :=
  match todo with
  | [] => (cur, added, removed)
  | g :: rest =>
      if negb (uses_query E g) then reeval_loop E c rest cur added removed
      else if qualifies E g c
      then (if gmem g cur then reeval_loop E c rest cur added removed
            else reeval_loop E c rest (cur ++ [g]) (added ++ [g]) removed)
      else (if gmem g cur then reeval_loop E c rest (gremove g cur) added (removed ++ [g])
            else reeval_loop E c rest cur added removed)
  end.

Definition reevaluate_query_groups (E : menv) (c : contact) : list N * list N * list N :=
  reeval_loop E c (all_groups E) (c_groups c) [] [].

Definition groups_event (added removed : list N) : list event :=
  match added, removed with
  | [], [] => []
  | _, _ => [EGroupsChanged added removed]
  end.

(* modifiers.ReevaluateGroups *)
Definition reevaluate_groups (E : menv) (c : contact) : contact * list event :=
  let '(cur, added, removed) := reevaluate_query_groups E c in
  if negb (is_active c)
  then (with_groups c [], groups_event added (removed ++ filter (fun g => negb (uses_query E g)) cur))
  else (with_groups c cur, groups_event added removed).

(* modifiers.Apply *)
Definition apply (E : menv) (fresh : N) (m : modifier) (c : contact) : contact * list event * bool :=
  let '(c1, evs, modified) := apply_inner E fresh m c in
  if modified then let '(c2, evs2) := reevaluate_groups E c1 in (c2, evs ++ evs2, true)
  else (c1, evs, false).

(* ---- what the idempotence theorem (proofs/ModifiersProofs.v) needs to know about gocommon/urns, as a
   computable test so that the correspondence run evaluates it on every case: for an appending URNs modifier,
   the 20 rounds of NormalizeURN reach a fixed point of Normalize on the URNs it makes valid; for a channel modifier, SetChannel with that
   channel is idempotent and keeps the scheme on the URNs the contact holds ---------------------------------- *)
Definition mod_env_ok (E : menv) (m : modifier) (c : contact) : bool :=
  match m with
  | MURNs us UAppend =>
      forallb (fun u => negb (urn_valid E (urn_normalize E u))
                        || N.eqb (urn_norm1 E (urn_normalize E u)) (urn_normalize E u)) us
  | MChannel ch =>
      forallb (fun u => N.eqb (urn_set_channel E ch (urn_set_channel E ch u)) (urn_set_channel E ch u)
                        && N.eqb (urn_scheme E (urn_set_channel E ch u)) (urn_scheme E u))
              (raw_urns (c_urns c))
  | _ => true
  end.

(* the well-formedness premises of the theorems (proofs/GroupsProofs.v wf_contact, proofs/ModifiersProofs.v mod_wf), as
   computable tests evaluated on every case of the correspondence run *)
Fixpoint nodupN (l : list N) : bool :=
  match l with [] => true | x :: rest => negb (existsb (N.eqb x) rest) && nodupN rest end.
Definition wf_contact_b (E : menv) (c : contact) : bool :=
  nodupN (c_groups c) && forallb (fun g => existsb (N.eqb g) (all_groups E)) (c_groups c).
Definition mod_wf_b (E : menv) (m : modifier) : bool :=
  match m with MGroups gs _ => forallb (fun g => existsb (N.eqb g) (all_groups E)) gs | _ => true end.

(* the channel pointer of every URN is the channel its raw form names: what reading the marshalled contact back
   (flows.ParseRawURN) produces; [chan_env_ok]: SetChannel writes the channel it is given into the raw URN (computable,
   evaluated on every case of the correspondence run) and, since fix F3m, nothing else: scheme, path and display — the
   URN's identity — stay exactly as stored (before, SetChannel re-normalized the whole URN) *)
Definition chan_ok_b (E : menv) (c : contact) : bool :=
  forallb (fun x => optN_eqb (cu_chan x) (urn_channel E (cu_urn x))) (c_urns c).

Definition chan_env_ok (E : menv) (m : modifier) (c : contact) : bool :=
  match m with
  | MChannel ch => forallb (fun u => optN_eqb (urn_channel E (urn_set_channel E ch u)) ch
                                     && N.eqb (urn_identity E (urn_set_channel E ch u)) (urn_identity E u))
                           (raw_urns (c_urns c))
  | _ => true
  end.

(* ---- the engine's writers of the session contact (flows/engine/session.go, flows/resumes/base.go) ---- *)

(* session.ensureQueryBasedGroups: delegates to modifiers.ReevaluateGroups (fix F6e; before, it re-evaluated the query
   based groups only and left a non-active contact in its static groups) *)
Definition ensure_query_groups (E : menv) (c : contact) : contact * list event := reevaluate_groups E c.

(* contact equality as Contact.Equal sees it (marshalled JSON): pointer-free, field maps as maps,
   groups as the marshalled list *)
Fixpoint raw_fields_sub (a b : list (N * fvalue)) : bool :=
  match a with
  | [] => true
  | (k, v) :: rest => ofvalue_eqb (Some v) (fget k b) && raw_fields_sub rest b
  end.

Definition contact_json_eqb (a b : contact) : bool :=
  text_eqb (c_name a) (c_name b) && N.eqb (c_lang a) (c_lang b) && status_eqb (c_status a) (c_status b)
  && optN_eqb (c_tz a) (c_tz b) && optN_eqb (c_last_seen a) (c_last_seen b)
  && urns_equal (c_urns a) (c_urns b) && listN_eqb (c_groups a) (c_groups b)
  && raw_fields_sub (c_fields a) (c_fields b) && raw_fields_sub (c_fields b) (c_fields a)
  && oticket_eqb (c_ticket a) (c_ticket b).

(* one step that writes the session contact during a sprint *)
Inductive step :=
| SApply (fresh : N) (m : modifier)   (* baseAction.applyModifier *)
| SEnsure                             (* ensureQueryBasedGroups at start / after trigger input / on resume *)
| SRefresh (c' : contact)             (* baseResume.Apply with a contact *)
| SSetInput (t : N).                  (* session.SetInput(msg input) + msg_received *)

Definition run_step (E : menv) (s : step) (c : contact) : contact * list event :=
  match s with
  | SApply fresh m => let '(c', evs, _) := apply E fresh m c in (c', evs)
  | SEnsure => ensure_query_groups E c
  | SRefresh c' => (c', if contact_json_eqb c c' then [] else [EContactRefreshed (erase c')])
  | SSetInput t => (with_last_seen c (Some t), [EMsgReceived t])
  end.

Fixpoint run_steps (E : menv) (ss : list step) (c : contact) : contact * list event :=
  match ss with
  | [] => (c, [])
  | s :: rest => let '(c1, e1) := run_step E s c in
                 let '(c2, e2) := run_steps E rest c1 in (c2, e1 ++ e2)
  end.

(* ---- which contact-writing steps one engine call performs, in order (flows/engine/session.go) -------------
   start (session.start): trigger.Initialize sets the session contact (not a write of an existing contact);
     ensureQueryBasedGroups; then continueUntilWait: the first visitNode calls trigger.InitializeRun — for a msg
     trigger SetInput (last seen := triggered_on) + msg_received — followed by ensureQueryBasedGroups again; then
     the actions of the visited nodes, each contact-changing action through baseAction.applyModifier.
     A flow without nodes visits nothing: only the first ensureQueryBasedGroups runs.
   resume that fails the session (tryToResume: flow asset missing, resume limit reached, node gone or without wait):
     nothing of the resume is applied; ensureQueryBasedGroups (fix F6f; before, nothing at all).
   resume (session.tryToResume): resume.Apply — contact refresh (contact_refreshed unless Equal), for a msg
     resume SetInput (last seen := resumed_on) + msg_received —; ensureQueryBasedGroups; then the actions. *)
Inductive sprint_kind :=
| KStartEmpty                                  (* any trigger, flow without nodes *)
| KResumeFailed                                (* a resume that fails the session before it is applied *)
| KStart (input : option N)                    (* Some t: msg trigger received at t *)
| KResume (refresh : option contact) (input : option N).

Definition opt_step {A : Type} (f : A -> step) (o : option A) : list step :=
  match o with Some x => [f x] | None => [] end.

Definition sprint_steps (k : sprint_kind) (acts : list (N * modifier)) : list step :=
  let applies := map (fun fm => SApply (fst fm) (snd fm)) acts in
  match k with
  | KStartEmpty => [SEnsure]
  | KResumeFailed => [SEnsure]
  | KStart input => SEnsure :: opt_step SSetInput input ++ SEnsure :: applies
  | KResume refresh input => opt_step SRefresh refresh ++ opt_step SSetInput input ++ SEnsure :: applies
  end.

Definition run_sprint (E : menv) (k : sprint_kind) (acts : list (N * modifier)) (c : contact)
  : contact * list event := run_steps E (sprint_steps k acts) c.

(* ---- two environments --------------------------------------------------------------------------------------------
   As the code stands, session.ensureQueryBasedGroups evaluates queries in s.Environment() while baseAction.applyModifier
   hands modifiers.Apply the contact-merged environment (flows.NewSessionEnvironment: the contact's time zone, language,
   country).  [Es] is the former, [Em] the latter; run_step E = run_step2 E E. *)
Definition run_step2 (Es Em : menv) (s : step) (c : contact) : contact * list event :=
  match s with
  | SApply fresh m => let '(c', evs, _) := apply Em fresh m c in (c', evs)
  | SEnsure => ensure_query_groups Es c
  | SRefresh c' => (c', if contact_json_eqb c c' then [] else [EContactRefreshed (erase c')])
  | SSetInput t => (with_last_seen c (Some t), [EMsgReceived t])
  end.

Fixpoint run_steps2 (Es Em : menv) (ss : list step) (c : contact) : contact * list event :=
  match ss with
  | [] => (c, [])
  | s :: rest => let '(c1, e1) := run_step2 Es Em s c in
                 let '(c2, e2) := run_steps2 Es Em rest c1 in (c2, e1 ++ e2)
  end.

Definition run_sprint2 (Es Em : menv) (k : sprint_kind) (acts : list (N * modifier)) (c : contact)
  : contact * list event := run_steps2 Es Em (sprint_steps k acts) c.
