(* Legacy.v — model of goflow's legacy expression migration (property C17).  No proofs here.

   Transcribed from /repo/flows/definition/legacy/expressions:
     visitor.go    legacyVisitor.Visit* (one clause of [visit] per method; the results are STRINGS built by
                   concatenation, exactly as fmt.Sprintf does in the Go code)
     functions.go  asIs / asRename / asTemplate / asJoin / asParamMigratorsWithDefaults, paramAsIs /
                   paramDecremented / paramBySpaces, migrateFunctionCall, renderCall; the table
                   `callMigrators` itself is gen/LegacyTable.v (regenerated from the source on every run)
     migrate.go    MigrateTemplate / migrateLegacyTemplateAsString (over the token list the template scanner
                   delivers), migrateExpression, inferType, isValidIdentifier, wrapRawExpression, wrap,
                   MigrateStringLiteral; `functionReturnTypes` is in gen/LegacyTable.v
   Go library functions modelled here: strconv.Atoi / Itoa (int = int64), strings.Count / Replace / Join /
   TrimSpace / ToLower, fmt.Sprintf restricted to the verbs %s %v %[n]s %[n]v %% (the translator rejects any
   other verb in the table) including its %!s(BADINDEX), %!s(MISSING) and %!(EXTRA string=..) outputs,
   regexp `^(\w+)\(` and `^\pL+[\pL\pN_.]*$`.  strconv.Quote is lib/Quote.v.

   Not modelled, entering as oracle arguments (filled by the harness from the real functions):
     [ctxmap]    MigrateContextReference(name, rawDates)   (context.go: ~60 regular expressions)
     the template scanner excellent.NewXScanner (property C12): templates are given as its token list;
     separateFrom (present iff gen/LegacyTable.v separates_identifiers) re-scans a migrated identifier together with
     the text that follows it: that call is the scanner model of C12, model/ExScanner.v [scan], with
     unicode.IsLetter||IsNumber [isln] and unicode.ToLower [lower_rune] as parameters.
   The legacy ANTLR parser is re-implemented in LegacySyntax.v (parse1).

   visitor.go precedenceOf / asOperand (added by the fix "legacy expression migration parenthesizes operands
   that would regroup"): an already migrated operand is re-parsed with the Excellent3 parser (model: parse3
   of LegacySyntax.v) and parenthesized when its outermost operator binds looser than its position needs.
   The precedence constants come from gen/LegacyTable.v (const block of visitor.go).

   An error of migrateFunctionCall (a call with a number of arguments its migrator does not take) is remembered in
   legacyVisitor.err: migrateExpression then fails like a syntax error does and the template keeps the legacy text
   of that expression ([visit_errs]). *)
From Coq Require Import List NArith ZArith Bool.
From Coq Require String.
Import String.StringSyntax.
From Verif Require Import model.LegacyTy gen.LegacyTable model.LegacySyntax lib.Quote.
From Verif Require model.ExScanner.
Import ListNotations.
Open Scope N_scope.

(* ---------------------------------------------------------------------------------------------- *)
(* Go library pieces *)

(* decimal digits of n, most significant first; fuel 20 covers 64-bit values *)
Fixpoint digits_of (fuel : nat) (n : N) : text :=
  match fuel with
  | O => [48 + n mod 10]
  | S f => if n <? 10 then [48 + n] else digits_of f (n / 10) ++ [48 + n mod 10]
  end.

Definition int64_min : Z := (- 9223372036854775808)%Z.
Definition int64_max : Z := 9223372036854775807%Z.

(* strconv.Itoa for an int64 value *)
Definition itoa (z : Z) : text :=
  match z with
  | Z0 => [48]
  | Zpos p => digits_of 20 (Npos p)
  | Zneg p => 45 :: digits_of 20 (Npos p)
  end.

Fixpoint digits_value (acc : N) (s : text) : option N :=
  match s with
  | [] => Some acc
  | c :: r => if ascii_digit c then digits_value (acc * 10 + (c - 48)) r else None
  end.

(* strconv.Atoi: optional sign, at least one ASCII digit, nothing else, value within int64 *)
Definition atoi (s : text) : option Z :=
  let body (neg : bool) (ds : text) : option Z :=
    match ds with
    | [] => None
    | _ =>
      match digits_value 0 ds with
      | None => None
      | Some n =>
          let z := if neg then (- Z.of_N n)%Z else Z.of_N n in
          if (int64_min <=? z)%Z && (z <=? int64_max)%Z then Some z else None
      end
    end in
  match s with
  | [] => None
  | c :: r =>
      if c =? 45 then body true r
      else if c =? 43 then body false r
      else body false s
  end.

(* asInt - 1 in int64 arithmetic (wraps at the minimum) *)
Definition int64_pred (z : Z) : Z :=
  if (z =? int64_min)%Z then int64_max else (z - 1)%Z.

(* strings.Count(s, sub) for a non-empty sub: non-overlapping occurrences, left to right *)
Fixpoint count_sub_from (skip : nat) (sub s : text) : nat :=
  match s with
  | [] => O
  | _ :: r =>
      match skip with
      | S k => count_sub_from k sub r
      | O => if is_prefix sub s then S (count_sub_from (Nat.pred (length sub)) sub r)
             else count_sub_from O sub r
      end
  end.
Definition count_sub (sub s : text) : nat := count_sub_from O sub s.

(* strings.Replace(s, DQUOTE DQUOTE, BACKSLASH DQUOTE, -1) *)
Fixpoint replace_dq (s : text) : text :=
  match s with
  | [] => []
  | c :: r =>
      match r with
      | c2 :: r2 =>
          if (c =? c_dquote) && (c2 =? c_dquote) then c_bslash :: c_dquote :: replace_dq r2
          else c :: replace_dq r
      | [] => [c]
      end
  end.

(* unicode.IsSpace on the code points strings.TrimSpace can meet *)
Definition is_space (c : N) : bool :=
  ((9 <=? c) && (c <=? 13)) || (c =? 32) || (c =? 133) || (c =? 160) || (c =? 5760)
  || ((8192 <=? c) && (c <=? 8202)) || (c =? 8232) || (c =? 8233) || (c =? 8239) || (c =? 8287) || (c =? 12288).

Fixpoint drop_while (p : N -> bool) (s : text) : text :=
  match s with
  | [] => []
  | c :: r => if p c then drop_while p r else s
  end.
Definition trim_space (s : text) : text := rev (drop_while is_space (rev (drop_while is_space s))).

(* ---- fmt.Sprintf(template, params...) with string arguments ---- *)

Inductive fpiece :=
| FChar (c : N)                           (* literal character (also the % of %%) *)
| FVerb (idx : option nat) (verb : N)     (* %s %v (idx = None) or %[n]s %[n]v (idx = Some n, 1-based) *)
| FNoVerb.                                (* % at the end of the format *)

Fixpoint fmt_pieces (fuel : nat) (f : text) : list fpiece :=
  match fuel with
  | O => []
  | S k =>
    match f with
    | [] => []
    | c :: r =>
        if negb (c =? 37) then FChar c :: fmt_pieces k r
        else
          match r with
          | [] => [FNoVerb]
          | v :: r1 =>
              if v =? 37 then FChar 37 :: fmt_pieces k r1
              else if v =? 91 then
                let (ds, r2) := span ascii_digit r1 in
                match digits_value 0 ds, r2 with
                | Some n, c2 :: verb :: r3 =>
                    if (c2 =? 93) && negb (text_eqb ds []) then FVerb (Some (N.to_nat n)) verb :: fmt_pieces k r3
                    else FVerb None 0 :: fmt_pieces k r1      (* outside the subset (rejected by the translator) *)
                | _, _ => FVerb None 0 :: fmt_pieces k r1
                end
              else FVerb None v :: fmt_pieces k r1
          end
    end
  end.

Definition bang_verb (verb : N) (what : text) : text :=       (* %!verb(what) *)
  [37; 33; verb; 40] ++ what ++ [41].
Definition t_BADINDEX : text := Eval compute in s2t "BADINDEX"%string.
Definition t_MISSING : text := Eval compute in s2t "MISSING"%string.
Definition t_NOVERB : text := Eval compute in s2t "%!(NOVERB)"%string.
Definition t_EXTRA : text := Eval compute in s2t "%!(EXTRA "%string.
Definition t_string_eq : text := Eval compute in s2t "string="%string.

(* doPrintf: [arg_num] is the next sequential argument, [reordered] is set by any [n] *)
Fixpoint fmt_run (ps : list fpiece) (args : list text) (arg_num : nat) (reordered : bool) : text :=
  match ps with
  | [] =>
      if negb reordered && Nat.ltb arg_num (length args) then
        t_EXTRA ++ join comma_space (map (fun a => t_string_eq ++ a) (skipn arg_num args)) ++ [41]
      else []
  | FChar c :: r => c :: fmt_run r args arg_num reordered
  | FNoVerb :: r => t_NOVERB ++ fmt_run r args arg_num reordered
  | FVerb None verb :: r =>
      match nth_error args arg_num with
      | Some a => a ++ fmt_run r args (S arg_num) reordered
      | None => bang_verb verb t_MISSING ++ fmt_run r args arg_num reordered
      end
  | FVerb (Some n) verb :: r =>
      if Nat.leb 1 n && Nat.leb n (length args) then
        match nth_error args (Nat.pred n) with
        | Some a => a ++ fmt_run r args n true
        | None => fmt_run r args n true
        end
      else bang_verb verb t_BADINDEX ++ fmt_run r args arg_num true
  end.

Definition sprintf (f : text) (args : list text) : text :=
  fmt_run (fmt_pieces (S (length f)) f) args O false.

(* ---------------------------------------------------------------------------------------------- *)
(* visitor.go: precedenceOf, asOperand *)

(* the type switch of precedenceOf on the root of the parsed expression *)
Definition go_prec_of_op (o : binop) : nat :=
  match o with
  | OAmp => prec_concatenation
  | OEq | ONeq => prec_equality
  | OLte | OLt | OGte | OGt => prec_comparison
  | OAdd | OSub => prec_addition
  | OMul | ODiv => prec_multiplication
  | OExp => prec_exponent
  end.

Definition go_prec_of_tree (t : e3) : nat :=
  match t with
  | X3Bin o _ _ => go_prec_of_op o
  | X3Neg _ => prec_negation
  | _ => prec_atom
  end.

(* precedenceOf: a text that does not parse counts as an atom *)
Definition precedence_of (expression : text) : nat :=
  match parse3 expression with
  | Some t => go_prec_of_tree t
  | None => prec_atom
  end.

(* asOperand *)
Definition as_operand (expression : text) (min_precedence : nat) : text :=
  if Nat.ltb (precedence_of expression) min_precedence then 40 :: expression ++ [41] else expression.

(* ---------------------------------------------------------------------------------------------- *)
(* functions.go *)

Definition t_pct_s : text := [37; 115].
Definition t_pct_v : text := [37; 118].
Definition t_minus_one : text := Eval compute in s2t " - 1"%string.
Definition t_space_tab : text := [34; 32; 92; 116; 34].     (* the Go raw string  DQUOTE SPACE BACKSLASH t DQUOTE *)

(* renderCall *)
Definition render_call (name : text) (params : list text) : text :=
  name ++ 40 :: join comma_space params ++ [41].

(* paramDecremented; the guard `if asInt < 0 { return param }` is present iff gen/LegacyTable.v says so *)
Definition param_decremented (p : text) : text :=
  match atoi p with
  | Some z => if decremented_keeps_negative && (z <? 0)%Z then p else itoa (int64_pred z)
  | None => as_operand p prec_addition ++ t_minus_one
  end.

(* paramBySpaces *)
Definition t_if_open : text := [105; 102; 40].                                     (* if( *)
Definition t_byspaces_close : text := [44; 32; 34; 32; 92; 116; 34; 44; 32; 78; 85; 76; 76; 41].  (* , " \t", NULL) *)
Definition param_by_spaces (p : text) : text :=
  let l := trim_space (lower p) in
  if text_eqb l t_true then t_space_tab
  else if text_eqb l t_false then t_NULL
  else t_if_open ++ p ++ t_byspaces_close.

Definition apply_pm (m : pmig) (p : text) : text :=
  match m with
  | PAsIs => p
  | PDecremented => param_decremented p
  | PBySpaces => param_by_spaces p
  end.

(* the loop of asParamMigratorsWithDefaults over i = 0 .. max(len old, len defaults) - 1;
   paramMigrators[i] exists because len old <= len pms was checked and len defaults <= len pms holds for
   the table (checked by the translator) *)
Fixpoint migrate_params (pms : list pmig) (old defaults : list text) : option (list text) :=
  match pms with
  | [] => Some []
  | m :: pms' =>
      match old, defaults with
      | [], [] => Some []
      | o :: old', _ => option_map (cons (apply_pm m o)) (migrate_params pms' old' (tl defaults))
      | [], d :: defaults' =>
          match d with
          | [] => None                          (* a parameter without a default is required *)
          | _ => option_map (cons (apply_pm m d)) (migrate_params pms' [] defaults')
          end
      end
  end.

(* asOperatorTemplate: params[i] for i < len(precedences) go through asOperand *)
Fixpoint operands_of (params : list text) (precs : list nat) : list text :=
  match params, precs with
  | p :: ps, q :: qs => as_operand p q :: operands_of ps qs
  | _, _ => params
  end.

(* asJoin: the first operand at the operator's precedence, the others one above (left associative) *)
Definition join_operands (params : list text) (prec : nat) : list text :=
  match params with
  | [] => []
  | p :: ps => as_operand p prec :: map (fun x => as_operand x (S prec)) ps
  end.

Fixpoint lookup {A} (k : text) (l : list (text * A)) : option A :=
  match l with
  | [] => None
  | (k', v) :: r => if text_eqb k k' then Some v else lookup k r
  end.

(* numTemplateParams: the number of %s and %v placeholders, or the highest index of the %[n] placeholders *)
Fixpoint max_explicit_index (fuel : nat) (f : text) : nat :=
  match fuel with
  | O => O
  | S k =>
      match f with
      | [] => O
      | c :: r =>
          match r with
          | c2 :: r1 =>
              if (c =? 37) && (c2 =? 91) then
                let (ds, r2) := span ascii_digit r1 in
                match ds, r2, digits_value 0 ds with
                | _ :: _, c3 :: _, Some n =>
                    if c3 =? 93 then Nat.max (N.to_nat n) (max_explicit_index k r) else max_explicit_index k r
                | _, _, _ => max_explicit_index k r
                end
              else max_explicit_index k r
          | [] => O
          end
      end
  end.

Definition num_template_params (f : text) : nat :=
  Nat.max (count_sub t_pct_s f + count_sub t_pct_v f) (max_explicit_index (S (length f)) f).

Definition t_datetime_diff : text := Eval compute in s2t "datetime_diff"%string.

(* asDateDif: the units y, m, d in either case become Y, M, D *)
Definition datedif_unit (p : text) : text :=
  let l := lower p in
  if text_eqb l [34; 121; 34] then [34; 89; 34]
  else if text_eqb l [34; 109; 34] then [34; 77; 34]
  else if text_eqb l [34; 100; 34] then [34; 68; 34]
  else p.

Definition datedif_params (params : list text) : list text :=
  match params with
  | [a; b; u] => [a; b; datedif_unit u]
  | _ => params
  end.

(* withOptionalDefaults: params[:len] + defaults[len-numRequired:] when numRequired <= len < numRequired + len(defaults) *)
Definition with_defaults (required : nat) (defaults params : list text) : list text :=
  if Nat.leb required (length params) && Nat.ltb (length params) (required + length defaults)
  then params ++ skipn (length params - required) defaults
  else params.

(* a call migrator applied to (funcName, params): the migrated text, or an error *)
Fixpoint migrate_cmig (m : cmig) (fname : text) (params : list text) : option text :=
  match m with
  | AsIs => Some (render_call fname params)
  | Rename n => Some (render_call n params)
  | Template f precs =>
      if Nat.eqb (length params) (num_template_params f) then Some (sprintf f (operands_of params precs)) else None
  | Join sep prec =>
      match params with
      | [] => None
      | _ => Some (join sep (join_operands params prec))
      end
  | Params n defaults pms =>
      if Nat.ltb (length pms) (length params) then None
      else option_map (render_call n) (migrate_params pms params defaults)
  | DateDif => Some (render_call t_datetime_diff (datedif_params params))
  | Optional required defaults inner => migrate_cmig inner fname (with_defaults required defaults params)
  end.

(* migrateFunctionCall *)
Definition migrate_call_with (tbl : list (text * cmig)) (fname : text) (params : list text) : option text :=
  match lookup fname tbl with
  | None => Some (render_call fname params)
  | Some m => migrate_cmig m fname params
  end.

Definition migrate_call := migrate_call_with legacy_table.

(* ---------------------------------------------------------------------------------------------- *)
(* migrate.go *)

(* MigrateStringLiteral: s[1:len(s)-1], doubled quotes replaced, re-quoted *)
Definition migrate_string_literal (raw : text) : text :=
  c_dquote :: replace_dq (removelast (tl raw)) ++ [c_dquote].

(* regexp \w *)
Definition word_char (c : N) : bool := ascii_letter c || ascii_digit c || (c =? 95).

Definition t_number : text := Eval compute in s2t "number"%string.
Definition t_datetime : text := Eval compute in s2t "datetime"%string.
Definition t_date : text := Eval compute in s2t "date"%string.
Definition t_time : text := Eval compute in s2t "time"%string.

(* inferType *)
Definition infer_type (operand : text) : text :=
  match atoi operand with
  | Some _ => t_number
  | None =>
      let (w, r) := span word_char operand in
      match w, r with
      | _ :: _, c :: _ =>
          if c =? 40 then
            match lookup w function_return_types with
            | Some t => t
            | None => []
            end
          else []
      | _, _ => []
      end
  end.

Definition wrap (expression fname : text) : text := fname ++ 40 :: expression ++ [41].

Definition t_format_date : text := Eval compute in s2t "format_date"%string.
Definition t_url_encode : text := Eval compute in s2t "url_encode"%string.
Definition t_dtadd_open : text := Eval compute in s2t "datetime_add("%string.
Definition t_D_close : text := [44; 32; 34; 68; 34; 41].          (* , "D") *)
Definition t_m_close : text := [44; 32; 34; 109; 34; 41].         (* , "m") *)
Definition t_comma_minus : text := [44; 32; 45].                  (* , - *)
Definition t_comma_minus_paren : text := [44; 32; 45; 40].        (* , -( *)
Definition t_format_time_open : text := Eval compute in s2t "format_time("%string.
Definition t_tt_times_60_plus : text := [44; 32; 34; 116; 116; 34; 41; 32; 42; 32; 54; 48; 32; 43; 32].  (* , "tt") * 60 +  *)
Definition t_replace_time_open : text := Eval compute in s2t "replace_time("%string.
Definition t_legacy_add_open : text := Eval compute in s2t "legacy_add("%string.
Definition t_if_is_error : text := Eval compute in s2t "if(is_error("%string.
Definition t_close_comma : text := [41; 44; 32].                  (* ), *)

Section Visitor.
  Variable ctxmap : text -> text.      (* MigrateContextReference(name, options.RawDates) *)
  Variable raw_dates : bool.           (* options.RawDates *)

  (* VisitAdditionOrSubtractionExpression, after both operands were visited *)
  Definition visit_additive (minus : bool) (arg1 arg2 : text) : text :=
    let op : text := if minus then [45] else [43] in
    let t1 := infer_type arg1 in
    let t2 := infer_type arg2 in
    let negated := as_operand arg2 prec_negation in
    if text_eqb t1 t_number && text_eqb t2 t_number then
      as_operand arg1 prec_addition ++ 32 :: op ++ 32 :: as_operand arg2 (S prec_addition)
    else if text_eqb t1 t_datetime && text_eqb t2 t_number then
      t_dtadd_open ++ arg1 ++ (if minus then t_comma_minus ++ negated else comma_space ++ arg2) ++ t_D_close
    else if text_eqb t1 t_date && text_eqb t2 t_number then
      let inner := t_dtadd_open ++ arg1 ++ (if minus then t_comma_minus ++ negated else comma_space ++ arg2) ++ t_D_close in
      if raw_dates then inner else wrap inner t_format_date
    else if text_eqb t1 t_datetime && text_eqb t2 t_time then
      let as_minutes := t_format_time_open ++ arg2 ++ t_tt_times_60_plus ++ t_format_time_open ++ arg2 ++ t_m_close in
      if minus then t_dtadd_open ++ arg1 ++ t_comma_minus_paren ++ as_minutes ++ 41 :: t_m_close
      else t_dtadd_open ++ arg1 ++ comma_space ++ as_minutes ++ t_m_close
    else if text_eqb t2 t_time && negb minus then
      t_replace_time_open ++ arg1 ++ comma_space ++ arg2 ++ [41]
    else if negb minus then
      t_legacy_add_open ++ arg1 ++ comma_space ++ arg2 ++ [41]
    else
      t_legacy_add_open ++ arg1 ++ t_comma_minus ++ negated ++ [41].

  (* legacyVisitor: one clause per Visit* method *)
  Fixpoint visit (e : e1) : text :=
    match e with
    | E1Dec raw => raw                                        (* VisitDecimalLiteral *)
    | E1Str raw => migrate_string_literal raw                 (* VisitStringLiteral *)
    | E1True => t_true                                        (* VisitTrue *)
    | E1False => t_false                                      (* VisitFalse *)
    | E1Ref n => ctxmap n                                     (* VisitContextReference *)
    | E1Paren x => 40 :: visit x ++ [41]                      (* VisitParentheses *)
    | E1Neg x => 45 :: as_operand (visit x) prec_negation     (* VisitNegation *)
    | E1Bin o a b =>
        match o with
        | OAdd => visit_additive false (visit a) (visit b)
        | OSub => visit_additive true (visit a) (visit b)
        | _ =>                                                (* exponent, * /, comparison, equality, & *)
            as_operand (visit a) (go_prec_of_op o) ++ 32 :: op_text o ++ 32 :: as_operand (visit b) (S (go_prec_of_op o))
        end
    | E1Call f args =>                                        (* VisitFunctionCall + VisitFunctionParameters *)
        match migrate_call (lower f) (map visit args) with
        | Some rewritten => rewritten
        | None => render_call (lower f) (map visit args)       (* the error is remembered, the call stays as it is *)
        end
    end.

  (* legacyVisitor.err: some function call of the expression could not be migrated *)
  Fixpoint visit_errs (e : e1) : bool :=
    match e with
    | E1Paren x => visit_errs x
    | E1Neg x => visit_errs x
    | E1Bin _ a b => visit_errs a || visit_errs b
    | E1Call f args =>
        existsb visit_errs args ||
        match migrate_call (lower f) (map visit args) with Some _ => false | None => true end
    | _ => false
    end.

  (* len(string) of Go: bytes of the UTF-8 encoding *)
  Definition utf8_len (s : text) : nat :=
    fold_right (fun (c : N) (n : nat) =>
                  ((if (c <? 128)%N then 1 else if (c <? 2048)%N then 2 else if (c <? 65536)%N then 3 else 4) + n)%nat) O s.

  (* legacyVisitor.Visit with maxLength: a migrated (sub)expression longer than the limit is replaced by "0" and the
     error is remembered.  The replacement only matters for what is then thrown away; the error is raised exactly when
     some subexpression migrates (without any replacement below it) to more than the limit. *)
  Fixpoint too_long (mx : nat) (e : e1) : bool :=
    Nat.ltb mx (utf8_len (visit e)) ||
    match e with
    | E1Paren x => too_long mx x
    | E1Neg x => too_long mx x
    | E1Bin _ a b => too_long mx a || too_long mx b
    | E1Call _ args => existsb (too_long mx) args
    | _ => false
    end.

  (* maxMigratedGrowth * len(expression) + maxMigratedSlack (constants regenerated in gen/LegacyTable.v) *)
  Definition max_migrated_length (expression : text) : nat :=
    (max_migrated_growth * utf8_len expression + max_migrated_slack)%nat.

  (* checkExpressionSize over the token list (the stream includes the EOF token): at most maxExpressionTokens tokens;
     nesting = open parentheses + the unary minuses still waiting for their operand at each level *)
  Fixpoint size_loop (ts : list tok) (pending : list nat) : bool :=
    match ts with
    | [] => true
    | t :: r =>
        let pending' :=
          match t, pending with
          | TLParen, _ => O :: pending
          | TRParen, _ :: p2 :: rest => p2 :: rest
          | TRParen, [_] => [O]
          | TComma, _ :: rest => O :: rest
          | TOp OSub, p :: rest => S p :: rest
          | _, _ => pending
          end in
        if Nat.ltb max_expression_nesting (Nat.pred (length pending') + list_sum pending') then false
        else size_loop r pending'
    end.

  Definition expression_size_ok (expression : text) : bool :=
    let ts := lex1 expression in
    negb (Nat.ltb max_expression_tokens (S (length ts))) && size_loop ts [O].

  (* migrateExpression: None = the legacy parser reported a syntax error *)
  Definition migrate_expression (expression : text) : option text :=
    if negb (expression_size_ok expression) then None
    else
      match parse1 expression with
      | Some e =>
          if visit_errs e || too_long (max_migrated_length expression) e then None
          else
            (* the migrated expression must be accepted by the new parser (its depth limit MaxParseDepth is not modelled:
               gen/LegacyTable.v max_parse_depth is recorded only) *)
            match parse3 (visit e) with
            | Some _ => Some (visit e)
            | None => None
            end
      | None => None
      end.

  (* ---- template level ---- *)

  Variable default_to_self : bool.     (* options.DefaultToSelf *)
  Variable url_encode : bool.          (* options.URLEncode *)
  Variable printable : N -> bool.      (* unicode.IsPrint, used by strconv.Quote *)
  Variable isln : N -> bool.           (* unicode.IsLetter(ch) || unicode.IsNumber(ch), used by the template scanner *)
  Variable lower_rune : N -> N.        (* unicode.ToLower, used by the template scanner *)

  (* identifierRegex ^\pL+[\pL\pN_.]*$ and the top-level test of isValidIdentifier.
     \pL and \pN are approximated by the grammar's UnicodeLetter / UnicodeDigit classes *)
  Definition is_valid_identifier (e : text) : bool :=
    match e with
    | [] => false
    | c :: r =>
        uletter c && forallb name_char1 r
        && existsb (fun top => text_eqb e top || is_prefix (top ++ [46]) e) run_top_levels
    end.

  (* wrapRawExpression *)
  Definition wrap_raw (expression error_as : text) : text :=
    let e1 := match error_as with
              | [] => expression
              | _ => t_if_is_error ++ expression ++ t_close_comma ++ quote printable error_as
                     ++ comma_space ++ expression ++ [41]
              end in
    let e2 := if url_encode then wrap e1 t_url_encode else e1 in
    let e3 := if is_valid_identifier e2 then e2 else 40 :: e2 ++ [41] in
    64 :: e3.

  (* separateFrom: NewXScanner(wrapped + following, RunContextTopLevels).Scan() must give back the identifier *)
  Definition separate_from (wrapped following : text) : text :=
    if negb separates_identifiers then wrapped
    else if is_prefix [64; 40] wrapped then wrapped
    else
      match ExScanner.scan isln lower_rune (Some run_top_levels) true (ExScanner.new_input (wrapped ++ following)) with
      | ExScanner.Ok (ExScanner.IDENTIFIER, tok, _) =>
          if text_eqb tok (tl wrapped) then wrapped else 64 :: 40 :: tl wrapped ++ [41]
      | _ => 64 :: 40 :: tl wrapped ++ [41]
      end.

  (* tokens of excellent.NewXScanner(template, ContextTopLevels) with SetUnescapeBody(false) *)
  Inductive seg :=
  | SBody (t : text)
  | SIdent (t : text)
  | SExpr (t : text).

  Definition t_empty_literal : text := [34; 34].

  (* one iteration of the loop of migrateLegacyTemplateAsString: text written to buf, error recorded?
     [following] is the text of the next token when that is a body token, else empty *)
  Definition migrate_seg (s : seg) (following : text) : text * bool :=
    match s with
    | SBody t => (t, false)
    | SIdent t =>
        (separate_from (wrap_raw (ctxmap t) (if default_to_self then 64 :: t else [])) following, false)
    | SExpr t =>
        if text_eqb t t_empty_literal then ([], false)
        else
          match migrate_expression t with
          | None => (64 :: 40 :: t ++ [41], true)
          | Some v => (separate_from (wrap_raw v (if default_to_self then 64 :: 40 :: t ++ [41] else [])) following, false)
          end
    end.

  (* the text directly after a token, i.e. after any @("") tokens, which are removed *)
  Fixpoint following_of (rest : list seg) : text :=
    match rest with
    | SBody t :: _ => t
    | SExpr t :: r => if text_eqb t t_empty_literal then following_of r else []
    | _ => []
    end.

  (* MigrateTemplate: output and whether an error is returned *)
  Fixpoint migrate_template (segs : list seg) : text * bool :=
    match segs with
    | [] => ([], false)
    | s :: r =>
        let (o, e) := migrate_seg s (following_of r) in
        let (o', e') := migrate_template r in
        (o ++ o', e || e')
    end.
End Visitor.
