(* CqlEval.v — model of contact query validation, simplification and evaluation (property C15).

   Transcribed from /repo:
     contactql/parser.go     Condition.validate, Condition.resolveValueType, ValueAsNumber,
                             (with its exponent bound), BoolCombination.validate, Condition.Simplify, BoolCombination.Simplify,
                             tokenizeNameValue
     contactql/visitor.go    the `attributes` table
     contactql/evaluator.go  EvaluateQuery, evaluateNode, evaluateBoolCombination, evaluateCondition,
                             evaluateConditionWithValue, textComparison, numberComparison, dateComparison,
                             tokenizedPrefixMatch
     flows/contact.go        Contact.QueryProperty
     flows/field.go          FieldValue.QueryValue
     envs/locations.go       LocationPath.Name
     gocommon dates.DayToUTCRange (the `+ 24h` half), shopspring decimal.NewFromString / Cmp

   Strings are lists of code points.  Instants are integers (nanoseconds since the Unix epoch).
   Decimals are mantissa * 10^exponent, compared exactly.

   What is external (a field of [env] / [resolver], universally quantified in every theorem and filled
   from the real functions by the harness in the correspondence run):
     e_lower      unicode.ToLower on one code point (strings.ToLower maps it over the string)
     e_tokens     utils.TokenizeStringByUnicodeSeg (the blevesearch word segmenter)
     e_day_start  Condition.ValueAsDate (envs.DateTimeFromString) followed by the first component of
                  dates.DayToUTCRange, i.e. time.Date(y, m, d, 0,0,0,0, loc) of the parsed value
     e_valid_lang i18n.ParseLanguage succeeds
     r_field / r_group / r_flow   the Resolver

   Go type assertions [val.(decimal.Decimal)], [val.(time.Time)], [val.(string)] and the `default: panic`
   branches of the three comparison functions are explicit: they yield [Panic].  No proofs in this file. *)
From Coq Require Import List NArith ZArith Bool.
Import ListNotations.

Definition text := list N.

Fixpoint text_eqb (a b : text) : bool :=
  match a, b with
  | [], [] => true
  | x :: a', y :: b' => N.eqb x y && text_eqb a' b'
  | _, _ => false
  end.

(* ---- syntax (contactql/parser.go) ------------------------------------------------------------ *)

Inductive ptype := PAttr | PUrn | PField.
Inductive cop := OpEq | OpNe | OpContains | OpGt | OpLt | OpGe | OpLe.
Inductive bop := BAnd | BOr.
(* assets.FieldType; FOther = any other non-empty type string *)
Inductive ftype := FText | FNumber | FDatetime | FState | FDistrict | FWard | FOther.

Inductive node :=
| Cond (pt : ptype) (key : text) (o : cop) (v : text)
| Comb (b : bop) (children : list node).

Definition bop_eqb (a b : bop) : bool :=
  match a, b with BAnd, BAnd => true | BOr, BOr => true | _, _ => false end.

Definition is_attr (pt : ptype) : bool := match pt with PAttr => true | _ => false end.
Definition is_urn (pt : ptype) : bool := match pt with PUrn => true | _ => false end.

(* ---- attribute table (contactql/visitor.go) --------------------------------------------------- *)

Definition k_uuid : text := [117; 117; 105; 100]%N.
Definition k_id : text := [105; 100]%N.
Definition k_name : text := [110; 97; 109; 101]%N.
Definition k_status : text := [115; 116; 97; 116; 117; 115]%N.
Definition k_language : text := [108; 97; 110; 103; 117; 97; 103; 101]%N.
Definition k_urn : text := [117; 114; 110]%N.
Definition k_group : text := [103; 114; 111; 117; 112]%N.
Definition k_flow : text := [102; 108; 111; 119]%N.
Definition k_history : text := [104; 105; 115; 116; 111; 114; 121]%N.
Definition k_tickets : text := [116; 105; 99; 107; 101; 116; 115]%N.
Definition k_created_on : text := [99; 114; 101; 97; 116; 101; 100; 95; 111; 110]%N.
Definition k_last_seen_on : text := [108; 97; 115; 116; 95; 115; 101; 101; 110; 95; 111; 110]%N.
Definition k_active : text := [97; 99; 116; 105; 118; 101]%N.
Definition k_blocked : text := [98; 108; 111; 99; 107; 101; 100]%N.
Definition k_stopped : text := [115; 116; 111; 112; 112; 101; 100]%N.
Definition k_archived : text := [97; 114; 99; 104; 105; 118; 101; 100]%N.

Definition text_in (s : text) (l : list text) : bool := existsb (text_eqb s) l.

(* attributes[key]; None = the zero value "" of a missing map key *)
Definition attr_type (key : text) : option ftype :=
  if text_in key [k_uuid; k_id; k_name; k_status; k_language; k_urn; k_group; k_flow; k_history]
  then Some FText
  else if text_eqb key k_tickets then Some FNumber
  else if text_in key [k_created_on; k_last_seen_on] then Some FDatetime
  else None.

(* ---- environment and resolver ------------------------------------------------------------------ *)

Record env := {
  e_lower : N -> N;
  e_tokens : text -> list text;
  e_day_start : text -> option Z;
  e_valid_lang : text -> bool
}.

Record resolver := {
  r_field : text -> option ftype;
  r_group : text -> bool;
  r_flow : text -> bool
}.

(* Condition.resolveValueType *)
Definition resolve_value_type (r : resolver) (pt : ptype) (key : text) : option ftype :=
  match pt with
  | PAttr => attr_type key
  | PUrn => Some FText
  | PField => r_field r key
  end.

(* ---- strings ------------------------------------------------------------------------------------ *)

(* unicode.IsSpace *)
Definition is_space (c : N) : bool :=
  ((9 <=? c) && (c <=? 13) || (c =? 32) || (c =? 133) || (c =? 160) || (c =? 5760)
   || (8192 <=? c) && (c <=? 8202) || (c =? 8232) || (c =? 8233) || (c =? 8239) || (c =? 8287)
   || (c =? 12288))%N.

Fixpoint trim_left (s : text) : text :=
  match s with
  | c :: r => if is_space c then trim_left r else s
  | [] => []
  end.

(* strings.TrimSpace *)
Definition trim (s : text) : text := rev (trim_left (rev (trim_left s))).

(* strings.ToLower *)
Definition lower (e : env) (s : text) : text := map (e_lower e) s.

(* number of bytes of the UTF-8 encoding (Go's len on strings) *)
Definition utf8_len1 (c : N) : N :=
  (if c <? 128 then 1 else if c <? 2048 then 2 else if c <? 65536 then 3 else 4)%N.
Definition utf8_len (s : text) : N := fold_right (fun c n => (utf8_len1 c + n)%N) 0%N s.

Fixpoint is_prefix (p s : text) : bool :=
  match p, s with
  | [], _ => true
  | x :: p', y :: s' => N.eqb x y && is_prefix p' s'
  | _ :: _, [] => false
  end.

(* strings.Contains (on valid UTF-8 a byte-level match is a code-point-level match) *)
Fixpoint contains (h n : text) : bool :=
  is_prefix n h || match h with [] => false | _ :: r => contains r n end.

(* tokenizeNameValue: segmenter tokens of at least minNameTokenContainsLength = 2 bytes *)
Definition name_tokens (e : env) (s : text) : list text :=
  filter (fun t => (2 <=? utf8_len t)%N) (e_tokens e s).

(* tokenizedPrefixMatch with length 8; stringsx.Truncate cuts at code points *)
Definition tokenized_prefix_match (e : env) (o q : text) : bool :=
  existsb (fun ot => existsb (fun qt => is_prefix (firstn 8 qt) (firstn 8 ot)) (name_tokens e q))
          (name_tokens e o).

(* ---- decimals ----------------------------------------------------------------------------------- *)

Record dec := { d_m : Z; d_e : Z }.
Definition dec_zero : dec := {| d_m := 0; d_e := 0 |}.

(* Decimal.Cmp: rescale both to the smaller exponent, compare the coefficients *)
Definition dec_compare (a b : dec) : comparison :=
  let e := Z.min (d_e a) (d_e b) in
  Z.compare (d_m a * 10 ^ (d_e a - e)) (d_m b * 10 ^ (d_e b - e)).

Definition is_digit (c : N) : bool := ((48 <=? c) && (c <=? 57))%N.

Fixpoint digits_val (acc : Z) (s : text) : option Z :=
  match s with
  | [] => Some acc
  | c :: r => if is_digit c then digits_val (acc * 10 + Z.of_N (c - 48)) r else None
  end.

(* strconv.ParseInt(s, 10, _) / big.Int.SetString(s, 10) without the range check: sign? digit+ *)
Definition parse_int (s : text) : option Z :=
  match s with
  | [] => None
  | c :: r =>
      if (c =? 43)%N then match r with [] => None | _ => digits_val 0 r end
      else if (c =? 45)%N then match r with [] => None | _ => option_map Z.opp (digits_val 0 r) end
      else digits_val 0 s
  end.

(* split at the first code point satisfying p: (before, Some after) or (s, None) *)
Fixpoint split_first (p : N -> bool) (s : text) : text * option text :=
  match s with
  | [] => ([], None)
  | c :: r => if p c then ([], Some r)
              else let '(a, b) := split_first p r in (c :: a, b)
  end.

Definition int32_ok (z : Z) : bool := ((-2147483648 <=? z) && (z <=? 2147483647))%Z.

(* decimal.NewFromString *)
Definition parse_dec (s : text) : option dec :=
  let '(mant, ex) := split_first (fun c => (c =? 69) || (c =? 101))%N s in
  let exp1 := match ex with
              | None => Some 0%Z
              | Some es => match parse_int es with
                           | Some z => if int32_ok z then Some z else None
                           | None => None
                           end
              end in
  match exp1 with
  | None => None
  | Some e1 =>
      let '(ip, fp) := split_first (fun c => (c =? 46)%N) mant in
      let frac := match fp with None => [] | Some f => f end in
      if existsb (fun c => (c =? 46)%N) frac then None   (* too many .s *)
      else match parse_int (ip ++ frac) with
           | None => None
           | Some m =>
               let e := (e1 - Z.of_nat (length frac))%Z in
               if int32_ok e then Some {| d_m := m; d_e := e |} else None
           end
  end.

(* ---- values supplied by a Queryable -------------------------------------------------------------- *)

Inductive qval := VText (s : text) | VNum (d : dec) | VTime (t : Z).

Inductive res := RBool (b : bool) | Panic.

(* textComparison *)
Definition text_cmp (e : env) (obj : text) (o : cop) (q : text) (is_name : bool) : res :=
  let obj := trim (lower e obj) in
  let q := trim (lower e q) in
  match o with
  | OpEq => RBool (text_eqb obj q)
  | OpNe => RBool (negb (text_eqb obj q))
  | OpContains => RBool (if is_name then tokenized_prefix_match e obj q else contains obj q)
  | _ => Panic
  end.

(* numberComparison *)
Definition number_cmp (obj : dec) (o : cop) (q : dec) : res :=
  let c := dec_compare obj q in
  match o with
  | OpEq => RBool (match c with Eq => true | _ => false end)
  | OpNe => RBool (negb (match c with Eq => true | _ => false end))
  | OpGt => RBool (match c with Gt => true | _ => false end)
  | OpGe => RBool (match c with Lt => false | _ => true end)
  | OpLt => RBool (match c with Lt => true | _ => false end)
  | OpLe => RBool (match c with Gt => false | _ => true end)
  | OpContains => Panic
  end.

Definition day_ns : Z := 86400000000000.

(* the zero time.Time (ValueAsDate's result on error): 0001-01-01T00:00:00Z *)
Definition zero_time : Z := -62135596800000000000.

(* dateComparison; [start] is utcDayStart, utcDayEnd = start + 24h (dates.DayToUTCRange) *)
Definition date_cmp (t : Z) (o : cop) (start : Z) : res :=
  let en := (start + day_ns)%Z in
  let on_day := (((t =? start) || (start <? t)) && (t <? en))%Z in
  match o with
  | OpEq => RBool on_day
  | OpNe => RBool (negb on_day)
  | OpGt => RBool ((en <? t) || (t =? en))%Z
  | OpGe => RBool ((start <? t) || (t =? start))%Z
  | OpLt => RBool (t <? start)%Z
  | OpLe => RBool (t <? en)%Z
  | OpContains => Panic
  end.

(* Condition.ValueAsNumber: decimal.NewFromString, then the exponent must lie within +-maxNumberValueExponent
   (comparing decimals rescales them with big.Int at a cost of 10^|exponent difference|; the model's Z arithmetic does
   not show that cost, the bound is what keeps it small) *)
Definition max_number_value_exponent : Z := 1000.

Definition value_number (v : text) : option dec :=
  match parse_dec v with
  | Some d => if ((d_e d <? - max_number_value_exponent) || (max_number_value_exponent <? d_e d))%Z then None else Some d
  | None => None
  end.

(* excellent/types/number.go XNumber.UnmarshalJSON (fixes 4759c25, a7d1df4): a stored contact number is read iff its
   decimal exponent lies within +-max(1000, length of the stored JSON text) *)
Definition stored_number_ok (len : N) (ex : Z) : bool :=
  let lim := Z.max max_number_value_exponent (Z.of_N len) in ((- lim <=? ex) && (ex <=? lim))%Z.

(* `asNumber, _ := c.ValueAsNumber()`: the zero decimal on error *)
Definition value_as_number (v : text) : dec :=
  match value_number v with Some d => d | None => dec_zero end.

Definition value_day_start (e : env) (v : text) : Z :=
  match e_day_start e v with Some s => s | None => zero_time end.

(* evaluateConditionWithValue *)
Definition eval_cond_value (e : env) (r : resolver) (pt : ptype) (key : text) (o : cop) (v : text)
                           (val : qval) : res :=
  match resolve_value_type r pt key with
  | Some FNumber =>
      match val with VNum d => number_cmp d o (value_as_number v) | _ => Panic end
  | Some FDatetime =>
      match val with VTime t => date_cmp t o (value_day_start e v) | _ => Panic end
  | _ =>
      match val with VText s => text_cmp e s o v (text_eqb key k_name) | _ => Panic end
  end.

(* the loop of evaluateCondition: every value is evaluated (no early exit); (anyTrue, allTrue) *)
Fixpoint eval_values (rs : list res) : option (bool * bool) :=
  match rs with
  | [] => Some (false, true)
  | Panic :: _ => None
  | RBool b :: rest =>
      match eval_values rest with
      | None => None
      | Some (a, l) => Some (b || a, b && l)
      end
  end.

Definition is_eq (o : cop) : bool := match o with OpEq => true | _ => false end.
Definition is_ne (o : cop) : bool := match o with OpNe => true | _ => false end.
Definition is_nil (s : text) : bool := match s with [] => true | _ => false end.

Definition no_vals (l : list qval) : bool := match l with [] => true | _ => false end.

(* evaluateCondition; [qp] is Queryable.QueryProperty *)
Definition eval_cond (e : env) (r : resolver) (qp : ptype -> text -> list qval)
                     (pt : ptype) (key : text) (o : cop) (v : text) : res :=
  let vals := qp pt key in
  if is_nil v && is_eq o then RBool (no_vals vals)
  else if is_nil v && is_ne o then RBool (negb (no_vals vals))
  else
    match eval_values (map (eval_cond_value e r pt key o v) vals) with
    | None => Panic
    | Some (any_true, all_true) => RBool (if is_ne o then all_true else any_true)
    end.

(* evaluateBoolCombination: children left to right, stopping at the first deciding (or panicking) one *)
Fixpoint comb_res (b : bop) (rs : list res) : res :=
  match rs with
  | [] => RBool (match b with BAnd => true | BOr => false end)
  | Panic :: _ => Panic
  | RBool x :: rest =>
      match b with
      | BAnd => if x then comb_res b rest else RBool false
      | BOr => if x then RBool true else comb_res b rest
      end
  end.

(* evaluateNode.  Children to the right of a deciding child are not evaluated by the Go code; here their
   results are computed and ignored by [comb_res], which is the same thing for a pure function. *)
Fixpoint eval (e : env) (r : resolver) (qp : ptype -> text -> list qval) (q : node) : res :=
  match q with
  | Cond pt key o v => eval_cond e r qp pt key o v
  | Comb b ch => comb_res b (map (eval e r qp) ch)
  end.

(* ---- validation (contactql/parser.go, Condition.validate with a resolver) ----------------------- *)

Inductive verr :=
| EUnknownProperty | EInvalidPartialName | EInvalidPartialURN | EUnsupportedContains
| EUnsupportedComparison | EUnsupportedSetCheck | EInvalidNumber | EInvalidDate
| EInvalidGroup | EInvalidFlow | EInvalidStatus | EInvalidLanguage.

Definition is_num_or_date (t : ftype) : bool :=
  match t with FNumber | FDatetime => true | _ => false end.

Definition validate_cond (e : env) (r : resolver) (pt : ptype) (key : text) (o : cop) (v : text)
  : option verr :=
  match resolve_value_type r pt key with
  | None => Some EUnknownProperty
  | Some vt =>
      let op_check :=
        match o with
        | OpContains =>
            if is_attr pt && text_eqb key k_name then
              (match name_tokens e v with [] => Some EInvalidPartialName | _ => None end)
            else if (is_attr pt && text_eqb key k_urn) || is_urn pt then
              (if (utf8_len v <? 3)%N then Some EInvalidPartialURN else None)
            else Some EUnsupportedContains
        | OpGt | OpGe | OpLt | OpLe =>
            if is_num_or_date vt then None else Some EUnsupportedComparison
        | _ => None
        end in
      match op_check with
      | Some er => Some er
      | None =>
          if (is_eq o || is_ne o) && is_nil v then
            (if text_in key [k_uuid; k_id; k_status; k_created_on; k_tickets]
             then Some EUnsupportedSetCheck else None)
          else
            let type_check :=
              match vt with
              | FNumber => match value_number v with None => Some EInvalidNumber | Some _ => None end
              | FDatetime => match e_day_start e v with None => Some EInvalidDate | Some _ => None end
              | _ => None
              end in
            match type_check with
            | Some er => Some er
            | None =>
                if is_attr pt then
                  if text_eqb key k_group then
                    (if r_group r v then None else Some EInvalidGroup)
                  else if text_eqb key k_flow || text_eqb key k_history then
                    (if r_flow r v then None else Some EInvalidFlow)
                  else if text_eqb key k_status then
                    (if text_in (lower e v) [k_active; k_blocked; k_stopped; k_archived]
                     then None else Some EInvalidStatus)
                  else if text_eqb key k_language then
                    (if is_nil v then None
                     else if e_valid_lang e v then None else Some EInvalidLanguage)
                  else None
                else None
            end
      end
  end.

Fixpoint first_some {A} (l : list (option A)) : option A :=
  match l with
  | [] => None
  | Some x :: _ => Some x
  | None :: r => first_some r
  end.

(* QueryNode.validate: the first error in document order *)
Fixpoint validate (e : env) (r : resolver) (q : node) : option verr :=
  match q with
  | Cond pt key o v => validate_cond e r pt key o v
  | Comb _ ch => first_some (map (validate e r) ch)
  end.

(* ---- simplification (BoolCombination.Simplify); None = the nil node ------------------------------ *)

Fixpoint keep_some {A} (l : list (option A)) : list A :=
  match l with
  | [] => []
  | Some x :: r => x :: keep_some r
  | None :: r => keep_some r
  end.

Definition promote (b : bop) (c : node) : list node :=
  match c with
  | Comb b' gc => if bop_eqb b' b then gc else [c]
  | Cond _ _ _ _ => [c]
  end.

Definition finish (b : bop) (nc : list node) : option node :=
  match nc with
  | [] => None
  | [x] => Some x
  | _ => Some (Comb b nc)
  end.

Fixpoint simplify (q : node) : option node :=
  match q with
  | Cond _ _ _ _ => Some q
  | Comb b ch => finish b (flat_map (promote b) (keep_some (map simplify ch)))
  end.

(* EvaluateQuery on a possibly nil root: evaluateNode's default branch panics on nil *)
Definition eval_root (e : env) (r : resolver) (qp : ptype -> text -> list qval) (q : option node) : res :=
  match q with Some n => eval e r qp n | None => Panic end.

(* ---- contacts (flows/contact.go QueryProperty, flows/field.go QueryValue) ----------------------- *)

Record fvalue := {
  fv_text : text;
  fv_num : option dec;
  fv_dt : option Z;
  fv_state : text;      (* location paths; "" = unset *)
  fv_district : text;
  fv_ward : text
}.

Record contact := {
  c_uuid : text;
  c_name : text;
  c_lang : text;
  c_urns : list (text * text);            (* scheme, path *)
  c_ticket : bool;
  c_created : Z;
  c_last_seen : option Z;
  c_fields : list (text * (ftype * fvalue)); (* non-nil entries of Contact.fields: key -> (field.Type(), value) *)
  c_groups : list text                      (* names of the groups the contact is in; Contact.QueryProperty does NOT look at them *)
}.

Fixpoint assoc {A} (k : text) (l : list (text * A)) : option A :=
  match l with
  | [] => None
  | (k', x) :: r => if text_eqb k k' then Some x else assoc k r
  end.

(* the part after the last '>' (strings.Split then last element) *)
Fixpoint last_part (cur : text) (s : text) : text :=
  match s with
  | [] => rev cur
  | c :: r => if (c =? 62)%N then last_part [] r else last_part (c :: cur) r
  end.

(* LocationPath.Name *)
Definition location_name (p : text) : text := trim (last_part [] p).

(* FieldValue.QueryValue *)
Definition query_value (ft : ftype) (fv : fvalue) : option qval :=
  match ft with
  | FText => Some (VText (fv_text fv))
  | FDatetime => option_map VTime (fv_dt fv)
  | FNumber => option_map VNum (fv_num fv)
  | FState => if is_nil (fv_state fv) then None else Some (VText (location_name (fv_state fv)))
  | FDistrict => if is_nil (fv_district fv) then None else Some (VText (location_name (fv_district fv)))
  | FWard => if is_nil (fv_ward fv) then None else Some (VText (location_name (fv_ward fv)))
  | FOther => None
  end.

(* Contact.QueryProperty *)
Definition query_property (c : contact) (pt : ptype) (key : text) : list qval :=
  match pt with
  | PAttr =>
      if text_eqb key k_uuid then [VText (c_uuid c)]
      else if text_eqb key k_name then (if is_nil (c_name c) then [] else [VText (c_name c)])
      else if text_eqb key k_language then (if is_nil (c_lang c) then [] else [VText (c_lang c)])
      else if text_eqb key k_urn then map (fun u => VText (snd u)) (c_urns c)
      else if text_eqb key k_tickets then
        [VNum {| d_m := if c_ticket c then 1 else 0; d_e := 0 |}]
      else if text_eqb key k_created_on then [VTime (c_created c)]
      else if text_eqb key k_last_seen_on then
        (match c_last_seen c with Some t => [VTime t] | None => [] end)
      else []
  | PUrn =>
      map (fun u => VText (snd u)) (filter (fun u => text_eqb (fst u) key) (c_urns c))
  | PField =>
      match assoc key (c_fields c) with
      | None => []
      | Some (ft, fv) => match query_value ft fv with Some x => [x] | None => [] end
      end
  end.

(* contactql.EvaluateQuery(env, query, contact) *)
Definition eval_contact (e : env) (r : resolver) (q : node) (c : contact) : res :=
  eval e r (query_property c) q.
