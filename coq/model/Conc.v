(* Conc.v -- model for property C09 (sessions can run concurrently over shared assets).  Definitions only;
   proofs are in proofs/Conc*.v.

   Part 1  the vocabulary of gen/SharedState.v (written by translators/cmd/sharedstate from the goflow working tree
           on every run): lock discipline of every type with a mutex, writes to package-level variables, writes to
           fields of types that several sessions can reach, package-level variables of lazily initialised types.
   Part 2  the access discipline computed from those tables (with the committed lists of model/SharedStateAllow.v):
           is the flow cache locked, are there shared lazily initialised objects, are shared definitions written
           after they were loaded.
   Part 3  threads as lists of steps over a shared store, all interleavings, an instrumented semantics that records
           happens-before knowledge (program order + unlock -> later lock, as in the Go memory model) and reports a
           data race whenever two conflicting accesses are not ordered by it.
           What the steps stand for in goflow:
             OGet u      flowAssets.Get / FindByName (flows/definition/assets.go): lock; look u up in the cache; on a miss
                         load (read, migrate, validate = write the new definition object) and store it; unlock.
                         When the table says the lock is missing: the same steps without the lock.
             ORead u     any read of a loaded definition (nodes, routers, localization, Group.parsedQuery ...); needs
                         the pointer, which only OGet hands out
             OLazy o     XObject.ensureInitialized / XArray.values on an object shared between goroutines:
                         read the guard field, write it when unset (no synchronisation in the code)
             OWriteDef u a write to a field of a loaded definition (caching something at first use, ...)
   The session itself (runs, contact, events) is private to its goroutine and does not appear. *)
From Coq Require Import List String NArith Bool Arith.
Import ListNotations.

(* ================================================================================================ *)
(** * Part 1: tables *)

Inductive lock_kind := LkNone | LkLock | LkRLock | LkHeld.

Record mutex_method := {
  mm_pkg : string; mm_type : string; mm_method : string;
  mm_touches : bool;        (* reads or writes a field of the receiver that is mutated after construction *)
  mm_writes : bool;         (* writes such a field *)
  mm_lock : lock_kind;      (* first statement: recv.mu.Lock() / RLock(); LkHeld: an unexported helper of the object that is only
                               called by the object's own methods, each holding the lock at the call *)
  mm_defer_unlock : bool;   (* second statement: defer recv.mu.Unlock() / RUnlock() *)
  mm_reads_locked : bool;   (* every read of guarded state happens with the shared or the exclusive lock held: by the method
                               itself (statements between Lock/RLock and Unlock/RUnlock or after Lock; defer Unlock) or, in a
                               helper, by all of its callers *)
  mm_writes_locked : bool   (* every write of guarded state happens with the EXCLUSIVE lock held *)
}.

Inductive gwkind := GwAssign | GwIndex | GwField | GwAppend | GwDelete | GwDeref | GwIncr | GwMethod | GwAddr.

Record global_write := {
  gw_pkg : string; gw_func : string; gw_var : string; gw_kind : gwkind;
  gw_in_once : bool;        (* inside a closure passed to sync.Once.Do *)
  gw_nil_guard : bool;      (* inside `if v == nil` / `len(v) == 0`: lazy initialisation *)
  gw_init_only : bool;      (* every static caller chain of the writing function starts in an init() *)
  gw_exported : bool        (* the writing function is exported: the embedding application can call it *)
}.

Inductive root_kind := RtRecv | RtParam | RtGlobal | RtOther.

(* why the writing function counts as constructing the object it writes *)
Inductive ctor_kind :=
| CkNone
| CkUnmarshal   (* the JSON decoding hook UnmarshalJSON / UnmarshalText of the written object *)
| CkNamed       (* a plain function named like a constructor / reader / migration (New*, Read*, parse*, Migrate* ...) *)
| CkHelper.     (* unexported, and every static caller chain starts in a constructor-like function *)

Record field_write := {
  fw_pkg : string; fw_func : string; fw_type : string; fw_field : string;
  fw_root : root_kind;
  fw_ctor : ctor_kind;
  fw_under_lock : bool;     (* method that starts with recv.mu.Lock(); defer recv.mu.Unlock() *)
  fw_nil_guard : bool;      (* guarded by a nil check of the written field: lazy initialisation *)
  fw_in_once : bool
}.

(* a method (own or promoted from an embedded type) that writes fields of its receiver after construction *)
Record mutator := {
  mu_name : string;
  mu_lazy : bool;           (* a lazy initialiser: every write nil-guarded, or only called from constructors and from inside
                               `if recv.f == nil { recv.M(..) }` *)
  mu_callers : nat          (* functions of the library that reference it *)
}.

Record shared_var := {
  sv_pkg : string; sv_var : string; sv_type : string; sv_ctor : string;
  sv_eager : bool;          (* the constructor leaves every lazily guarded field set *)
  sv_mutators : list mutator
}.

(* ================================================================================================ *)
(** * Part 2: the discipline *)

Record allow_lists := {
  al_private_types : list string;                        (* types whose instances belong to one session / one builder *)
  al_field_writes : list (string * string);              (* (package, function): reviewed writes to shared types *)
  al_global_writes : list (string * string);             (* (package, function): reviewed writes to package-level variables *)
  al_mutators : list (string * string)                   (* (type of a package-level instance, mutating method): reviewed *)
}.

Definition mem_str (s : string) (l : list string) : bool := existsb (String.eqb s) l.

Definition mem_pair (p f : string) (l : list (string * string)) : bool :=
  existsb (fun x => String.eqb p (fst x) && String.eqb f (snd x)) l.

(* a method that touches guarded state reads it under the shared or exclusive lock and writes it under the exclusive lock only *)
Definition mutex_method_ok (m : mutex_method) : bool :=
  negb (mm_touches m) || (mm_reads_locked m && mm_writes_locked m).

Definition is_method (pkg ty name : string) (m : mutex_method) : bool :=
  String.eqb (mm_pkg m) pkg && String.eqb (mm_type m) ty && String.eqb (mm_method m) name.

(* the flow cache: flowAssets.Get and flowAssets.FindByName exist, touch the cache, and every method of every type
   with a mutex is disciplined *)
Definition locked_cache (ms : list mutex_method) : bool :=
  existsb (fun m => is_method "flows/definition" "flowAssets" "Get" m && mm_touches m) ms &&
  existsb (fun m => is_method "flows/definition" "flowAssets" "FindByName" m && mm_touches m) ms &&
  forallb mutex_method_ok ms.

(* writes to package-level variables: synchronised by sync.Once; or start-up registration reachable only from
   init() and not exported; or reviewed *)
Definition global_write_ok (al : allow_lists) (w : global_write) : bool :=
  gw_in_once w ||
  (gw_init_only w && negb (gw_exported w) && negb (gw_nil_guard w)) ||
  mem_pair (gw_pkg w) (gw_func w) (al_global_writes al).

(* a package-level instance of a type with mutating methods: built eagerly, and every such method is a lazy initialiser
   (a no-op on an eagerly built value), has no caller in the library, or is reviewed *)
Definition shared_var_ok (al : allow_lists) (v : shared_var) : bool :=
  sv_eager v &&
  forallb (fun m => mu_lazy m || Nat.eqb (mu_callers m) 0 || mem_pair (sv_type v) (mu_name m) (al_mutators al)) (sv_mutators v).

(* writes to fields of shared types: while the object is under construction, or under the owner's mutex, or the type
   is private to one session, or reviewed *)
(* construction, structurally: never a nil-guarded (lazy) write; the decoding hook writes its own receiver (or what it
   just obtained); a function that is a constructor by NAME only counts for objects it obtained itself (not for its
   receiver or parameters: `func parseQuery(g *Group) { g.parsed = .. }` called at first use is not construction);
   an unexported helper counts when every caller chain starts in a constructor-like function *)
Definition ctor_write_ok (w : field_write) : bool :=
  negb (fw_nil_guard w) &&
  match fw_ctor w, fw_root w with
  | CkUnmarshal, (RtRecv | RtOther) => true
  | CkNamed, RtOther => true
  | CkHelper, (RtRecv | RtParam | RtOther) => true
  | _, _ => false
  end.

(* under the owner's mutex: the write goes through the RECEIVER of the locked method and the field belongs to the type
   that owns the mutex.  A write to some other object made inside a locked method (`flow.hits++` on a cached flow
   inside flowAssets.Get) is ordered against other holders of that mutex only, not against the sessions that read the
   object without it: MWriteDef inside MAcq..MRel against another thread's MRead (c09_def_write_refuted) *)
Definition under_lock_ok (ms : list mutex_method) (w : field_write) : bool :=
  fw_under_lock w &&
  match fw_root w with RtRecv => true | _ => false end &&
  existsb (fun m => String.eqb (fw_pkg w) (mm_pkg m) && String.eqb (fw_type w) (append (mm_pkg m) (append "." (mm_type m)))) ms.

Definition field_write_ok (al : allow_lists) (ms : list mutex_method) (w : field_write) : bool :=
  ctor_write_ok w || under_lock_ok ms w || fw_in_once w ||
  mem_str (fw_type w) (al_private_types al) ||
  mem_pair (fw_pkg w) (fw_func w) (al_field_writes al).

Record discipline := {
  d_locked : bool;               (* the flow cache is locked *)
  d_shared_lazy : list string;   (* shared lazily initialised objects / unsynchronised global writes *)
  d_def_writes : list string     (* unreviewed writes to shared definitions after load *)
}.

Definition discipline_of (al : allow_lists) (ms : list mutex_method) (gws : list global_write)
  (fws : list field_write) (svs : list shared_var) : discipline :=
  {| d_locked := locked_cache ms;
     d_shared_lazy := map (fun v => append (sv_pkg v) (append "." (sv_var v))) (filter (fun v => negb (shared_var_ok al v)) svs)
                      ++ map (fun w => append (gw_pkg w) (append "." (gw_func w))) (filter (fun w => negb (global_write_ok al w)) gws);
     d_def_writes := map (fun w => append (fw_pkg w) (append "." (append (fw_func w) (append ":" (append (fw_type w) (append "." (fw_field w)))))))
                         (filter (fun w => negb (field_write_ok al ms w)) fws) |}.

Definition discipline_ok (d : discipline) : bool :=
  d_locked d && match d_shared_lazy d with [] => true | _ => false end
             && match d_def_writes d with [] => true | _ => false end.

(* ================================================================================================ *)
(** * Part 3: threads, interleavings, happens-before *)

Inductive loc := LCache | LDef (u : nat) | LLazy (o : nat).
Inductive access := Rd (l : loc) | Wr (l : loc).
Record event := { ev_id : nat; ev_tid : nat; ev_acc : access }.

(* lock operations are events too: they carry the happens-before edges *)
Inductive sync := SAcq | SRel.
Record sevent := { se_id : nat; se_tid : nat; se_kind : sync }.

Inductive op :=
| OGet (u : nat)
| ORead (u : nat)
| OLazy (o : nat)
| OWriteDef (u : nat) (v : nat).

(* what the model can express for a given discipline: an operation the extracted tables rule out is not available *)
Definition op_allowed (d : discipline) (o : op) : bool :=
  match o with
  | OGet _ | ORead _ => true
  | OLazy _ => match d_shared_lazy d with [] => false | _ => true end
  | OWriteDef _ _ => match d_def_writes d with [] => false | _ => true end
  end.

Inductive micro :=
| MAcq | MRel
| MCacheRead (u : nat)        (* flow := a.cache[u] *)
| MLoad (u : nat)             (* ReadAsset: builds the definition object; a.cache[u] = flow *)
| MRead (u : nat)
| MLazyRead (o : nat)
| MLazyWrite (o : nat)
| MWriteDef (u : nat) (v : nat).

Definition compile_op (locked : bool) (o : op) : list micro :=
  match o with
  | OGet u => if locked then [MAcq; MCacheRead u; MRel] else [MCacheRead u]
  | ORead u => [MRead u]
  | OLazy o => [MLazyRead o]
  | OWriteDef u v => [MWriteDef u v]
  end.

Definition compile (locked : bool) (p : list op) : list micro := flat_map (compile_op locked) p.

Record tstate := {
  t_code : list micro;
  t_known : list nat;       (* definitions this goroutine holds a pointer to *)
  t_know : list nat;        (* events that happen-before this goroutine's next step *)
  t_out : list nat          (* what it has observed so far *)
}.

Record cfg := {
  g_next : nat;
  g_hist : list event;
  g_lockk : list nat;       (* events that happen-before the next acquisition of the mutex *)
  g_holder : option nat;
  g_cache : list nat;       (* loaded flows *)
  g_defs : list (nat * nat);(* content of the loaded definitions *)
  g_lazy : list nat;        (* initialised lazy objects *)
  g_threads : list tstate;
  g_races : list (nat * nat);
  g_sync : list sevent      (* the Lock / Unlock events, numbered from the same counter as the accesses *)
}.

Definition loc_eqb (a b : loc) : bool :=
  match a, b with
  | LCache, LCache => true
  | LDef u, LDef v => Nat.eqb u v
  | LLazy u, LLazy v => Nat.eqb u v
  | _, _ => false
  end.

Definition acc_loc (a : access) : loc := match a with Rd l | Wr l => l end.
Definition is_wr (a : access) : bool := match a with Wr _ => true | Rd _ => false end.
Definition conflicts (a b : access) : bool := loc_eqb (acc_loc a) (acc_loc b) && (is_wr a || is_wr b).
Definition mem_nat (x : nat) (l : list nat) : bool := existsb (Nat.eqb x) l.

(* an earlier event races with the access `a` of thread t when it is by another thread, conflicts, and is not known
   to happen-before t's current point *)
Definition racy_with (know : list nat) (t : nat) (a : access) (e : event) : bool :=
  negb (Nat.eqb (ev_tid e) t) && conflicts (ev_acc e) a && negb (mem_nat (ev_id e) know).

Fixpoint set_nth {A : Type} (n : nat) (x : A) (l : list A) : list A :=
  match l, n with
  | [], _ => []
  | _ :: t, O => x :: t
  | y :: t, S m => y :: set_nth m x t
  end.

Fixpoint lookup_nat (k : nat) (m : list (nat * nat)) : option nat :=
  match m with
  | [] => None
  | (k', v) :: t => if Nat.eqb k k' then Some v else lookup_nat k t
  end.

(* thread t performs access a: race check against the whole history, then the event becomes part of t's knowledge *)
Definition emit (t : nat) (a : access) (ts : tstate) (c : cfg) : tstate * cfg :=
  let id := g_next c in
  let bad := filter (racy_with (t_know ts) t a) (g_hist c) in
  ({| t_code := t_code ts; t_known := t_known ts; t_know := id :: t_know ts; t_out := t_out ts |},
   {| g_next := S id; g_hist := {| ev_id := id; ev_tid := t; ev_acc := a |} :: g_hist c;
      g_lockk := g_lockk c; g_holder := g_holder c; g_cache := g_cache c; g_defs := g_defs c; g_lazy := g_lazy c;
      g_threads := g_threads c; g_races := map (fun e => (ev_id e, id)) bad ++ g_races c; g_sync := g_sync c |}).

Definition with_code (code : list micro) (ts : tstate) : tstate :=
  {| t_code := code; t_known := t_known ts; t_know := t_know ts; t_out := t_out ts |}.

Definition put (t : nat) (ts : tstate) (c : cfg) : cfg :=
  {| g_next := g_next c; g_hist := g_hist c; g_lockk := g_lockk c; g_holder := g_holder c; g_cache := g_cache c;
     g_defs := g_defs c; g_lazy := g_lazy c; g_threads := set_nth t ts (g_threads c); g_races := g_races c; g_sync := g_sync c |}.

(* one step of thread t (no change if t does not exist, has finished, or waits for the mutex) *)
Definition step (load : nat -> nat) (t : nat) (c : cfg) : cfg :=
  match nth_error (g_threads c) t with
  | None => c
  | Some ts =>
    match t_code ts with
    | [] => c
    | MAcq :: rest =>
        match g_holder c with
        | Some _ => c
        | None =>
            let ts' := {| t_code := rest; t_known := t_known ts; t_know := g_lockk c ++ t_know ts; t_out := t_out ts |} in
            put t ts' {| g_next := S (g_next c); g_hist := g_hist c; g_lockk := g_lockk c; g_holder := Some t; g_cache := g_cache c;
                         g_defs := g_defs c; g_lazy := g_lazy c; g_threads := g_threads c; g_races := g_races c;
                         g_sync := {| se_id := g_next c; se_tid := t; se_kind := SAcq |} :: g_sync c |}
        end
    | MRel :: rest =>
        put t (with_code rest ts)
            {| g_next := S (g_next c); g_hist := g_hist c; g_lockk := t_know ts ++ g_lockk c; g_holder := None; g_cache := g_cache c;
               g_defs := g_defs c; g_lazy := g_lazy c; g_threads := g_threads c; g_races := g_races c;
               g_sync := {| se_id := g_next c; se_tid := t; se_kind := SRel |} :: g_sync c |}
    | MCacheRead u :: rest =>
        let '(ts1, c1) := emit t (Rd LCache) ts c in
        if mem_nat u (g_cache c)
        then put t {| t_code := rest; t_known := u :: t_known ts1; t_know := t_know ts1; t_out := t_out ts1 |} c1
        else put t (with_code (MLoad u :: rest) ts1) c1
    | MLoad u :: rest =>
        let '(ts1, c1) := emit t (Wr (LDef u)) ts c in
        let '(ts2, c2) := emit t (Wr LCache) ts1 c1 in
        put t {| t_code := rest; t_known := u :: t_known ts2; t_know := t_know ts2; t_out := t_out ts2 |}
            {| g_next := g_next c2; g_hist := g_hist c2; g_lockk := g_lockk c2; g_holder := g_holder c2; g_cache := u :: g_cache c2;
               g_defs := (u, load u) :: g_defs c2; g_lazy := g_lazy c2; g_threads := g_threads c2; g_races := g_races c2; g_sync := g_sync c2 |}
    | MRead u :: rest =>
        if mem_nat u (t_known ts)
        then let '(ts1, c1) := emit t (Rd (LDef u)) ts c in
             put t {| t_code := rest; t_known := t_known ts1; t_know := t_know ts1;
                      t_out := t_out ts1 ++ [match lookup_nat u (g_defs c) with Some v => v | None => 0 end] |} c1
        else put t {| t_code := rest; t_known := t_known ts; t_know := t_know ts; t_out := t_out ts ++ [0] |} c
    | MLazyRead o :: rest =>
        let '(ts1, c1) := emit t (Rd (LLazy o)) ts c in
        if mem_nat o (g_lazy c)
        then put t (with_code rest ts1) c1
        else put t (with_code (MLazyWrite o :: rest) ts1) c1
    | MLazyWrite o :: rest =>
        let '(ts1, c1) := emit t (Wr (LLazy o)) ts c in
        put t (with_code rest ts1)
            {| g_next := g_next c1; g_hist := g_hist c1; g_lockk := g_lockk c1; g_holder := g_holder c1; g_cache := g_cache c1;
               g_defs := g_defs c1; g_lazy := o :: g_lazy c1; g_threads := g_threads c1; g_races := g_races c1; g_sync := g_sync c1 |}
    | MWriteDef u v :: rest =>
        if mem_nat u (t_known ts)
        then let '(ts1, c1) := emit t (Wr (LDef u)) ts c in
             put t (with_code rest ts1)
                 {| g_next := g_next c1; g_hist := g_hist c1; g_lockk := g_lockk c1; g_holder := g_holder c1; g_cache := g_cache c1;
                    g_defs := (u, v) :: g_defs c1; g_lazy := g_lazy c1; g_threads := g_threads c1; g_races := g_races c1; g_sync := g_sync c1 |}
        else put t (with_code rest ts) c
    end
  end.

(* a schedule is any sequence of thread numbers *)
Definition run (load : nat -> nat) (sched : list nat) (c : cfg) : cfg := fold_left (fun c t => step load t c) sched c.

Definition init_thread (locked : bool) (p : list op) : tstate :=
  {| t_code := compile locked p; t_known := []; t_know := []; t_out := [] |}.

Definition init (locked : bool) (progs : list (list op)) : cfg :=
  {| g_next := 0; g_hist := []; g_lockk := []; g_holder := None; g_cache := []; g_defs := []; g_lazy := [];
     g_threads := map (init_thread locked) progs; g_races := []; g_sync := [] |}.

(* what a goroutine observes when it runs its program alone, from a cold cache *)
Fixpoint solo_out (load : nat -> nat) (p : list op) (known : list nat) : list nat :=
  match p with
  | [] => []
  | OGet u :: r => solo_out load r (u :: known)
  | ORead u :: r => (if mem_nat u known then load u else 0) :: solo_out load r known
  | OLazy _ :: r => solo_out load r known
  | OWriteDef _ _ :: r => solo_out load r known
  end.

Definition thread_out (c : cfg) (t : nat) : list nat :=
  match nth_error (g_threads c) t with Some ts => t_out ts | None => [] end.

Definition thread_done (c : cfg) (t : nat) : bool :=
  match nth_error (g_threads c) t with Some ts => match t_code ts with [] => true | _ => false end | None => true end.
