(* Inspect.v — model of goflow's static flow inspection and of the part of flow execution it has to
   over-approximate (property C20).

   Transcribed from
     flows/definition/flow.go      flow.Inspect, flow.extract, flow.extractResults, flow.extractExitsFromWaits
     flows/definition/node.go      node.EnumerateTemplates / EnumerateDependencies / EnumerateResults
     flows/inspect/reflect.go      walk over the `engine:` fields of an action struct (here: the item list of an action,
                                   in struct order, embedded structs flattened — what the reflection walk visits)
     flows/inspect/results.go      Results (ResultContainer.Results on the action)
     flows/inspect/dependencies.go Dependencies, extractAssetReferences, NewDependencies (de-duplication by type:identity)
     flows/inspect/templates.go    Templates, Translations, ExtractFromTemplate, isFieldRefPath
     flows/info.go                 NewResultInfo, NewResultSpecs (merge by key; categories merged as exact strings)
     flows/routers/base.go         baseRouter.EnumerateResults, routeToCategory, RouteTimeout
     flows/routers/switch.go       Case.Dependencies (has_group), SwitchRouter.EnumerateTemplates/EnumerateDependencies
     flows/routers/waits/dial.go   DialWait.EnumerateTemplates (the phone template; via baseRouter.EnumerateTemplates)
     flows/actions/*.go            Results() / saveResult of set_run_result, call_classifier, call_resthook, call_webhook,
                                   open_ticket, transfer_airtime; enter_flow's PushFlow
     flows/engine/session.go       visitNode, pickNodeExit, tryToResume, continueUntilWait (as the step acceptor below)
     assets/*.go                   Reference.Type / Identity / Variable
     utils/text.go                 Snakify (on validated result names), StringSliceContains
     flows/definition/localization.go  languageTranslation.getTextArray ([""] and [] are "no translation")

   Which saver action types declare results to inspection, and with which categories, is NOT hand-written:
   it is read from the source-derived table gen/ActionResults.v (sv_declares, sv_decl_cats, sv_save_cats).

   Execution is modelled as a labelled transition system in acceptor form: [step_ok A st o] says whether the
   observable step [o] (node visited, results saved on it, fixed asset references its events carry, exit left,
   whether the step was resumed from a wait) is one the engine can take from state [st]; [accepts] folds it
   over a trace.  The set of model executions is { tr | accepts A tr = true }.

   Domain restrictions (what the model does not cover): strings.EqualFold / ToLower are modelled on ASCII
   letters only; Snakify is modelled for result names the flow reader accepts ([a-zA-Z0-9_\- \t\n\f\r]{1,64},
   flows/results.go resultNameRegex); template parsing is not modelled — a template is given with the list of
   context paths tools.FindContextRefsInTemplate reports for it (filled in by the harness from the real code).

   No proofs in this file. *)
From Coq Require Import List NArith Bool String Ascii.
From Verif Require Import model.ActionRow gen.ActionResults.
Import ListNotations.
Open Scope N_scope.

(* ------------------------------------------------------------------------------------------------ *)
(* strings as code point lists *)

Definition text := list N.

Fixpoint text_eqb (a b : text) : bool :=
  match a, b with
  | [], [] => true
  | x :: a', y :: b' => N.eqb x y && text_eqb a' b'
  | _, _ => false
  end.

Definition text_empty (t : text) : bool := match t with [] => true | _ => false end.

Fixpoint text_of_string (s : string) : text :=
  match s with
  | EmptyString => []
  | String a r => N_of_ascii a :: text_of_string r
  end.

Definition lower (c : N) : N := if (65 <=? c) && (c <=? 90) then c + 32 else c.
Definition lower_text (t : text) : text := map lower t.

(* strings.EqualFold, on ASCII letters *)
Definition eq_fold (a b : text) : bool := text_eqb (lower_text a) (lower_text b).

(* utils.StringSliceContains(slice, s, false) *)
Definition contains_fold (l : list text) (c : text) : bool := existsb (eq_fold c) l.

(* utils.StringSliceContains(slice, s, true) *)
Definition contains_exact (l : list text) (c : text) : bool := existsb (text_eqb c) l.

Definition is_space (c : N) : bool :=
  (c =? 9) || (c =? 10) || (c =? 11) || (c =? 12) || (c =? 13) || (c =? 32).

(* [\p{L}\d_] restricted to ASCII *)
Definition is_word (c : N) : bool :=
  ((65 <=? c) && (c <=? 90)) || ((97 <=? c) && (c <=? 122)) || ((48 <=? c) && (c <=? 57)) || (c =? 95).

Fixpoint drop_spaces (t : text) : text :=
  match t with
  | [] => []
  | c :: r => if is_space c then drop_spaces r else t
  end.

Definition trim_space (t : text) : text := rev (drop_spaces (rev (drop_spaces t))).

(* snakedChars.ReplaceAllString(s, "_") with snakedChars = [^\p{L}\d_]+ *)
Fixpoint collapse (t : text) (in_run : bool) : text :=
  match t with
  | [] => []
  | c :: r => if is_word c then c :: collapse r false
              else if in_run then collapse r true else 95 :: collapse r true
  end.

(* utils.Snakify *)
Definition snakify (t : text) : text := lower_text (collapse (trim_space t) false).

(* flows/results.go resultNameRegex: ^[a-zA-Z0-9\-_\s]{1,64}$   (\s = [\t\n\f\r ]) *)
Definition result_name_char (c : N) : bool :=
  is_word c || (c =? 45) || (c =? 9) || (c =? 10) || (c =? 12) || (c =? 13) || (c =? 32).
Definition valid_result_name (t : text) : bool :=
  negb (text_empty t) && forallb result_name_char t && (N.of_nat (List.length t) <=? 64).

(* ------------------------------------------------------------------------------------------------ *)
(* asset references (assets/*.go) *)

Inductive akind := KChannel | KClassifier | KContact | KField | KFlow | KGlobal | KGroup | KLabel | KOptIn
                 | KTemplate | KTopic | KUser.

Definition akind_code (k : akind) : N :=
  match k with
  | KChannel => 0 | KClassifier => 1 | KContact => 2 | KField => 3 | KFlow => 4 | KGlobal => 5 | KGroup => 6
  | KLabel => 7 | KOptIn => 8 | KTemplate => 9 | KTopic => 10 | KUser => 11
  end.

(* r_id is Reference.Identity(): uuid, key (fields, globals) or email (users) *)
Record aref := { r_kind : akind; r_id : text }.

Definition aref_eqb (a b : aref) : bool :=
  N.eqb (akind_code (r_kind a)) (akind_code (r_kind b)) && text_eqb (r_id a) (r_id b).

Definition ref_in (r : aref) (l : list aref) : bool := existsb (aref_eqb r) l.

(* Reference.Variable(): group/label/user/contact references without identity are name/email matches *)
Definition ref_variable (r : aref) : bool :=
  match r_kind r with
  | KGroup | KLabel | KUser | KContact => text_empty (r_id r)
  | _ => false
  end.

(* ------------------------------------------------------------------------------------------------ *)
(* templates *)

Definition path := list text.

(* a template string together with the context paths FindContextRefsInTemplate finds in it *)
(* t_literal: the string contains no expression at all (excellent.HasExpressions is false): it evaluates to itself *)
Record tpl := { t_raw : text; t_paths : list path; t_literal : bool }.

(* an `engine:"evaluated"` field (string, []string or map[string]string: its values in order) with, when it is
   also `engine:"localized"`, the stored translations of (item uuid, field name) per language *)
Record tfield := { tf_vals : list tpl; tf_trans : list (N * list tpl) }.

(* languageTranslation.getTextArray *)
Definition norm_translation (ts : list tpl) : list tpl :=
  match ts with
  | [] => []
  | [t] => if text_empty (t_raw t) then [] else [t]
  | _ => ts
  end.

(* inspect.Templates on one field: the values, then inspect.Translations *)
Definition tfield_templates (f : tfield) : list tpl :=
  tf_vals f ++ flat_map (fun lt => norm_translation (snd lt)) (tf_trans f).

Definition s_fields := text_of_string "fields".
Definition s_contact := text_of_string "contact".
Definition s_parent := text_of_string "parent".
Definition s_child := text_of_string "child".
Definition s_globals := text_of_string "globals".
Definition s_results := text_of_string "results".

(* inspect/templates.go fieldRefPaths — read from the source by the translator (gen/ActionResults.v) *)
Definition field_ref_paths : list (list text) := map (map text_of_string) field_ref_paths_src.

(* does [p] start with [possible] (case-insensitively) followed by exactly one more segment? -> that segment, lowered *)
Fixpoint match_field_path (possible : list text) (p : path) : option text :=
  match possible, p with
  | [], [k] => Some (lower_text k)
  | q :: possible', s :: p' => if text_eqb (lower_text s) q then match_field_path possible' p' else None
  | _, _ => None
  end.

(* isFieldRefPath *)
Fixpoint is_field_ref_path_in (possibles : list (list text)) (p : path) : option text :=
  match possibles with
  | [] => None
  | q :: rest => match match_field_path q p with
                 | Some k => Some k
                 | None => is_field_ref_path_in rest p
                 end
  end.

(* ExtractFromTemplate, the asset references of one context path *)
Definition path_refs (p : path) : list aref :=
  match p with
  | p0 :: p1 :: rest =>
      if text_eqb (lower_text p0) s_globals then [ {| r_kind := KGlobal; r_id := lower_text p1 |} ]
      else if text_eqb (lower_text p0) s_parent && text_eqb (lower_text p1) s_results
              && negb (match rest with [] => true | _ => false end)
      then []     (* a parent result reference, not an asset *)
      else match is_field_ref_path_in field_ref_paths p with
           | Some k => [ {| r_kind := KField; r_id := k |} ]
           | None => []
           end
  | _ => []
  end.

Definition tpl_refs (t : tpl) : list aref := flat_map path_refs (t_paths t).

(* ------------------------------------------------------------------------------------------------ *)
(* flow definitions *)

(* what the reflection walk of flows/inspect sees of an action, in struct-field order *)
Inductive item :=
| IRef (r : aref)        (* an assets.Reference field with an identity, or one such element of a slice of references *)
| IVar (k : akind) (m : tpl)
                         (* a group / label / user reference WITHOUT identity (Variable()): its name_match /
                            email_match member (assets/group.go, label.go, user.go) is an `engine:"evaluated"` field
                            which the walk reaches by descending into the reference; the reference itself is dropped
                            by inspection.  At run time the evaluated match is looked up by name / email
                            (actions/base.go resolveGroups, resolveLabels, resolveUser) *)
| ITpl (f : tfield)      (* an `engine:"evaluated"` field *)
| ILegacy (f : tfield).  (* otherContactsAction.legacy_vars: evaluated; a value that is not a contact uuid is looked
                            up as a group name at run time (actions/base.go resolveRecipients) *)

(* action types that save a result through baseAction.saveResult under their result_name *)
Inductive saver := SvCallClassifier | SvCallResthook | SvCallWebhook | SvOpenTicket | SvTransferAirtime.

Definition all_savers : list saver :=
  [SvCallClassifier; SvCallResthook; SvCallWebhook; SvOpenTicket; SvTransferAirtime].

Definition saver_type (s : saver) : string :=
  match s with
  | SvCallClassifier => "call_classifier" | SvCallResthook => "call_resthook" | SvCallWebhook => "call_webhook"
  | SvOpenTicket => "open_ticket" | SvTransferAirtime => "transfer_airtime"
  end.

(* rows of the source-derived table *)
Definition row_of (s : saver) : option action_row := find_row action_results "action" (saver_type s).

Definition sv_declares (s : saver) : bool :=
  match row_of s with Some r => ar_declares r | None => false end.
Definition sv_saves (s : saver) : bool :=
  match row_of s with Some r => ar_saves r | None => false end.
Definition sv_decl_cats (s : saver) : list text :=
  match row_of s with Some r => map text_of_string (lit_cats (ar_decl_cats r)) | None => [] end.
Definition sv_save_cats (s : saver) : list text :=
  match row_of s with Some r => map text_of_string (lit_cats (ar_save_cats r)) | None => [] end.

(* call_webhook.go:144 / call_resthook.go:135: `if a.ResultName != ""` around the saving call; the other three
   save unconditionally (their result_name is `validate:"required"`) *)
Definition sv_guarded (s : saver) : bool :=
  match s with SvCallWebhook | SvCallResthook => true | _ => false end.

(* the part of Execute that matters here *)
Inductive behav :=
| BPlain                                          (* saves no result, enters no flow *)
| BSetRunResult (name category : text)            (* set_run_result.go *)
| BEnterFlow (flow_uuid : text) (terminal : bool) (* enter_flow.go *)
| BSaver (s : saver) (result_name : text).

Record action := { a_items : list item; a_behav : behav }.

Record exit_ := { e_id : N; e_dest : option N }.
Record category := { c_id : N; c_name : text; c_exit : N }.

(* routers/switch.go Case: Type == "has_group"?, Arguments (localized, evaluated), CategoryUUID *)
Record rcase := { cs_has_group : bool; cs_args : tfield; cs_cat : N }.

Record router := {
  rt_switch : bool;                 (* switch (true) or random (false) *)
  rt_operand : tpl;  rt_cases : list rcase;  rt_default : option N;      (* switch only *)
  rt_result_name : text;  rt_categories : list category;
  rt_wait : option (option N);      (* Some tmo: has a wait, tmo = the timeout's category *)
  rt_wait_tpls : list tpl           (* the wait's own templates: the phone of a dial wait (waits/dial.go
                                       DialWait.EnumerateTemplates); none for a msg wait *)
}.

Record node := { n_id : N; n_actions : list action; n_router : option router; n_exits : list exit_ }.
Record flow := { f_id : N; f_uuid : text; f_nodes : list node }.

(* ------------------------------------------------------------------------------------------------ *)
(* results: flow.extractResults + flows.NewResultSpecs *)

Record result_info := { ri_key : text; ri_name : text; ri_cats : list text }.

(* flows.NewResultInfo *)
Definition new_result_info (name : text) (cats : list text) : result_info :=
  {| ri_key := snakify name; ri_name := name; ri_cats := cats |}.

(* the action's Results() method, if it has one *)
Definition action_result_infos (a : action) : list result_info :=
  match a_behav a with
  | BSetRunResult name cat =>
      [ new_result_info name (if text_empty cat then [] else [cat]) ]
  | BSaver s rn =>
      if sv_declares s && negb (text_empty rn) then [ new_result_info rn (sv_decl_cats s) ] else []
  | _ => []
  end.

(* baseRouter.EnumerateResults *)
Definition router_result_infos (r : router) : list result_info :=
  if negb (text_empty (rt_result_name r))
  then [ new_result_info (rt_result_name r) (map c_name (rt_categories r)) ] else [].

(* node.EnumerateResults *)
Definition node_result_infos (n : node) : list result_info :=
  flat_map action_result_infos (n_actions n)
  ++ match n_router n with Some r => router_result_infos r | None => [] end.

(* flow.extractResults: (node, info) pairs in definition order *)
Definition extract_results (f : flow) : list (N * result_info) :=
  flat_map (fun n => map (fun i => (n_id n, i)) (node_result_infos n)) (f_nodes f).

Record result_spec := { rs_key : text; rs_name : text; rs_cats : list text; rs_nodes : list N }.

(* the category-merging loop of NewResultSpecs *)
Fixpoint merge_cats (existing new : list text) : list text :=
  match new with
  | [] => existing
  | c :: r => merge_cats (if contains_exact existing c then existing else existing ++ [c]) r
  end.

Definition merge_spec (s : result_spec) (nid : N) (i : result_info) : result_spec :=
  {| rs_key := rs_key s; rs_name := rs_name s;
     rs_cats := merge_cats (rs_cats s) (ri_cats i);
     rs_nodes := if existsb (N.eqb nid) (rs_nodes s) then rs_nodes s else rs_nodes s ++ [nid] |}.

(* specsSeen[key] lookup + merge, or append of a new spec *)
Fixpoint merge_into (specs : list result_spec) (nid : N) (i : result_info) : list result_spec :=
  match specs with
  | [] => [ {| rs_key := ri_key i; rs_name := ri_name i; rs_cats := ri_cats i; rs_nodes := [nid] |} ]
  | s :: rest => if text_eqb (rs_key s) (ri_key i) then merge_spec s nid i :: rest
                 else s :: merge_into rest nid i
  end.

(* flows.NewResultSpecs *)
Definition new_result_specs (rs : list (N * result_info)) : list result_spec :=
  fold_left (fun specs ni => merge_into specs (fst ni) (snd ni)) rs [].

Definition inspect_results (f : flow) : list result_spec := new_result_specs (extract_results f).

(* ------------------------------------------------------------------------------------------------ *)
(* waiting exits: flow.extractExitsFromWaits *)

Definition node_has_wait (n : node) : bool :=
  match n_router n with
  | Some r => match rt_wait r with Some _ => true | None => false end
  | None => false
  end.

Definition waiting_exits (f : flow) : list N :=
  flat_map (fun n => if node_has_wait n then map e_id (n_exits n) else []) (f_nodes f).

(* ------------------------------------------------------------------------------------------------ *)
(* dependencies: flow.extract + inspect.NewDependencies *)

Definition action_templates (a : action) : list tpl :=
  flat_map (fun it => match it with
                      | ITpl f | ILegacy f => tfield_templates f
                      | IVar _ m => [m]
                      | IRef _ => []
                      end) (a_items a).

(* baseRouter.EnumerateTemplates: the templates of the wait, if it has any (random routers: only these);
   SwitchRouter.EnumerateTemplates: the operand, then the cases' arguments, then the base's *)
Definition router_templates (r : router) : list tpl :=
  (if rt_switch r then rt_operand r :: flat_map (fun c => tfield_templates (cs_args c)) (rt_cases r) else [])
  ++ match rt_wait r with Some _ => rt_wait_tpls r | None => [] end.

Definition action_refs (a : action) : list aref :=
  flat_map (fun it => match it with IRef r => [r] | _ => [] end) (a_items a).

Definition group_ref (id : text) : aref := {| r_kind := KGroup; r_id := id |}.

(* Case.Dependencies: has_group's first argument is a group uuid, also in every translation of the arguments *)
Definition case_refs (c : rcase) : list aref :=
  if cs_has_group c then
    match tf_vals (cs_args c) with
    | a0 :: _ =>
        group_ref (t_raw a0)
        :: flat_map (fun lt => match norm_translation (snd lt) with
                               | t0 :: _ => [ group_ref (t_raw t0) ]
                               | [] => []
                               end) (tf_trans (cs_args c))
    | [] => []
    end
  else [].

Definition router_refs (r : router) : list aref :=
  if rt_switch r then flat_map case_refs (rt_cases r) else [].

(* recordAssetRef: `ref != nil && !ref.Variable()` *)
Definition keep_fixed (l : list aref) : list aref := filter (fun r => negb (ref_variable r)) l.

(* the body of the loop of flow.extract for one node: references found in templates, then EnumerateDependencies *)
Definition node_asset_refs (n : node) : list aref :=
  keep_fixed
    (flat_map tpl_refs (flat_map action_templates (n_actions n)
                        ++ match n_router n with Some r => router_templates r | None => [] end)
     ++ flat_map action_refs (n_actions n)
     ++ match n_router n with Some r => router_refs r | None => [] end).

Definition extract_refs (f : flow) : list aref := flat_map node_asset_refs (f_nodes f).

(* inspect.NewDependencies: first occurrence of every type:identity *)
Fixpoint dedup_refs (seen : list aref) (l : list aref) : list aref :=
  match l with
  | [] => []
  | r :: rest => if ref_in r seen then dedup_refs seen rest else r :: dedup_refs (r :: seen) rest
  end.

Definition dependencies (f : flow) : list aref := dedup_refs [] (extract_refs f).

(* ------------------------------------------------------------------------------------------------ *)
(* validation done by the flow reader that the theorems rely on (baseRouter.validate:
   "check each category points to a valid exit"; the result_name validator tags) *)

Definition exit_in (e : N) (exits : list exit_) : bool := existsb (fun x => N.eqb (e_id x) e) exits.

(* the `validate:` tags on result names: set_run_result.name and the result_name of call_classifier, open_ticket,
   transfer_airtime are "required,result_name"; the result_name of call_webhook, call_resthook and of routers
   is "omitempty,result_name" *)
Definition opt_result_name (t : text) : bool := text_empty t || valid_result_name t.

Definition valid_action (a : action) : bool :=
  match a_behav a with
  | BSetRunResult name _ => valid_result_name name
  | BSaver s rn => if sv_guarded s then opt_result_name rn else valid_result_name rn
  | _ => true
  end.

Definition valid_node (n : node) : bool :=
  forallb valid_action (n_actions n)
  && match n_router n with
     | Some r => opt_result_name (rt_result_name r)
                 && forallb (fun c => exit_in (c_exit c) (n_exits n)) (rt_categories r)
     | None => true
     end.

Definition valid_flow (f : flow) : bool := forallb valid_node (f_nodes f).

(* the flows of a session have pairwise different ids (they stand for the flow uuids, which assets keep unique) *)
Fixpoint distinct_ids (l : list N) : bool :=
  match l with
  | [] => true
  | x :: r => negb (existsb (N.eqb x) r) && distinct_ids r
  end.

Definition distinct_flow_ids (A : list flow) : bool := distinct_ids (map f_id A).

(* ------------------------------------------------------------------------------------------------ *)
(* execution, as an acceptor of observable steps *)

(* one step of a run's path with everything observable on it at the end of the history *)
Record ostep := {
  os_run : N;                      (* index of the run in the session *)
  os_parent : option N;            (* index of the parent run, if any *)
  os_flow : N;                     (* f_id of the run's flow *)
  os_node : N;
  os_saved : list (text * text);   (* (name, category) of the run_result_changed events logged on the step, in order.
                                      saveResult logs the event only when value or category changed: an unchanged
                                      re-save is not observed, but it is a save of the same configured (name,
                                      category), so "saved or re-saved" is over-approximated all the same *)
  os_touched : list aref;          (* the asset references carried by events logged on the step THAT THE VISITED NODE
                                      NAMES (by identity, by an expression-free name, or as its documented default):
                                      the harness drops every other carried reference before it writes the trace
                                      (harness/cmd/c20/exec.go nodeFixedRefs), so assets touched without being
                                      written in the flow — groups left through all_groups or a status change, the
                                      outbound channel, re-evaluated query groups — never reach the model *)
  os_exit : option N;              (* the exit written on the step (step.Leave) *)
  os_resumed : bool                (* the step was the waiting step of an accepted resume *)
}.

Definition lookup_flow (A : list flow) (id : N) : option flow := find (fun f => N.eqb (f_id f) id) A.
Definition lookup_node (f : flow) (id : N) : option node := find (fun n => N.eqb (n_id n) id) (f_nodes f).

(* what one action can save: (name, category) *)
Definition action_can_save (a : action) (nc : text * text) : bool :=
  match a_behav a with
  | BSetRunResult name cat => text_eqb (fst nc) name && text_eqb (snd nc) cat
  | BSaver s rn =>
      sv_saves s && (negb (sv_guarded s) || negb (text_empty rn))
      && text_eqb (fst nc) rn && existsb (text_eqb (snd nc)) (sv_save_cats s)
  | _ => false
  end.

(* routeToCategory: result_name non-empty, the category is one of the router's, and the step leaves through
   that category's exit *)
Definition router_can_save (r : router) (ex : option N) (nc : text * text) : bool :=
  negb (text_empty (rt_result_name r)) && text_eqb (fst nc) (rt_result_name r)
  && match ex with
     | Some e => existsb (fun c => text_eqb (c_name c) (snd nc) && N.eqb (c_exit c) e) (rt_categories r)
     | None => false
     end.

(* every saver on the node runs at most once per step, in order: the observed saves are matched greedily *)
Fixpoint match_saves (ems : list (text * text -> bool)) (obs : list (text * text)) {struct ems} : bool :=
  match obs with
  | [] => true
  | o :: obs' =>
      match ems with
      | [] => false
      | e :: ems' => if e o then match_saves ems' obs' else match_saves ems' obs
      end
  end.

Definition node_emitters (n : node) (ex : option N) : list (text * text -> bool) :=
  map action_can_save (n_actions n)
  ++ match n_router n with Some r => [router_can_save r ex] | None => [] end.

(* pickNodeExit: with a router the exit is a category's exit; without, the first exit; a resumed step is at a
   node whose router has a wait (tryToResume) *)
Definition exit_ok (n : node) (o : ostep) : bool :=
  (negb (os_resumed o) || node_has_wait n)
  && match os_exit o with
     | None => true
     | Some e =>
         match n_router n with
         | Some r => existsb (fun c => N.eqb (c_exit c) e) (rt_categories r)
         | None => match n_exits n with x :: _ => N.eqb (e_id x) e | [] => false end
         end
     end.

Definition node_enters (n : node) (uuid : text) : bool :=
  existsb (fun a => match a_behav a with BEnterFlow u _ => text_eqb u uuid | _ => false end) (n_actions n).

(* per run: its flow, the node its last step is at, and where its next step has to be *)
Record rstate := { st_flow : N; st_last : N; st_next : option N }.
Definition state := list (N * rstate).

Fixpoint lookup_run (st : state) (r : N) : option rstate :=
  match st with
  | [] => None
  | (k, v) :: rest => if N.eqb k r then Some v else lookup_run rest r
  end.

Definition opt_N_eqb (a b : option N) : bool :=
  match a, b with Some x, Some y => N.eqb x y | None, None => true | _, _ => false end.

Definition exit_dest (n : node) (ex : option N) : option N :=
  match ex with
  | None => None
  | Some e => match find (fun x => N.eqb (e_id x) e) (n_exits n) with Some x => e_dest x | None => None end
  end.

Definition position_ok (A : list flow) (st : state) (f : flow) (o : ostep) : bool :=
  match lookup_run st (os_run o) with
  | Some rs => N.eqb (st_flow rs) (os_flow o) && opt_N_eqb (st_next rs) (Some (os_node o))
  | None =>
      (* a new run starts at the first node of its flow (continueUntilWait); a child run is pushed by an
         enter_flow action of the node its parent is at *)
      match f_nodes f with
      | n0 :: _ => N.eqb (n_id n0) (os_node o)
      | [] => false
      end
      && match os_parent o with
         | None => true
         | Some p =>
             match lookup_run st p with
             | Some prs =>
                 match lookup_flow A (st_flow prs) with
                 | Some pf => match lookup_node pf (st_last prs) with
                              | Some pn => node_enters pn (f_uuid f)
                              | None => false
                              end
                 | None => false
                 end
             | None => false
             end
         end
  end.

(* ---- assets a node touches WITHOUT a fixed reference to them being written in it (hunt findings 2 and 3; none of
   them is seen by inspection): the asset an expression-free name_match / email_match / legacy_vars value names, and
   the topic "General" an open_ticket without topic falls back to (actions/open_ticket.go).  Which asset a name
   denotes depends on the session assets: [names] is that table *)
Record named := { nm_kind : akind; nm_name : text; nm_id : text }.

(* groups, labels, topics: FindByName compares lower-cased names; users: UserAssets.Get is a map lookup by the exact
   email (flows/users.go) *)
Definition name_matches (k : akind) (a b : text) : bool :=
  match k with KUser => text_eqb a b | _ => eq_fold a b end.

Definition resolve (names : list named) (k : akind) (nm : text) : list aref :=
  map (fun x => {| r_kind := k; r_id := nm_id x |})
      (filter (fun x => N.eqb (akind_code (nm_kind x)) (akind_code k) && name_matches k (nm_name x) nm) names).

Definition has_topic_item (a : action) : bool :=
  existsb (fun it => match it with
                     | IRef r => N.eqb (akind_code (r_kind r)) (akind_code KTopic)
                     | _ => false
                     end) (a_items a).

Definition s_general := text_of_string "General".

Definition action_implicit_refs (names : list named) (a : action) : list aref :=
  flat_map (fun it => match it with
                      | IVar k m => if t_literal m then resolve names k (t_raw m) else []
                      | ILegacy f => flat_map (fun v => if t_literal v then resolve names KGroup (trim_space (t_raw v)) else [])
                                              (tf_vals f)
                      | _ => []
                      end) (a_items a)
  ++ match a_behav a with
     | BSaver SvOpenTicket _ => if has_topic_item a then [] else resolve names KTopic s_general
     | _ => []
     end.

Definition node_implicit_refs (names : list named) (n : node) : list aref :=
  flat_map (action_implicit_refs names) (n_actions n).

Definition touched_ok (names : list named) (n : node) (l : list aref) : bool :=
  forallb (fun r => ref_in r (node_asset_refs n) || ref_in r (node_implicit_refs names n)) l.

Definition step_ok (names : list named) (A : list flow) (st : state) (o : ostep) : option state :=
  match lookup_flow A (os_flow o) with
  | None => None
  | Some f =>
      match lookup_node f (os_node o) with
      | None => None
      | Some n =>
          if position_ok A st f o
             && match_saves (node_emitters n (os_exit o)) (os_saved o)
             && touched_ok names n (os_touched o)
             && exit_ok n o
          then Some ((os_run o, {| st_flow := os_flow o; st_last := os_node o; st_next := exit_dest n (os_exit o) |}) :: st)
          else None
      end
  end.

Fixpoint accepts_from (names : list named) (A : list flow) (st : state) (tr : list ostep) : bool :=
  match tr with
  | [] => true
  | o :: rest => match step_ok names A st o with
                 | Some st' => accepts_from names A st' rest
                 | None => false
                 end
  end.

Definition accepts (names : list named) (A : list flow) (tr : list ostep) : bool := accepts_from names A [] tr.

(* projections of an execution *)
Definition saved_results (tr : list ostep) : list (N * (text * text)) :=
  flat_map (fun o => map (fun nc => (os_flow o, nc)) (os_saved o)) tr.
Definition assets_touched (tr : list ostep) : list (N * aref) :=
  flat_map (fun o => map (fun r => (os_flow o, r)) (os_touched o)) tr.
Definition resumed_exits (tr : list ostep) : list (N * N) :=
  flat_map (fun o => match os_exit o with
                     | Some e => if os_resumed o then [(os_flow o, e)] else []
                     | None => []
                     end) tr.
