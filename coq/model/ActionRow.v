(* ActionRow.v — the row type of the source-derived table coq/gen/ActionResults.v (property C20).
   Hand-written; the table itself is regenerated from /repo by translators/cmd/actionresults on every check.

   One row per registered action type (flows/actions/*.go) and per registered router type (flows/routers/*.go):
     ar_saves      executing it can reach baseAction.saveResult / Run.SaveResult
     ar_declares   it has a Results() method (actions) / EnumerateResults (routers), i.e. flow inspection
                   (flows/inspect/results.go, flows/definition/node.go EnumerateResults) sees a declaration
     ar_save_names / ar_decl_names   the name expressions (receiver stripped: "ResultName", "Name", "resultName")
     ar_save_cats / ar_decl_cats     the category expressions, resolved to literals where they are literal
     ar_save_guards / ar_decl_guards the conjuncts of the if-conditions around each saving call / declaration
                                     ([] = unguarded; "NAME_NONEMPTY" = `<receiver>.<name member> != ""`)
     ar_sites_syntactic / _typed     completeness guard: the uses of door-containing functions and the doors that the
                                     syntactic extraction visited vs. those statically reachable by go/types
   No proofs in this file. *)
From Coq Require Import List String Bool.
Import ListNotations.
Open Scope string_scope.

Inductive cat_expr :=
| CLit (s : string)      (* a literal category: "Success" *)
| CField (f : string)    (* a field of the action: a.Category *)
| CElemOf (fm : string)  (* "F.M": x.M() for an x taken from the receiver's slice F by a range loop
                            (routers/base.go routeToCategory: `for _, c := range r.categories { if .. { category = c ..`
                            then `category.Name()`) *)
| CAllOf (fm : string)   (* "F.M": the list of x.M() for EVERY element x of the receiver's slice F
                            (routers/base.go EnumerateResults: `names := make([]string, len(r.categories));
                            for i := range r.categories { names[i] = r.categories[i].Name() }`) *)
| CExpr (e : string).    (* anything else, as source text *)

Record action_row := {
  ar_kind : string;  ar_type : string;  ar_struct : string;
  ar_saves : bool;  ar_declares : bool;
  ar_save_names : list string;  ar_decl_names : list string;
  ar_save_cats : list cat_expr;  ar_decl_cats : list cat_expr;
  ar_save_guards : list (list string);   (* per saving call: the conjuncts of the if-conditions around it *)
  ar_decl_guards : list (list string);   (* per declaration (NewResultInfo in Results()/EnumerateResults): same *)
  ar_name_required : bool;               (* the name member is validate:"required" *)
  ar_sites_syntactic : list string;      (* sink uses / doors the syntactic extraction visited *)
  ar_sites_typed : list string           (* ... and what go/types says is statically reachable from Execute/Route *)
}.

Definition cat_expr_eqb (a b : cat_expr) : bool :=
  match a, b with
  | CLit x, CLit y => String.eqb x y
  | CField x, CField y => String.eqb x y
  | CElemOf x, CElemOf y => String.eqb x y
  | CAllOf x, CAllOf y => String.eqb x y
  | CExpr x, CExpr y => String.eqb x y
  | _, _ => false
  end.

Definition str_in (s : string) (l : list string) : bool := existsb (String.eqb s) l.
Definition cat_in (c : cat_expr) (l : list cat_expr) : bool := existsb (cat_expr_eqb c) l.

(* is the category expression [c] of a saving call among the declared ones [l]?  The same expression; or an
   element of the slice all of whose elements are declared *)
Definition cat_covered (c : cat_expr) (l : list cat_expr) : bool :=
  match c with
  | CElemOf fm => cat_in (CAllOf fm) l
  | CAllOf _ => false          (* a saving call saves one category, never a list *)
  | _ => cat_in c l
  end.

Definition find_row (rows : list action_row) (kind ty : string) : option action_row :=
  find (fun r => String.eqb (ar_kind r) kind && String.eqb (ar_type r) ty) rows.

(* the literal categories of a list of category expressions (non-literal ones dropped) *)
Fixpoint lit_cats (l : list cat_expr) : list string :=
  match l with
  | [] => []
  | CLit s :: r => s :: lit_cats r
  | _ :: r => lit_cats r
  end.

Definition all_lit (l : list cat_expr) : bool :=
  forallb (fun c => match c with CLit _ => true | _ => false end) l.

(* the finite obligation on one row: what it can save, it declares — same name expression, every category it
   can save with is among the declared ones (compared as expressions, see cat_covered), no category can be the
   empty literal (an index into a map that does not cover its key type), and the declaration is made whenever
   the save happens (guards) *)
Fixpoint strs_eqb (a b : list string) : bool :=
  match a, b with
  | [], [] => true
  | x :: a', y :: b' => String.eqb x y && strs_eqb a' b'
  | _, _ => false
  end.

(* a declaration under guard [gd] is made whenever a save under guard [gs] happens: every conjunct of gd is a
   conjunct of gs, or is the name-non-empty test of a name the reader requires to be non-empty *)
Definition guard_implied (required : bool) (gd gs : list string) : bool :=
  forallb (fun c => str_in c gs || (required && String.eqb c "NAME_NONEMPTY")) gd.

Definition row_declares_what_it_saves (r : action_row) : bool :=
  implb (ar_saves r)
        (ar_declares r
         && forallb (fun n => str_in n (ar_decl_names r)) (ar_save_names r)
         && forallb (fun c => cat_covered c (ar_decl_cats r)) (ar_save_cats r)
         && negb (cat_in (CLit "") (ar_save_cats r))
         && forallb (fun gs => existsb (fun gd => guard_implied (ar_name_required r) gd gs) (ar_decl_guards r))
                    (ar_save_guards r)).

(* the syntactic extraction saw every statically reachable use of a door-containing function and every door *)
Definition row_complete (r : action_row) : bool :=
  strs_eqb (ar_sites_syntactic r) (ar_sites_typed r)
  && Bool.eqb (ar_saves r) (negb (match ar_sites_typed r with [] => true | _ => false end)).
