(* ExRefactorCorr.v — comparison of model/ExRefactor.v with what the real refactor.Template returned (written by
   harness/cmd/c11).  No proofs. *)
From Coq Require Import List NArith Bool.
From Verif Require Import model.ExSyntax model.ExScanner model.ExParseCorr model.ExRefactor.
Import ListNotations.
Open Scope N_scope.

Record rcase := {
  r_tops : option (list ExSyntax.text);   (* allowedTopLevels; None = nil *)
  r_in : ExSyntax.text;                   (* the template *)
  r_ln : list N;                          (* runes of the template with unicode.IsLetter || unicode.IsNumber *)
  r_low : list (N * N);                   (* (c, unicode.ToLower c) for the runes of template, top levels, from and to that change *)
  r_print : list N;                       (* runes of the text-literal values with unicode.IsPrint *)
  r_mode : N;                             (* 0: transformation reporting "unchanged"; 1: identity reporting "changed";
                                             2: ContextRefRename(from, to) *)
  r_from : ExSyntax.text;                 (* mode 2: ContextRefRename(r_from, r_to) *)
  r_to : ExSyntax.text;
  (* observed on the implementation *)
  r_out : ExSyntax.text;
  r_err : bool                            (* err != nil *)
}.

Definition check (k : rcase) : bool :=
  let isln := mem_rune (r_ln k) in
  let lower := assoc_rune (r_low k) in
  let printable := mem_rune (r_print k) in
  let tx : expr -> option expr :=
    if r_mode k =? 0 then (fun _ => None)
    else if r_mode k =? 1 then (fun e => Some e)
    else rename_tx lower (r_from k) (r_to k) in
  negb (isln 0) && negb (isln 46) && negb (isln 64) && N.eqb (lower 95) 95 &&   (* table facts the theorems assume *)
  match refactor_template isln lower printable tx (r_tops k) (r_in k) with
  | Ok (out, errs, inside) =>
      inside && text_eqb out (r_out k) && Bool.eqb (negb (Nat.eqb errs 0)) (r_err k)
  | _ => false
  end.

Fixpoint mismatches_from (i : N) (ks : list rcase) : list N :=
  match ks with
  | [] => []
  | k :: rest => (if check k then [] else [i]) ++ mismatches_from (i + 1) rest
  end.

Definition mismatches (ks : list rcase) : list N := mismatches_from 0 ks.
