(* ExParser.v — model of the ANTLR4 parser generated from /repo/antlr/Excellent3.g4 (rules parse,
   expression, atom, parameters, nameList) composed with the tree construction of
   /repo/excellent/visitor.go.

   ANTLR4 rewrites the left-recursive rule `expression` with n alternatives into
       expression[p] : primary ( {prec(alt) >= p}? ops expression[prec(alt)+1] )*
   where the i-th alternative (1-based) has precedence n-i+1, a prefix alternative `op expression` becomes
   the primary `op expression[prec(alt)]`, and likewise `LPAREN nameList RPAREN ARROW expression[prec(alt)]`;
   `atom` becomes  (LPAREN expression RPAREN | NAME) (call | dot | index)*  .  The alternatives and their
   order are read from gen/GrammarE3.v (regenerated from the .g4 on every run).  Prediction between the
   two primaries that start with LPAREN: the anonymous function is chosen iff the tokens continue
   NAME (COMMA NAME)* RPAREN ARROW (no expression can be followed by ARROW).
   excellent.Parse fails iff ANTLR reported a syntax error, i.e. iff the token list is not in the language:
   error recovery never turns an error into success.
   The generated parser and the ANTLR runtime are not verified; validated differentially (harness/cmd/c11).
   No proofs here. *)
From Coq Require Import List NArith Bool.
From Verif Require Import lib.Quote model.ExSyntax gen.GrammarE3.
Import ListNotations.
Open Scope N_scope.

(* ---------------------------------------------------------------------------------------------- *)
(* tables derived from the grammar *)

Definition kind_in (k : kind) (ks : list kind) : bool := existsb (kind_eqb k) ks.

(* precedence of the alternative at 0-based position i among n: n - i *)
Fixpoint binop_lookup (alts : list ealt) (n : nat) (k : kind) : option (nat * blabel) :=
  match alts with
  | [] => None
  | ABinary l ops :: r => if kind_in k ops then Some (n, l) else binop_lookup r (Nat.pred n) k
  | _ :: r => binop_lookup r (Nat.pred n) k
  end.
Definition binop_of (k : kind) : option (nat * blabel) := binop_lookup expr_alts (length expr_alts) k.

Fixpoint prefix_lookup (alts : list ealt) (n : nat) (k : kind) : option nat :=
  match alts with
  | [] => None
  | APrefix op :: r => if kind_eqb k op then Some n else prefix_lookup r (Nat.pred n) k
  | _ :: r => prefix_lookup r (Nat.pred n) k
  end.
Definition prefix_of (k : kind) : option nat := prefix_lookup expr_alts (length expr_alts) k.

Fixpoint anon_lookup (alts : list ealt) (n : nat) : option nat :=
  match alts with
  | [] => None
  | AAnon :: _ => Some n
  | _ :: r => anon_lookup r (Nat.pred n)
  end.
Definition anon_prec : option nat := anon_lookup expr_alts (length expr_alts).

Fixpoint lit_lookup (alts : list ealt) (k : kind) : option llabel :=
  match alts with
  | [] => None
  | ALit l ks :: r => if kind_in k ks then Some l else lit_lookup r k
  | _ :: r => lit_lookup r k
  end.
Definition lit_of (k : kind) : option llabel := lit_lookup expr_alts k.

Fixpoint dot_kinds_lookup (alts : list aalt) : list kind :=
  match alts with
  | [] => []
  | PDot ks :: _ => ks
  | _ :: r => dot_kinds_lookup r
  end.
Definition dot_kinds : list kind := dot_kinds_lookup atom_alts.

(* ---------------------------------------------------------------------------------------------- *)
(* visitor.go *)

(* VisitConcatenation .. VisitComparison: which node a binary alternative builds *)
Definition mk_bin (l : blabel) (k : kind) : binop :=
  match l with
  | LConcat => OConcat
  | LAddSub => if kind_eqb k PLUS then OAdd else OSub
  | LMulDiv => if kind_eqb k TIMES then OMul else ODiv
  | LExponent => OExp
  | LEquality => if kind_eqb k EQ then OEq else ONeq
  | LComparison => if kind_eqb k LT then OLt else if kind_eqb k LTE then OLte
                   else if kind_eqb k GTE then OGte else OGt
  end.

(* VisitTextLiteral: strconv.Unquote, and on error the text between the first and last byte *)
Definition strip_quotes (s : text) : text := removelast (tl s).

Definition text_value (lexeme : text) : option text :=
  match unquote lexeme with
  | UOk s => Some s
  | USyntax => Some (strip_quotes lexeme)
  | UOutside => None               (* Go accepts, result is not a code point list: outside the model *)
  | UFuel => None
  end.

Definition mk_lit (l : llabel) (t : token) : expr :=
  match l with
  | LText => EText (match text_value (tx t) with Some v => v | None => [] end)
  | LNumber => ENum (tx t)
  | LTrue => EBool true
  | LFalse => EBool false
  | LNull => ENull
  end.

(* ---------------------------------------------------------------------------------------------- *)
(* the parser *)

Inductive pr (A : Type) : Type := PR (a : A) | PErr | PFuel.
Arguments PR {A} a.
Arguments PErr {A}.
Arguments PFuel {A}.

Definition is_k (k : kind) (t : token) : bool := kind_eqb (tk t) k.

(* after the LPAREN of a primary: NAME (COMMA NAME)* RPAREN ARROW -> (names, rest) *)
Fixpoint anon_head (ts : list token) : option (list text * list token) :=
  match ts with
  | n :: t2 :: r =>
      if is_k NAME n then
        if is_k COMMA t2 then
          match anon_head r with
          | Some (ns, r') => Some (tx n :: ns, r')
          | None => None
          end
        else if is_k RPAREN t2 then
          match r with
          | a :: r' => if is_k ARROW a then Some ([tx n], r') else None
          | [] => None
          end
        else None
      else None
  | _ => None
  end.

Fixpoint p_expr (fuel : nat) (p : nat) (ts : list token) {struct fuel} : pr (expr * list token) :=
  match fuel with
  | O => PFuel
  | S f =>
      match p_primary f ts with
      | PR (e, r) => p_binloop f p e r
      | PErr => PErr
      | PFuel => PFuel
      end
  end

(* ( {prec >= p}? op expression[prec+1] )* *)
with p_binloop (fuel : nat) (p : nat) (lhs : expr) (ts : list token) {struct fuel} : pr (expr * list token) :=
  match fuel with
  | O => PFuel
  | S f =>
      match ts with
      | t :: r =>
          match binop_of (tk t) with
          | Some (prec, l) =>
              if Nat.leb p prec then
                match p_expr f (S prec) r with
                | PR (rhs, r') => p_binloop f p (EBin (mk_bin l (tk t)) lhs rhs) r'
                | PErr => PErr
                | PFuel => PFuel
                end
              else PR (lhs, ts)
          | None => PR (lhs, ts)
          end
      | [] => PR (lhs, ts)
      end
  end

with p_primary (fuel : nat) (ts : list token) {struct fuel} : pr (expr * list token) :=
  match fuel with
  | O => PFuel
  | S f =>
      match ts with
      | [] => PErr
      | t :: r =>
          match prefix_of (tk t) with
          | Some prec =>
              match p_expr f prec r with
              | PR (e, r') => PR (ENeg e, r')
              | PErr => PErr
              | PFuel => PFuel
              end
          | None =>
              match lit_of (tk t) with
              | Some l => PR (mk_lit l t, r)
              | None =>
                  match (if is_k LPAREN t then anon_head r else None), anon_prec with
                  | Some (names, r'), Some prec =>
                      match p_expr f prec r' with
                      | PR (body, r'') => PR (EAnon names body, r'')
                      | PErr => PErr
                      | PFuel => PFuel
                      end
                  | _, _ => p_atom f ts
                  end
              end
          end
      end
  end

with p_atom (fuel : nat) (ts : list token) {struct fuel} : pr (expr * list token) :=
  match fuel with
  | O => PFuel
  | S f =>
      match ts with
      | [] => PErr
      | t :: r =>
          if is_k LPAREN t then
            match p_expr f 0 r with
            | PR (e, c :: r') => if is_k RPAREN c then p_postfix f (EParen e) r' else PErr
            | PR (_, []) => PErr
            | PErr => PErr
            | PFuel => PFuel
            end
          else if is_k NAME t then p_postfix f (ECtxRef (tx t)) r
          else PErr
      end
  end

(* ( LPAREN parameters? RPAREN | DOT (NAME | INTEGER) | LBRACK expression RBRACK )* *)
with p_postfix (fuel : nat) (a : expr) (ts : list token) {struct fuel} : pr (expr * list token) :=
  match fuel with
  | O => PFuel
  | S f =>
      match ts with
      | [] => PR (a, ts)
      | t :: r =>
          if is_k LPAREN t then
            match r with
            | c :: r' =>
                if is_k RPAREN c then p_postfix f (ECall a []) r'
                else
                  match p_params f r with
                  | PR (ps, c' :: r'') => if is_k RPAREN c' then p_postfix f (ECall a ps) r'' else PErr
                  | PR (_, []) => PErr
                  | PErr => PErr
                  | PFuel => PFuel
                  end
            | [] => PErr
            end
          else if is_k DOT t then
            match r with
            | n :: r' => if kind_in (tk n) dot_kinds then p_postfix f (EDot a (tx n)) r' else PErr
            | [] => PErr
            end
          else if is_k LBRACK t then
            match p_expr f 0 r with
            | PR (e, c :: r') => if is_k RBRACK c then p_postfix f (EIndex a e) r' else PErr
            | PR (_, []) => PErr
            | PErr => PErr
            | PFuel => PFuel
            end
          else PR (a, ts)
      end
  end

(* expression (COMMA expression)* *)
with p_params (fuel : nat) (ts : list token) {struct fuel} : pr (list expr * list token) :=
  match fuel with
  | O => PFuel
  | S f =>
      match p_expr f 0 ts with
      | PR (e, c :: r) =>
          if is_k COMMA c then
            match p_params f r with
            | PR (es, r') => PR (e :: es, r')
            | PErr => PErr
            | PFuel => PFuel
            end
          else PR ([e], c :: r)
      | PR (e, []) => PR ([e], [])
      | PErr => PErr
      | PFuel => PFuel
      end
  end.

Inductive presult :=
| POk (e : expr)
| PSyntax          (* excellent.Parse returns an error *)
| POutside         (* a TEXT token whose Unquote result is not a code point list: outside the model *)
| PFuelOut.

Definition parse_fuel (ts : list token) : nat := (6 * length ts + 10)%nat.

(* rule parse: expression EOF *)
Definition parse_tokens (ts : list token) : presult :=
  if existsb (fun t => is_k TEXT t && match text_value (tx t) with None => true | Some _ => false end) ts
  then POutside
  else
    match p_expr (parse_fuel ts) 0 ts with
    | PR (e, []) => POk e
    | PR (_, _ :: _) => PSyntax
    | PErr => PSyntax
    | PFuel => PFuelOut
    end.
