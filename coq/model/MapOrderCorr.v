(* MapOrderCorr.v -- comparison of the pipeline transcriptions of model/MapOrder.v with observations of the real
   goflow code (written by harness/cmd/c08 into cases_C08_*.v).  No proofs.
   Every case carries the input map as an association list in a PRNG-chosen order (the model is invariant under
   that order by the theorems of props/C08.v) and what the implementation returned for the Go map. *)
From Coq Require Import List NArith Bool.
From Verif Require Import model.MapOrder.
Import ListNotations.
Open Scope N_scope.

Inductive ccase :=
| KProps (entries : list (str * N)) (impl : list str)              (* XObject.Properties() *)
| KGet (entries : list (str * N)) (key : str) (impl : option N)    (* XObject.Get(key): the value found *)
| KMarshal (entries : list (str * N)) (impl_keys : list str)       (* member names of XObject.MarshalJSON() in byte order *)
| KFormat (results : list (str * (str * str))) (impl : str)        (* Results.Context()["__default__"] *)
| KLanguages (langs : list str) (impl : list str)                  (* Flow.Localization().Languages() *)
| KLuis (intents : list (str * N)) (impl : list str)               (* luis Classify: intent names in result order; score * 1000 *)
| KWit (entities : list (str * N)) (impl : list (str * N))         (* wit Classify: entity name -> value id, in name order *)
| KDtone (amounts : list (str * (N * bool))) (impl : option str)   (* dtone Transfer: chosen currency; bool = a product matches *)
| KFields (fields : list (str * (str * option str))) (impl : str)  (* FieldValues.Context()["__default__"]; key -> (field name, text value) *)
| KLegacy (results : list (str * (N * list (str * str)))) (key : str) (impl : option str).
                                                                   (* @legacy_extra.<key> after re-reading the session; result key -> (created_on, extra) *)

Fixpoint strs_eqb (a b : list str) : bool :=
  match a, b with
  | [], [] => true
  | x :: a', y :: b' => str_eqb x y && strs_eqb a' b'
  | _, _ => false
  end.

Definition ascii_lower (s : str) : str := map (fun c => if (65 <=? c) && (c <=? 90) then c + 32 else c) s.

Definition opt_n_eqb (a b : option N) : bool :=
  match a, b with
  | Some x, Some y => N.eqb x y
  | None, None => true
  | _, _ => false
  end.

(* the part of a wit entity key before the first ':' *)
Fixpoint before_colon (s : str) : str :=
  match s with
  | [] => []
  | c :: t => if N.eqb c 58 then [] else c :: before_colon t
  end.

Fixpoint pairs_eqb (a b : list (str * N)) : bool :=
  match a, b with
  | [], [] => true
  | (k1, v1) :: a', (k2, v2) :: b' => str_eqb k1 k2 && N.eqb v1 v2 && pairs_eqb a' b'
  | _, _ => false
  end.

Definition opt_str_eqb (a b : option str) : bool :=
  match a, b with
  | Some x, Some y => str_eqb x y
  | None, None => true
  | _, _ => false
  end.

Definition check (c : ccase) : bool :=
  match c with
  | KProps entries impl => strs_eqb (xobject_properties entries) impl
  | KGet entries key impl =>
      opt_n_eqb (match xobject_get ascii_lower key entries with
                 | Some (_, v) => v
                 | None => None
                 end) impl
  | KMarshal entries impl => strs_eqb (map fst (xobject_marshal (fun _ _ => true) (fun v : N => v) entries)) impl
  | KFormat results impl =>
      str_eqb (results_format (map (fun kv => (fst kv, {| r_name := fst (snd kv); r_value := snd (snd kv);
                                                         r_created := 0; r_extra := None |})) results)) impl
  | KLanguages langs impl => strs_eqb (localization_languages (map (fun l => (l, tt)) langs)) impl
  | KLuis intents impl => strs_eqb (map fst (luis_intents intents)) impl
  | KWit entities impl => pairs_eqb (wit_entities before_colon entities) impl
  | KDtone amounts impl =>
      match dtone_pick (fun (_ : str) (a : N * bool) => if snd a then Some (fst a) else None) amounts, impl with
      | Some (cur, _), Some cur' => str_eqb cur cur'
      | None, None => true
      | _, _ => false
      end
  | KFields fields impl =>
      match lookup str_eqb default_key
              (field_values_context (fun v : str * option str => snd v) fst (fun x : str => x) (fun t : str => t) fields) with
      | Some (Some text) => str_eqb text impl
      | _ => false
      end
  | KLegacy results key impl =>
      opt_str_eqb (lookup str_eqb key
                     (legacy_add_results (fun s => s) []
                        (map (fun kv => (fst kv, {| r_name := fst kv; r_value := []; r_created := fst (snd kv);
                                                   r_extra := Some (snd (snd kv)) |})) results))) impl
  end.

Fixpoint mismatches_from (i : N) (cs : list ccase) : list N :=
  match cs with
  | [] => []
  | c :: rest => (if check c then [] else [i]) ++ mismatches_from (i + 1) rest
  end.

Definition mismatches (cs : list ccase) : list N := mismatches_from 0 cs.
