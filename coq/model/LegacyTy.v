(* LegacyTy.v — types of the source-derived table coq/gen/LegacyTable.v (property C17).
   The table itself is regenerated on every run by translators/cmd/legacytable from the
   `callMigrators` composite literal of /repo/flows/definition/legacy/expressions/functions.go.
   No proofs here. *)
From Coq Require Import List NArith.
Import ListNotations.
Open Scope N_scope.

Definition text := list N.          (* strings are lists of Unicode code points *)

(* functions.go: paramAsIs() / paramDecremented() / paramBySpaces() *)
Inductive pmig := PAsIs | PDecremented | PBySpaces.

(* functions.go: asIs() / asRename(n) / asTemplate(fmt) = [Template fmt []] /
   asOperatorTemplate(fmt, prec...) = [Template fmt precs] / asJoin(sep, prec) /
   asParamMigrators(n, pm...) = asParamMigratorsWithDefaults(n, nil, pm...) / asDateDif() /
   withOptionalDefaults(numRequired, defaults, migrator) *)
Inductive cmig :=
| AsIs
| Rename (new_name : text)
| Template (fmt : text) (precs : list nat)
| Join (sep : text) (prec : nat)
| Params (new_name : text) (defaults : list text) (pms : list pmig)
| DateDif                                                    (* asDateDif() *)
| Optional (required : nat) (defaults : list text) (inner : cmig).   (* withOptionalDefaults(n, defaults, inner) *)
