(* DateText.v — model of the text forms of datetimes, dates and times (C13).  No proofs here.

   Transcribed from
     excellent/types/datetime.go  XDateTime.Render (dates.FormatISO), XDateTime.Format(env), ToXDateTime (XText case)
     excellent/types/date.go      XDate.Render / Format(env), ToXDate (XText case)
     excellent/types/time.go      XTime.Render / Format(env), ToXTime (XText case)
     flows/field.go               FieldValues.Parse (text, number and datetime of a stored field value)
     envs/dates.go                DateTimeFromString, DateFromString, TimeFromString, parseDate, dateFromFormats,
                                  parseTime and the four regular expressions
     gocommon/dates               FormatISO ("2006-01-02T15:04:05.000000Z07:00"), Format for the layouts
                                  YYYY-MM-DD | MM-DD-YYYY | DD-MM-YYYY  x  tt:mm | h:mm aa | tt:mm:ss | h:mm:ss aa,
                                  Date.String ("YYYY-MM-DD"), TimeOfDay.String ("tt:mm:ss.ffffff")
     Go time package              Time.Format and time.Parse for exactly those layout elements, time.Date
   Modelled, not verified: the Go time package, tzdata (a zone is a function [offset] from unix seconds to the UTC
   offset in seconds in force at that instant), the regexp package (the four expressions are re-implemented as
   leftmost-first backtracking matchers over character classes).

   An instant is a number of nanoseconds since 1970-01-01T00:00:00Z (Z).  Strings are lists of code points. *)
From Coq Require Import ZArith NArith List Bool.
From Verif Require Import lib.Dec model.NumText model.Civil.
Import ListNotations.
Open Scope Z_scope.

(* ------------------------------------------------------------------------------------------------ *)
(* fields *)

Record fields := Fields { f_year : Z; f_month : Z; f_day : Z; f_hour : Z; f_min : Z; f_sec : Z; f_ns : Z }.
Record tod := Tod { t_hour : Z; t_min : Z; t_sec : Z; t_ns : Z }.
Definition date := (Z * Z * Z)%type.

Definition giga : Z := 1000000000.

(* broken-down form of a wall-clock second count (seconds since 1970-01-01T00:00:00 local) *)
Definition fields_of_wall (w ns : Z) : fields :=
  let days := w / 86400 in
  let sod := w mod 86400 in
  let '(y, m, d) := civil_from_days days in
  Fields y m d (sod / 3600) (sod mod 3600 / 60) (sod mod 60) ns.

(* time.Date for in-range month/day (hour 24, minute 60, second 60 are normalised by the same arithmetic) *)
Definition wall_of (y m d h mi s : Z) : Z := days_from_civil y m d * 86400 + h * 3600 + mi * 60 + s.

Section Zone.
  (* UTC offset (seconds) of the zone at a unix time (seconds) *)
  Variable offset : Z -> Z.

  Definition unix_of (t : Z) : Z := t / giga.
  Definition wall (t : Z) : Z := unix_of t + offset (unix_of t).
  Definition fields_of (t : Z) : fields := fields_of_wall (wall t) (t mod giga).

  (* time.Date(..., loc): offset guessed at the wall value read as UTC, corrected once *)
  Definition from_wall (w : Z) : Z := w - offset (w - offset w).
End Zone.

(* ------------------------------------------------------------------------------------------------ *)
(* rendering *)

Definition dch (n : Z) : N := Z.to_N (48 + n).
Definition pad2 (n : Z) : text := [dch (n / 10); dch (n mod 10)].
Definition pad4 (n : Z) : text := [dch (n / 1000); dch (n / 100 mod 10); dch (n / 10 mod 10); dch (n mod 10)].
Definition pad6 (n : Z) : text :=
  [dch (n / 100000); dch (n / 10000 mod 10); dch (n / 1000 mod 10); dch (n / 100 mod 10); dch (n / 10 mod 10); dch (n mod 10)].

(* appendInt(b, x, width) for x >= 0 *)
Definition pad_to (w : nat) (s : text) : text := repeat 48%N (w - length s) ++ s.
Definition int_text (x : Z) (w : nat) : text :=
  if x <? 0 then 45%N :: pad_to w (digits (Z.abs_N x)) else pad_to w (digits (Z.to_N x)).

(* "2006": four digits for 0..9999 (the range the property speaks about), Go's general rule otherwise *)
Definition year_text (y : Z) : text := if (0 <=? y) && (y <=? 9999) then pad4 y else int_text y 4.

(* "Z07:00" *)
Definition zone_text (off : Z) : text :=
  if off =? 0 then [90%N]
  else let zone := Z.quot off 60 in
       (if zone <? 0 then [45%N] else [43%N]) ++ pad2 (Z.abs zone / 60) ++ [58%N] ++ pad2 (Z.abs zone mod 60).

Definition iso_date_text (y m d : Z) : text := year_text y ++ [45%N] ++ pad2 m ++ [45%N] ++ pad2 d.

(* dates.FormatISO *)
Definition iso_of_fields (f : fields) (off : Z) : text :=
  iso_date_text (f_year f) (f_month f) (f_day f) ++ [84%N] ++ pad2 (f_hour f) ++ [58%N] ++ pad2 (f_min f) ++ [58%N]
  ++ pad2 (f_sec f) ++ [46%N] ++ pad6 (f_ns f / 1000) ++ zone_text off.

Definition iso (offset : Z -> Z) (t : Z) : text := iso_of_fields (fields_of offset t) (offset (unix_of t)).

Inductive dfmt := YMD | MDY | DMY.
Inductive tfmt := HM | HMAP | HMS | HMSAP.

(* the environment as far as these conversions read it: formats, the lower-cased am/pm markers of its default
   locale (gocommon/dates translation), and the current year (two-digit year pivot) *)
Record env := Env { e_df : dfmt; e_tf : tfmt; e_am : text; e_pm : text; e_curyear : Z }.

Definition date_text (df : dfmt) (y m d : Z) : text :=
  match df with
  | YMD => year_text y ++ [45%N] ++ pad2 m ++ [45%N] ++ pad2 d
  | MDY => pad2 m ++ [45%N] ++ pad2 d ++ [45%N] ++ year_text y
  | DMY => pad2 d ++ [45%N] ++ pad2 m ++ [45%N] ++ year_text y
  end.

(* "3": hour on the 12-hour clock without padding *)
Definition hour12 (h : Z) : Z := if h mod 12 =? 0 then 12 else h mod 12.
Definition num_text (n : Z) : text := digits (Z.to_N n).
Definition ampm_text (e : env) (h : Z) : text := if 12 <=? h then e_pm e else e_am e.

Definition time_text (e : env) (h mi s : Z) : text :=
  match e_tf e with
  | HM => pad2 h ++ [58%N] ++ pad2 mi
  | HMAP => num_text (hour12 h) ++ [58%N] ++ pad2 mi ++ [32%N] ++ ampm_text e h
  | HMS => pad2 h ++ [58%N] ++ pad2 mi ++ [58%N] ++ pad2 s
  | HMSAP => num_text (hour12 h) ++ [58%N] ++ pad2 mi ++ [58%N] ++ pad2 s ++ [32%N] ++ ampm_text e h
  end.

(* XDateTime.Format(env): date format, a space, time format, in the environment's zone *)
Definition format_of_fields (e : env) (f : fields) : text :=
  date_text (e_df e) (f_year f) (f_month f) (f_day f) ++ [32%N] ++ time_text e (f_hour f) (f_min f) (f_sec f).
Definition format_datetime (offset : Z -> Z) (e : env) (t : Z) : text := format_of_fields e (fields_of offset t).

(* XDate.Render / Format, XTime.Render / Format *)
Definition render_date (d : date) : text := let '(y, m, dd) := d in iso_date_text y m dd.
Definition format_date (e : env) (d : date) : text := let '(y, m, dd) := d in date_text (e_df e) y m dd.
Definition render_time (t : tod) : text :=
  pad2 (t_hour t) ++ [58%N] ++ pad2 (t_min t) ++ [58%N] ++ pad2 (t_sec t) ++ [46%N] ++ pad6 (t_ns t / 1000).
Definition format_time (e : env) (t : tod) : text := time_text e (t_hour t) (t_min t) (t_sec t).

(* ------------------------------------------------------------------------------------------------ *)
(* time.Parse for the layouts used *)

Definition dval (c : N) : Z := Z.of_N c - 48.
Definition atoi (s : text) : Z := Z.of_N (undigits s).

(* getnum(s, fixed) *)
Definition getnum (fixed : bool) (s : text) : option (Z * text) :=
  match s with
  | c1 :: r1 =>
      if is_digit c1 then
        match r1 with
        | c2 :: r2 => if is_digit c2 then Some (dval c1 * 10 + dval c2, r2)
                      else if fixed then None else Some (dval c1, r1)
        | [] => if fixed then None else Some (dval c1, r1)
        end
      else None
  | [] => None
  end.

(* stdLongYear: exactly four digits *)
Definition get_year4 (s : text) : option (Z * text) :=
  match s with
  | c1 :: c2 :: c3 :: c4 :: r =>
      if is_digit c1 && is_digit c2 && is_digit c3 && is_digit c4
      then Some (((dval c1 * 10 + dval c2) * 10 + dval c3) * 10 + dval c4, r) else None
  | _ => None
  end.

(* skip(value, prefix) for a one-character, non-space prefix *)
Definition expect (c : N) (s : text) : option text :=
  match s with x :: r => if N.eqb x c then Some r else None | [] => None end.

(* parseNanoseconds(value, n): [ds] are the digits after the point (at least one); at most nine are read *)
Definition nanos_of_digits (ds : text) : Z :=
  let ds9 := firstn 9 ds in atoi ds9 * 10 ^ Z.of_nat (9 - length ds9).

(* optional fraction after the seconds when the layout has none: '.' or ',' followed by a digit *)
Definition get_fraction (s : text) : Z * text :=
  match s with
  | c :: ((d1 :: _) as r) =>
      if ((c =? 46) || (c =? 44))%N && is_digit d1
      then let (ds, rest) := span is_digit r in (nanos_of_digits ds, rest)
      else (0, s)
  | _ => (0, s)
  end.

(* stdISO8601ColonTZ "Z07:00": offset in seconds *)
Definition get_zone (s : text) : option (Z * text) :=
  match s with
  | 90%N :: r => Some (0, r)
  | sg :: h1 :: h2 :: c :: m1 :: m2 :: r =>
      if negb (c =? 58)%N then None
      else if is_digit h1 && is_digit h2 && is_digit m1 && is_digit m2 then
        let hr := dval h1 * 10 + dval h2 in
        let mm := dval m1 * 10 + dval m2 in
        if (24 <? hr) || (60 <? mm) then None
        else if (sg =? 43)%N then Some ((hr * 60 + mm) * 60, r)
        else if (sg =? 45)%N then Some (- ((hr * 60 + mm) * 60), r)
        else None
      else None
  | _ => None
  end.

Definition bind {A B} (a : option A) (f : A -> option B) : option B := match a with Some x => f x | None => None end.

(* "2006-01-02" prefix of the layouts; the day is validated against the month at the end, as in time.Parse *)
Definition get_ymd (s : text) : option (Z * Z * Z * text) :=
  bind (get_year4 s) (fun '(y, s) =>
  bind (expect 45 s) (fun s =>
  bind (getnum true s) (fun '(m, s) =>
  if (m <=? 0) || (12 <? m) then None else
  bind (expect 45 s) (fun s =>
  bind (getnum true s) (fun '(d, s) => Some (y, m, d, s)))))).

Definition day_ok (y m d : Z) : bool := (1 <=? d) && (d <=? days_in_month y m).

(* envs.IsWritableOffset: time.Parse lets the offset hour be 24 and the minute 60, and +24:60 is an offset of 25 hours,
   which is written +25:00 and refused by every reader; DateTimeFromString does not take such a text as ISO *)
Definition writable_offset (zo : Z) : bool := (-90000 <? zo) && (zo <? 90000).

(* time.ParseInLocation with "2006-01-02T15:04:05Z07:00" (secs = true) or "2006-01-02T15:04Z07:00": the instant *)
Definition parse_iso_layout (secs : bool) (s : text) : option Z :=
  bind (get_ymd s) (fun '(y, m, d, s) =>
  bind (expect 84 s) (fun s =>
  bind (getnum false s) (fun '(h, s) =>
  if 24 <=? h then None else
  bind (expect 58 s) (fun s =>
  bind (getnum true s) (fun '(mi, s) =>
  if 60 <=? mi then None else
  bind (if secs
        then bind (expect 58 s) (fun s =>
             bind (getnum true s) (fun '(sec, s) =>
             if 60 <=? sec then None else let (ns, s) := get_fraction s in Some (sec, ns, s)))
        else Some (0, 0, s)) (fun '(sec, ns, s) =>
  bind (get_zone s) (fun '(zo, s) =>
  match s with
  | [] => if day_ok y m d && writable_offset zo then Some ((wall_of y m d h mi sec - zo) * giga + ns) else None
  | _ => None
  end))))))).

(* time.ParseInLocation("2006-01-02", s, UTC) *)
Definition parse_iso_date (s : text) : option date :=
  bind (get_ymd s) (fun '(y, m, d, s) =>
  match s with [] => if day_ok y m d then Some (y, m, d) else None | _ => None end).

(* ------------------------------------------------------------------------------------------------ *)
(* character classes the regular expressions distinguish *)

Inductive cclass :=
| CDigit            (* [0-9] *)
| CDash             (* - / \   : date separators, not word characters *)
| CUnder            (* _       : date separator and word character *)
| CSpace            (* space   : date separator *)
| CDot              (* .       : date separator, fraction point *)
| CColon
| CA | CP | CM      (* a A, p P, m M *)
| CWord             (* other [A-Za-z] *)
| COther.           (* anything else: not a word character *)

Definition cls (c : N) : cclass :=
  if is_digit c then CDigit
  else if ((c =? 45) || (c =? 47) || (c =? 92))%N then CDash
  else if (c =? 95)%N then CUnder
  else if (c =? 32)%N then CSpace
  else if (c =? 46)%N then CDot
  else if (c =? 58)%N then CColon
  else if ((c =? 97) || (c =? 65))%N then CA
  else if ((c =? 112) || (c =? 80))%N then CP
  else if ((c =? 109) || (c =? 77))%N then CM
  else if (((65 <=? c) && (c <=? 90)) || ((97 <=? c) && (c <=? 122)))%N then CWord
  else COther.

Definition is_wordc (k : cclass) : bool :=
  match k with CDigit | CUnder | CA | CP | CM | CWord => true | _ => false end.
Definition is_sepc (k : cclass) : bool :=
  match k with CDash | CUnder | CSpace | CDot => true | _ => false end.
Definition is_digc (k : cclass) : bool := match k with CDigit => true | _ => false end.

(* is the next character (head of the rest) a word character; end of text counts as not *)
Definition next_word (r : list cclass) : bool := match r with k :: _ => is_wordc k | [] => false end.
Definition prev_word (p : option cclass) : bool := match p with Some k => is_wordc k | None => false end.

Definition orelse {A} (a b : option A) : option A := match a with Some _ => a | None => b end.

Fixpoint first_some {A B} (f : A -> option B) (l : list A) : option B :=
  match l with [] => None | x :: r => orelse (f x) (first_some f r) end.

(* exactly n digits at the head *)
Fixpoint digs (n : nat) (r : list cclass) : option (list cclass) :=
  match n with
  | O => Some r
  | S n' => match r with CDigit :: r' => digs n' r' | _ => None end
  end.

Definition sepc (r : list cclass) : option (list cclass) :=
  match r with k :: r' => if is_sepc k then Some r' else None | [] => None end.

(* \b D{a} sep D{b} sep D{c} \b at the head, for one choice of lengths *)
Definition date_shape (r : list cclass) (abc : nat * nat * nat) : option (nat * nat * nat) :=
  let '(a, b, c) := abc in
  bind (digs a r) (fun r => bind (sepc r) (fun r => bind (digs b r) (fun r => bind (sepc r) (fun r =>
  bind (digs c r) (fun r => if next_word r then None else Some abc))))).

(* preference order of the backtracking matcher *)
Definition prefs_dmy : list (nat * nat * nat) :=   (* ([0-9]{1,2}) sep ([0-9]{1,2}) sep ([0-9]{4}|[0-9]{2}) *)
  [(2,2,4); (2,2,2); (2,1,4); (2,1,2); (1,2,4); (1,2,2); (1,1,4); (1,1,2)]%nat.
Definition prefs_ymd : list (nat * nat * nat) :=   (* ([0-9]{4}|[0-9]{2}) sep ([0-9]{1,2}) sep ([0-9]{1,2}) *)
  [(4,2,2); (4,2,1); (4,1,2); (4,1,1); (2,2,2); (2,2,1); (2,1,2); (2,1,1)]%nat.

Definition date_match (prefs : list (nat * nat * nat)) (p : option cclass) (r : list cclass)
  : option ((nat * nat * nat) * nat) :=
  if prev_word p then None
  else match first_some (date_shape r) prefs with
       | Some (a, b, c) => Some ((a, b, c), (a + 1 + b + 1 + c)%nat)
       | None => None
       end.

(* regexp.FindAll: leftmost match, then continue after it; [skip] characters belong to the previous match *)
Fixpoint scan {R} (m : option cclass -> list cclass -> option (R * nat)) (p : option cclass) (r : list cclass)
         (pos skip : nat) : list (nat * R) :=
  match r with
  | [] => []
  | k :: r' =>
      match skip with
      | S sk => scan m (Some k) r' (S pos) sk
      | O => match m p r with
             | Some (res, len) => (pos, res) :: scan m (Some k) r' (S pos) (len - 1)
             | None => scan m (Some k) r' (S pos) 0
             end
      end
  end.

(* ---- patternTime  \b(\d{1,2})(?:(?:\:)?(\d{2})(?:\:(\d{2})(?:\.(\d+))?)?)?\W*([aApP][mM])?\b ---- *)

Record tmatch := TMatch { tm_h : nat;        (* digits of the hour *)
                          tm_colon : bool;   (* ':' before the minutes *)
                          tm_min : bool; tm_sec : bool;
                          tm_frac : nat;     (* digits of the fraction, 0 = no fraction *)
                          tm_w : nat;        (* \W* *)
                          tm_ap : bool }.

Fixpoint lead_len (p : cclass -> bool) (r : list cclass) : nat :=
  match r with k :: r' => if p k then S (lead_len p r') else O | [] => O end.

(* \W*([aApP][mM])?\b after a digit: greedy, longest \W* first *)
Fixpoint try_w (k : nat) (r : list cclass) : option (nat * bool) :=
  let r' := skipn k r in
  let with_ap := match r' with
                 | c1 :: CM :: r'' =>
                     match c1 with CA | CP => if next_word r'' then None else Some (k, true) | _ => None end
                 | _ => None
                 end in
  let without := if xorb (Nat.eqb k 0) (next_word r') then Some (k, false) else None in
  let here := orelse with_ap without in
  match k with O => here | S k' => orelse here (try_w k' r) end.

Definition ttail (r : list cclass) : option (nat * bool) := try_w (lead_len (fun k => negb (is_wordc k)) r) r.

(* (?:\.(\d+))? then the tail; [r] starts after the seconds *)
Fixpoint try_frac (k : nat) (r : list cclass) : option (nat * (nat * bool)) :=
  match k with
  | O => None
  | S k' => orelse (match ttail (skipn k r) with Some t => Some (k, t) | None => None end) (try_frac k' r)
  end.

Definition after_sec (r : list cclass) : option (nat * (nat * bool)) :=
  orelse (match r with CDot :: r' => try_frac (lead_len is_digc r') r' | _ => None end)
         (match ttail r with Some t => Some (O, t) | None => None end).

(* (?:\:(\d{2}) ...)? ; [r] starts after the minutes: (has seconds, fraction digits, (\W count, am/pm)) *)
Definition after_min (r : list cclass) : option (bool * (nat * (nat * bool))) :=
  orelse (match r with
          | CColon :: r' => match digs 2 r' with
                            | Some r'' => match after_sec r'' with Some x => Some (true, x) | None => None end
                            | None => None
                            end
          | _ => None
          end)
         (match ttail r with Some t => Some (false, (O, t)) | None => None end).

Definition mk_tmatch (h : nat) (colon mi : bool) (x : bool * (nat * (nat * bool))) : tmatch :=
  let '(sec, (fr, (w, ap))) := x in TMatch h colon mi sec fr w ap.

(* [r] starts after the hour digits *)
Definition after_hour (h : nat) (r : list cclass) : option tmatch :=
  orelse (match r with
          | CColon :: r' => match digs 2 r' with
                            | Some r'' => match after_min r'' with Some x => Some (mk_tmatch h true true x) | None => None end
                            | None => None
                            end
          | _ => None
          end)
 (orelse (match digs 2 r with
          | Some r'' => match after_min r'' with Some x => Some (mk_tmatch h false true x) | None => None end
          | None => None
          end)
         (match ttail r with Some (w, ap) => Some (TMatch h false false false O w ap) | None => None end)).

Definition tm_len (m : tmatch) : nat :=
  (tm_h m + (if tm_colon m then 1 else 0) + (if tm_min m then 2 else 0) + (if tm_sec m then 3 else 0)
   + (match tm_frac m with O => 0 | n => S n end) + tm_w m + (if tm_ap m then 2 else 0))%nat.

Definition time_match (p : option cclass) (r : list cclass) : option (tmatch * nat) :=
  if prev_word p then None
  else match first_some (fun h => match digs h r with Some r' => after_hour h r' | None => None end) [2%nat; 1%nat] with
       | Some m => Some (m, tm_len m)
       | None => None
       end.

(* ------------------------------------------------------------------------------------------------ *)
(* envs/dates.go *)

Definition is_trimc (c : N) : bool := ((c =? 32) || (c =? 10) || (c =? 13) || (c =? 9))%N.
Definition trim_dt : text -> text := trim_with is_trimc.

Definition sub (s : text) (pos len : nat) : text := firstn len (skipn pos s).

(* dateFromFormats: first match whose fields are believable; the date and the text after the match.
   [order] says which captured group is day / month / year. *)
Fixpoint pick_date (cur : Z) (ymd_order : bool) (day_first : bool) (s : text)
         (ms : list (nat * (nat * nat * nat))) : option (date * text) :=
  match ms with
  | [] => None
  | (pos, (a, b, c)) :: rest =>
      let g1 := sub s pos a in
      let g2 := sub s (pos + a + 1) b in
      let g3 := sub s (pos + a + 1 + b + 1) c in
      let '(gy, gm, gd) := if ymd_order then (g1, g2, g3) else if day_first then (g3, g2, g1) else (g3, g1, g2) in
      let year0 := atoi gy in
      let year := if Nat.eqb (length gy) 2 then (if cur mod 1000 <? year0 then year0 + 1900 else year0 + 2000) else year0 in
      let month := atoi gm in
      let day := atoi gd in
      if (day =? 0) || (31 <? day) || (month =? 0) || (12 <? month) || negb (day_ok year month day)
      then pick_date cur ymd_order day_first s rest
      else Some ((year, month, day), skipn (pos + a + 1 + b + 1 + c) s)
  end.

Definition date_from_formats (e : env) (s : text) : option (date * text) :=
  let cs := map cls s in
  match e_df e with
  | YMD => pick_date (e_curyear e) true false s (scan (date_match prefs_ymd) None cs 0 0)
  | DMY => pick_date (e_curyear e) false true s (scan (date_match prefs_dmy) None cs 0 0)
  | MDY => pick_date (e_curyear e) false false s (scan (date_match prefs_dmy) None cs 0 0)
  end.

(* parseDate *)
Definition parse_date (e : env) (s : text) : option (date * text) :=
  let s := trim_dt s in
  match parse_iso_date (firstn 10 s) with
  | Some d => Some (d, skipn 10 s)
  | None => date_from_formats e s
  end.

(* the am/pm and 24:00 adjustments of parseTime *)
Definition adjust_hour (hour0 : Z) (is_pm is_am : bool) (minute second nanos : Z) : Z :=
  let hour1 := if (hour0 <? 12) && is_pm then hour0 + 12
               else if (hour0 =? 12) && is_am then hour0 - 12 else hour0 in
  if (hour1 =? 24) && (minute =? 0) && (second =? 0) && (nanos =? 0) then 0 else hour1.

(* hour > 23, minute > 59, second > 59 (24:00:00 has become 00:00:00 before this test) *)
Definition clock_bad (hour minute second : Z) : bool := (23 <? hour) || (59 <? minute) || (59 <? second).

(* parseTime: first match whose fields are in range *)
Fixpoint pick_time (s : text) (ms : list (nat * tmatch)) : option tod :=
  match ms with
  | [] => None
  | (pos, m) :: rest =>
      let p_min := (pos + tm_h m + (if tm_colon m then 1 else 0))%nat in
      let p_sec := (p_min + 2 + 1)%nat in
      let p_frac := (p_sec + 2 + 1)%nat in
      let hour0 := atoi (sub s pos (tm_h m)) in
      let minute := if tm_min m then atoi (sub s p_min 2) else 0 in
      let second := if tm_sec m then atoi (sub s p_sec 2) else 0 in
      let ap := if tm_ap m then nth (pos + tm_len m - 2) s 0%N else 0%N in
      let is_pm := ((ap =? 112) || (ap =? 80))%N in
      let is_am := ((ap =? 97) || (ap =? 65))%N in
      let nanos := match tm_frac m with O => 0 | n => nanos_of_digits (sub s p_frac n) end in
      let hour := adjust_hour hour0 is_pm is_am minute second nanos in
      if clock_bad hour minute second then pick_time s rest
      else Some (Tod hour minute second nanos)
  end.

Definition parse_time (s : text) : option tod := pick_time s (scan time_match None (map cls s) 0 0).

(* TimeFromString, DateFromString *)
Definition time_from_string (s : text) : option tod := parse_time s.
Definition date_from_string (e : env) (s : text) : option date :=
  match parse_date e s with Some (d, _) => Some d | None => None end.

(* the last step of DateTimeFromString: time.Date in the environment's zone, and when Go answers a skipped wall clock
   time with an EARLIER one (the zone is west of UTC; the answer can lie on the previous day) the first instant after
   the gap instead: the end of the zone period of Go's answer (Time.ZoneBounds; [zend] = None when the period has no
   end), with no sub-second part *)
Definition combine (offset : Z -> Z) (zend : Z -> option Z) (w ns : Z) : Z :=
  let p := from_wall offset w in
  if p + offset p <? w
  then match zend p with Some e => e * giga | None => p * giga + ns end
  else p * giga + ns.

(* DateTimeFromString(env, str, fillTime): the instant.  [fill] is the time of day used when the text has a date but
   no time: 00:00:00 for fillTime = false (ToXDateTime), the current time of day in the environment's zone for
   fillTime = true (ToXDateTimeWithTimeFill, used by FieldValues.Parse) *)
Definition datetime_from_string_src (fill : tod) (offset : Z -> Z) (zend : Z -> option Z) (e : env) (s : text)
  : option (Z * bool) :=     (* the instant, and whether it was built in the environment's zone (not an ISO text) *)
  let s := trim_dt s in
  match parse_iso_layout true s with
  | Some t => Some (t, false)
  | None =>
    match parse_iso_layout false s with
    | Some t => Some (t, false)
    | None =>
      match parse_date e s with
      | None => None
      | Some ((y, m, d), rest) =>
          let t := match parse_time rest with Some t => t | None => fill end in
          Some (combine offset zend (wall_of y m d (t_hour t) (t_min t) (t_sec t)) (t_ns t), true)
      end
    end
  end.

Definition datetime_from_string_with (fill : tod) (offset : Z -> Z) (zend : Z -> option Z) (e : env) (s : text) : option Z :=
  match datetime_from_string_src fill offset zend e s with Some (t, _) => Some t | None => None end.

Definition datetime_from_string : (Z -> Z) -> (Z -> option Z) -> env -> text -> option Z :=
  datetime_from_string_with (Tod 0 0 0 0).

(* a datetime as it is once marshalled (dates.FormatISO: microseconds, zone offset in whole minutes) and read back:
   what FieldValues.Parse keeps (asStored).  [off] is the offset of the value's zone at the instant. *)
Definition sec_part (off : Z) : Z := off - 60 * Z.quot off 60.
Definition as_stored (off t : Z) : Z := t - t mod 1000 + sec_part off * giga.

(* flows/field.go FieldValues.Parse: the typed values stored beside the text of a contact field value
   (None = empty text, no value at all); locations are not modelled.  A datetime read from an ISO text carries the
   offset written in the text (whole minutes), one read in an environment format the environment's zone. *)
Definition field_parse (fill : tod) (offset : Z -> Z) (zend : Z -> option Z) (e : env) (raw : text)
  : option (option dec * option Z) :=
  match raw with
  | [] => None
  | _ => Some (parse_number raw,
               match datetime_from_string_src fill offset zend e raw with
               | Some (t, true) => Some (as_stored (offset (unix_of t)) t)
               | Some (t, false) => Some (as_stored 0 t)
               | None => None
               end)
  end.
