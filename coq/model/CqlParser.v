(* CqlParser.v — model of the parsing side of contactql (property C14).

   Lexer:   the token rules of antlr/ContactQL.g4 (+ LexUnicode.g4) as regular expressions, regenerated into
            gen/GrammarCQL.v on every run, run through the maximal-munch tokenizer of lib/RegexLM.v.
   Parser:  the rule `expression` with ANTLR4's treatment of left recursion: a primary followed by a loop of
            binary continuations, each guarded by precpred(k) and recursing at k+1, where k is the position of
            the alternative counted from the end (generated parser: AND 6/7, juxtaposition 5/6, OR 4/5 — here
            computed from gen/GrammarCQL.v's [expression_alts]).  Any input outside the language is a syntax
            error (ParseQuery returns the error listener's first error; error recovery is irrelevant).
   Visitor: contactql/visitor.go VisitCondition, VisitImplicitCondition, VisitCombination*, VisitTextLiteral,
            VisitStringLiteral (strconv.Unquote = lib/Quote.v).
   ParseQuery: contactql/parser.go (TrimSpace, phone-number rewrite, parse, visit, validate, Simplify).

   External functions (fields of [penv]; universally quantified in the theorems, filled from the real
   functions by the harness in the correspondence run):
     pe_lower        unicode.ToLower per code point (strings.ToLower)
     pe_phone        utils.ParsePhoneNumber after its onlyPhone regex (urns.ParseNumber + urns.New), with
                     the environment's default country
     pe_urn          urns.Parse(value) followed by ToParts: (scheme, path) when the value is a URN
     pe_valid_scheme urns.IsValidScheme
     pe_tokens       utils.TokenizeStringByUnicodeSeg
     pe_valid        Condition.validate(env, resolver) == nil  (modelled for property C15 in model/CqlEval.v)
   The ANTLR runtime and the generated lexer/parser are not verified; this model is validated against them
   differentially (token streams and trees).  No proofs in this file. *)
From Coq Require Import List NArith ZArith Bool.
From Verif Require Import lib.Quote lib.RegexLM model.CqlSyntax gen.GrammarCQL model.CqlPrinter.
Import ListNotations.
Open Scope N_scope.

(* ---- lexer ------------------------------------------------------------------------------------------ *)

Definition token := (tkind * text)%type.

Definition cql_lex (s : text) : lexres tkind := lex lexer_rules s.

(* ---- parser ----------------------------------------------------------------------------------------- *)

(* the parse tree, groupings elided *)
Inductive ast :=
| ACond (prop comp : text) (lit : token)
| AImplicit (lit : token)
| ABin (b : boolop) (l r : ast).

Definition is_lit (k : tkind) : bool := existsb (fun p => tkind_eqb (fst p) k) literal_alts.

Definition galt_eqb (a b : galt) : bool :=
  match a, b with
  | GBinary None, GBinary None => true
  | GBinary (Some x), GBinary (Some y) => tkind_eqb x y
  | GGroup, GGroup | GCondition, GCondition | GLiteral, GLiteral => true
  | _, _ => false
  end.

(* precedence of an alternative: its position counted from the end, 1-based; 0 when absent *)
Fixpoint prec_in (alts : list galt) (g : galt) : nat :=
  match alts with
  | [] => O
  | a :: r => if galt_eqb a g then length alts else prec_in r g
  end.

Definition prec_and : nat := prec_in expression_alts (GBinary (Some AND)).
Definition prec_juxt : nat := prec_in expression_alts (GBinary None).
Definition prec_or : nat := prec_in expression_alts (GBinary (Some OR)).

Inductive pres (A : Type) :=
| PFuel                         (* unreachable with the fuel [parse_tokens] supplies *)
| PErr                          (* syntax error *)
| POk (x : A) (rest : list token).
Arguments PFuel {A}.
Arguments PErr {A}.
Arguments POk {A}.

Definition starts_primary (k : tkind) : bool := is_lit k || tkind_eqb k LPAREN.

Fixpoint parse_expr (fuel : nat) (p : nat) (ts : list token) : pres ast :=
  match fuel with
  | O => PFuel
  | S f =>
      (* primary *)
      let prim :=
        match ts with
        | [] => PErr
        | (k, t) :: r =>
            if tkind_eqb k LPAREN then
              match parse_expr f 0 r with
              | POk e ((k2, _) :: r2) => if tkind_eqb k2 RPAREN then POk e r2 else PErr
              | POk _ [] => PErr
              | PErr => PErr
              | PFuel => PFuel
              end
            else if tkind_eqb k PROPERTY then
              match r with
              | (k2, t2) :: r2 =>
                  if tkind_eqb k2 COMPARATOR then
                    match r2 with
                    | (k3, t3) :: r3 => if is_lit k3 then POk (ACond t t2 (k3, t3)) r3 else PErr
                    | [] => PErr
                    end
                  else POk (AImplicit (k, t)) r
              | [] => POk (AImplicit (k, t)) r
              end
            else if is_lit k then POk (AImplicit (k, t)) r
            else PErr
        end in
      match prim with
      | POk e r => parse_loop f p e r
      | other => other
      end
  end
with parse_loop (fuel : nat) (p : nat) (left : ast) (ts : list token) : pres ast :=
  match fuel with
  | O => PFuel
  | S f =>
      match ts with
      | [] => POk left []
      | (k, _) :: r =>
          if tkind_eqb k AND then
            if Nat.leb p prec_and then
              match parse_expr f (S prec_and) r with
              | POk e r2 => parse_loop f p (ABin BAnd left e) r2
              | other => other
              end
            else POk left ts
          else if tkind_eqb k OR then
            if Nat.leb p prec_or then
              match parse_expr f (S prec_or) r with
              | POk e r2 => parse_loop f p (ABin BOr left e) r2
              | other => other
              end
            else POk left ts
          else if starts_primary k then
            if Nat.leb p prec_juxt then
              match parse_expr f (S prec_juxt) ts with
              | POk e r2 => parse_loop f p (ABin BAnd left e) r2
              | other => other
              end
            else POk left ts
          else POk left ts
      end
  end.

(* parse : expression EOF *)
Definition parse_tokens (ts : list token) : pres ast :=
  match parse_expr (4 * length ts + 4) 0 ts with
  | POk e [] => POk e []
  | POk _ (_ :: _) => PErr
  | other => other
  end.

(* ---- environment -------------------------------------------------------------------------------------- *)

Record penv := {
  pe_redact : bool;
  pe_lower : N -> N;
  pe_phone : text -> option text;
  pe_urn : text -> option (text * text);
  pe_valid_scheme : text -> bool;
  pe_tokens : text -> list text;
  pe_valid : ptype -> text -> oper -> text -> bool
}.

(* ---- strings ------------------------------------------------------------------------------------------ *)

(* unicode.IsSpace *)
Definition is_space (c : N) : bool :=
  (9 <=? c) && (c <=? 13) || (c =? 32) || (c =? 133) || (c =? 160) || (c =? 5760)
  || (8192 <=? c) && (c <=? 8202) || (c =? 8232) || (c =? 8233) || (c =? 8239) || (c =? 8287)
  || (c =? 12288).

Fixpoint trim_left (s : text) : text :=
  match s with
  | c :: r => if is_space c then trim_left r else s
  | [] => []
  end.

(* strings.TrimSpace *)
Definition trim (s : text) : text := rev (trim_left (rev (trim_left s))).

Definition lower (e : penv) (s : text) : text := map (pe_lower e) s.

Definition utf8_len1 (c : N) : N :=
  if c <? 128 then 1 else if c <? 2048 then 2 else if c <? 65536 then 3 else 4.
Definition utf8_len (s : text) : N := fold_right (fun c n => utf8_len1 c + n) 0 s.

(* tokenizeNameValue *)
Definition name_tokens (e : penv) (s : text) : list text :=
  filter (fun t => min_name_token_contains_length <=? utf8_len t) (pe_tokens e s).

(* split at the first '.': (before, Some after) *)
Fixpoint split_dot (s : text) : text * option text :=
  match s with
  | [] => ([], None)
  | c :: r => if c =? 46 then ([], Some r)
              else let '(a, b) := split_dot r in (c :: a, b)
  end.

(* utils.onlyPhone  ^\+?[\d \.\-\(\)]{5,}$ *)
Definition phone_char (c : N) : bool :=
  is_digit c || (c =? 32) || (c =? 46) || (c =? 45) || (c =? 40) || (c =? 41).
Definition only_phone (s : text) : bool :=
  let body := match s with c :: r => if c =? 43 then r else s | [] => s end in
  forallb phone_char body && Nat.leb 5 (length body).

(* implicitIsPhoneNumberRegex  ^\+?[\-\d]{4,}$ *)
Definition implicit_phone (s : text) : bool :=
  let body := match s with c :: r => if c =? 43 then r else s | [] => s end in
  forallb (fun c => is_digit c || (c =? 45)) body && Nat.leb 4 (length body).

(* cleanPhoneNumberRegex.ReplaceAllLiteralString(value, ""): keeps + and digits *)
Definition clean_phone (s : text) : text := filter (fun c => (c =? 43) || is_digit c) s.

(* strconv.Atoi: [+-]? digits+, within int64 *)
Fixpoint digits_val (acc : Z) (s : text) : Z :=
  match s with
  | [] => acc
  | c :: r => digits_val (acc * 10 + Z.of_N (c - 48)) r
  end.

Definition atoi (s : text) : option Z :=
  let '(neg, body) := match s with
                      | c :: r => if c =? 43 then (false, r) else if c =? 45 then (true, r) else (false, s)
                      | [] => (false, s)
                      end in
  if all_digits1 body then
    let v := digits_val 0 body in
    let v := if neg then Z.opp v else v in
    if ((-9223372036854775808 <=? v) && (v <=? 9223372036854775807))%Z then Some v else None
  else None.

(* strconv.Itoa *)
Fixpoint pos_digits (fuel : nat) (n : N) (acc : text) : text :=
  match fuel with
  | O => acc
  | S f => let acc' := (48 + n mod 10) :: acc in
           if n / 10 =? 0 then acc' else pos_digits f (n / 10) acc'
  end.
Definition itoa (z : Z) : text :=
  match z with
  | Z0 => [48]
  | Zpos p => pos_digits 20 (Npos p) []
  | Zneg p => 45 :: pos_digits 20 (Npos p) []
  end.

(* ---- visitor -------------------------------------------------------------------------------------------- *)

Inductive verr := ERedactedURNs | EUnknownPropertyType.

Inductive vres :=
| VOutside                                  (* a STRING literal unquotes to bytes that are not valid UTF-8 *)
| VNode (n : node) (errs : list verr).

Definition k_fields : text := [102; 105; 101; 108; 100; 115].
Definition k_urns : text := [117; 114; 110; 115].
Definition k_tel : text := [116; 101; 108].

Inductive lres := LOutside | LVal (v : text).

(* VisitTextLiteral / VisitStringLiteral *)
Definition literal_value (t : token) : lres :=
  let '(k, s) := t in
  match find (fun p => tkind_eqb (fst p) k) literal_alts with
  | Some (_, LitString) =>
      match unquote s with
      | UOk v => LVal v
      | USyntax => LVal (removelast (tl s))       (* value[1 : len(value)-1] *)
      | UOutside => LOutside
      | UFuel => LOutside
      end
  | _ => LVal s
  end.

Definition lookup_oper (t : text) : oper :=
  match lookup t operator_aliases with
  | Some o => o
  | None => match find (fun p => text_eqb (snd p) t) operator_texts with
            | Some (o, _) => o
            | None => OpOther t
            end
  end.

Definition is_attribute (k : text) : bool :=
  match lookup k attributes with Some _ => true | None => false end.

Definition is_nil (s : text) : bool := match s with [] => true | _ => false end.

(* VisitCondition *)
Definition visit_condition (e : penv) (prop comp : text) (value : text) : node * list verr :=
  let prop_text := lower e prop in
  let o := lookup_oper (lower e comp) in
  let redacted := pe_redact e && negb (is_nil value) in
  match split_dot prop_text with
  | (p0, Some p1) =>
      if text_eqb p0 k_fields then (Cond PField p1 o value, [])
      else if text_eqb p0 k_urns then (Cond PURN p1 o value, if redacted then [ERedactedURNs] else [])
      else (Cond PNone [] o value, [EUnknownPropertyType])
  | (_, None) =>
      if is_attribute prop_text then
        (Cond PAttr prop_text o value,
         if text_eqb prop_text AttributeURN && redacted then [ERedactedURNs] else [])
      else if pe_valid_scheme e prop_text then
        (Cond PURN prop_text o value, if redacted then [ERedactedURNs] else [])
      else (Cond PField prop_text o value, [])
  end.

(* VisitImplicitCondition *)
Definition visit_implicit (e : penv) (value : text) : node :=
  let name_cond :=
    Cond PAttr AttributeName (match name_tokens e value with [] => OpEqual | _ => OpContains end) value in
  if pe_redact e then
    match atoi value with
    | Some n => Cond PAttr AttributeID OpEqual (itoa n)
    | None => name_cond
    end
  else
    let not_urn :=
      if implicit_phone value then Cond PURN k_tel OpContains (clean_phone value) else name_cond in
    match pe_urn e value with
    | Some (scheme, path) =>
        if pe_valid_scheme e scheme then Cond PURN scheme OpEqual path else not_urn
    | None => not_urn
    end.

Fixpoint visit (e : penv) (a : ast) : vres :=
  match a with
  | ACond prop comp lit =>
      match literal_value lit with
      | LOutside => VOutside
      | LVal v => let '(n, errs) := visit_condition e prop comp v in VNode n errs
      end
  | AImplicit lit =>
      match literal_value lit with
      | LOutside => VOutside
      | LVal v => VNode (visit_implicit e v) []
      end
  | ABin b l r =>
      match visit e l, visit e r with
      | VNode n1 e1, VNode n2 e2 => VNode (Comb b [n1; n2]) (e1 ++ e2)
      | _, _ => VOutside
      end
  end.

(* ---- ParseQuery -------------------------------------------------------------------------------------------- *)

Fixpoint conditions_valid (e : penv) (q : node) : bool :=
  match q with
  | Cond pt key o v => pe_valid e pt key o v
  | Comb _ ch => forallb (conditions_valid e) ch
  end.

Inductive qres :=
| QSyntax                    (* ErrSyntax from the error listener *)
| QVisit (er : verr)         (* the visitor's first error *)
| QInvalid                   (* validate returned an error *)
| QOk (root : option node)   (* the simplified root *)
| QOutside                   (* a literal outside the code-point model (raw bytes >= 0x80 from \x or \ooo escapes) *)
| QFuel.                     (* unreachable *)

Definition tel_eq : text := [116; 101; 108; 32; 61; 32].   (* "tel = " *)

(* the text handed to the lexer *)
Definition preprocess (e : penv) (s : text) : text :=
  let s := trim s in
  if pe_redact e then s
  else if only_phone (trim s) then
    match pe_phone e s with
    | Some number => tel_eq ++ number
    | None => s
    end
  else s.

(* everything up to and including the visitor *)
Inductive fres := FSyntax | FVisit (er : verr) | FTree (n : node) | FOutside | FFuel.

Definition parse_front (e : penv) (s : text) : fres :=
  match cql_lex (preprocess e s) with
  | LexOk ts =>
      match parse_tokens ts with
      | POk a _ =>
          match visit e a with
          | VOutside => FOutside
          | VNode n [] => FTree n
          | VNode _ (er :: _) => FVisit er
          end
      | PErr => FSyntax
      | PFuel => FFuel
      end
  | LexStuck => FSyntax
  | LexFuel => FFuel
  end.

Definition parse_query (e : penv) (s : text) : qres :=
  match parse_front e s with
  | FSyntax => QSyntax
  | FVisit er => QVisit er
  | FOutside => QOutside
  | FFuel => QFuel
  | FTree n => if conditions_valid e n then QOk (simplify n) else QInvalid
  end.
